import Slu.Model.Ilu
import Slu.Model.IluFactor
import SluProofs.Lemmas.Ilu
import SluProofs.Lemmas.IluFactor
import SluProofs.Props.C02
import SluProofs.Props.C14
import Slu.Model.IluDrop
import SluProofs.Lemmas.IluDrop
import SluProofs.Lemmas.QSelect
import Slu.Model.IluDropU
import SluProofs.Lemmas.IluDropU
import Mathlib.Tactic.Ring
import Mathlib.Tactic.Linarith
import Mathlib.Algebra.Order.Field.Basic
/-
C15 — Incomplete LU never breaks down and is exact when dropping is off.

Two models, two groups of theorems.

(1) The pivot routine `ilu_[sdcz]pivotL` — `iluPivotChoice` / `iluApply` (Slu/Model/Ilu.lean), a bit mirror that
    is executed against every pivot event of every run: totality (`ilu_pivot_total`, `ilu_pivot_total_complex`),
    the recorded row, the no-candidate return, `info`; the MC64 glue of `gsisx`; the solve step.

(2) The factorization AS A WHOLE — `iluFactor` (Slu/Model/IluFactor.lean), the column loop of `[sdcz]gsitrf` at
    specification level in exact arithmetic, written on the pattern of `Slu.LU.luFactor`: eliminate column j by
    the previous (dropped) L columns, drop from U what the oracle says, accumulate `drop_sum` by MILU mode and
    damp it, choose the pivot with `iluPivotChoice` (threshold, remembered row, diagonal preference, zero pivot
    replaced by `fill_tol`, MILU reset), scale; after each column the second oracle zeroes entries of the
    finished L columns and scales diagonal entries of U (`ilu_[sdcz]drop_row`).  Proved, over any field with a
    magnitude satisfying `MagLaws` (instances: `Rat`, `Cx Rat`):
    * `iluFactor_identity_with_error` — for EVERY oracle, `L̃·Ũ = Pr·A·Pc + E` entrywise, `E` being the matrix
      the model writes from the oracle's choices only (dropped multipliers times their L columns, pivot
      modification at the pivot position, products of the dropped L entries, diagonal scalings);
      `iluFactor_error_udrop` gives `E` in closed form when only U entries are dropped;
    * `iluFactor_nodrop_eq_lu` — oracle drops nothing and no pivot replaced (every MILU mode): pivots, L, U are
      those of the COMPLETE LU driven by the same policy with `drop_sum = 0`, and `E = 0`;
      `luFactorIluPivot_eq` — with every candidate row eligible that policy IS `[sdcz]pivotL`
      (`iluPivotChoice_eq_pivotChoice`: same return value, same pivot row, same reuse flag, singular columns
      included), hence `iluFactor_nodrop_eq_luFactor`: `iluFactor = luFactor`, and `iluFactor_nodrop_identity`:
      `Pr·A·Pc = L·U` by C02 — the formal content of "with dropping disabled and no pivot replaced the result
      meets the complete-LU guarantees";
    * `iluFactor_udiag_nonzero` (real), `iluFactor_udiag_nonzero_complex` — whenever every column has an eligible
      candidate row when it is reached, the model never stops and every diagonal entry of Ũ is nonzero
      (via `ilu_pivot_total`); `iluFactor_udiag_nonzero_full`: this holds when every row is a candidate of every
      column and eligible and `n ≤ m`.
    WHAT STAYS AN ORACLE: which entries are dropped — both rules of `ilu_?copy_to_ucol` (tolerance, quota /
    qselect), both rules of `ilu_?drop_row` (row norms, quota, dynamic tolerances) — and the diagonal factors of
    drop_row's MILU compensation; the damping factor `omega` is an arbitrary function of the column and the raw
    sum.  WHAT IS NOT MODELLED: supernodes and relaxed supernodes as storage, panels, the symbolic factorization
    on the dropped structure, memory expansion, drop_row's contribution `nzp` to `info`.  The tie between
    `iluFactor` and the C column loop is the output clauses of the differential check (factors well-formed,
    identity with dropping off, X = solve with the returned factors) plus the pivot-event mirror; there is no
    event-level correspondence for the dropping steps.
-/
namespace Slu.Ilu
open Slu Slu.Kernels

/-! ### MC64 glue of gsisx -/

/-- **C15 (row indices restored).** `[sdcz]gsisx` replaces every row index `r` of the caller's A by
`perm[r]` before the factorization and by `iperm[.]` afterwards; for every permutation `perm` of
`0..n-1` and every index array with entries below `n` the caller gets its own row indices back. -/
theorem gsisx_rowind_restored (n : Nat) (perm rowind : Array Nat) (h : PermOn n perm)
    (hr : ∀ k, k < rowind.size → rowind[k]! < n) :
    restoreRows perm (permuteRows perm rowind) = rowind := by
  unfold restoreRows permuteRows
  apply Array.ext
  · simp
  · intro k h1 h2
    simp only [Array.getElem_map]
    have hk : rowind[k]! < n := hr k h2
    have : rowind[k]! = rowind[k] := by simp [h2]
    rw [← this]
    exact invPerm_perm n perm h _ hk

/-- the core identity used above: `iperm (perm i) = i` -/
theorem gsisx_iperm_perm (n : Nat) (perm : Array Nat) (h : PermOn n perm) (i : Nat) (hi : i < n) :
    (invPerm perm)[perm[i]!]! = i := invPerm_perm n perm h i hi

/-- **C15 (permutations are bijections).** Folding MC64's permutation into the pivoting permutation,
`perm_r := perm_r ∘ perm`, gives again a permutation of `0..n-1`: injective, into range, onto. -/
theorem ilu_perm_bij (n : Nat) (permr perm : Array Nat) (hr : PermOn n permr) (hp : PermOn n perm) :
    PermOn n (foldPerm permr perm) ∧ ∀ v, v < n → ∃ i, i < n ∧ (foldPerm permr perm)[i]! = v := by
  have hP : PermOn n (foldPerm permr perm) := by
    refine ⟨by simp [foldPerm, hp.1], ?_, ?_⟩
    · intro i hi
      rw [foldPerm_get permr perm i (by rw [hp.1]; exact hi)]
      exact hr.2.1 _ (hp.2.1 i hi)
    · intro i j hi hj hij
      rw [foldPerm_get permr perm i (by rw [hp.1]; exact hi), foldPerm_get permr perm j (by rw [hp.1]; exact hj)] at hij
      exact hp.2.2 i j hi hj (hr.2.2 _ _ (hp.2.1 i hi) (hp.2.1 j hj) hij)
  exact ⟨hP, permOn_surj n _ hP⟩

/-- the folded permutation sends an ORIGINAL row `i` of A to the pivot position of the permuted row -/
theorem ilu_fold_spec (permr perm : Array Nat) (i : Nat) (hi : i < perm.size) :
    (foldPerm permr perm)[i]! = permr[perm[i]!]! := foldPerm_get permr perm i hi

/-! ### the pivot policy never fails -/

/-- **C15 (the pivot policy is total).** `ilu_[sd]pivotL` in exact arithmetic, every MILU variant,
any threshold `u`, with or without a remembered pivot: whenever the column has an eligible candidate
row (a row that does not belong to a later relaxed supernode) — and `drop_sum ≥ 0` in the variants
that treat it as a sum of magnitudes — the routine returns a pivot position inside the column, the
value it leaves at the pivot is NONZERO, and either the return value is 0, or it is `jcol+1` and the
pivot holds the replacement value `fill_tol` (> 0). -/
theorem ilu_pivot_total (inp : PivIn Rat Rat) (hfill : 0 < inp.fillTol)
    (hds : inp.milu = Milu.smilu2 ∨ inp.milu = Milu.smilu3 → 0 ≤ inp.dropSum)
    (hc : ∃ k, k < inp.cands.length ∧ (inp.cands[k]!).elig = true) :
    ∃ p, (realPivot inp).pos = some p ∧ p < inp.cands.length ∧ (realPivot inp).pivVal ≠ 0 ∧
      ((realPivot inp).ret = 0 ∨
        ((realPivot inp).ret = inp.jcol + 1 ∧ (realPivot inp).pivVal = inp.fillTol)) := by
  have inv := scanInv_scanTo inp inp.cands.length
  rw [← scan_eq_scanTo] at inv
  obtain ⟨k0, hk0, hel⟩ := hc
  have hlen : 0 < inp.cands.length := by omega
  rcases inv.alt with ⟨_, _, h3⟩ | ⟨h1, h2, h3, p0, h4, h5⟩
  · have := h3 k0 hk0; unfold eligAt at this; rw [hel] at this; cases this
  · have hpm0 : 0 ≤ (if inp.milu.absVariant = true then (scan inp).pivmax + inp.dropSum else (scan inp).pivmax) := by
      split
      · rename_i hm
        have : 0 ≤ inp.dropSum := hds (by
          cases hmi : inp.milu <;> simp [hmi, Milu.absVariant] at hm ⊢)
        linarith
      · exact h1
    unfold realPivot realPivotG iluPivotChoice
    simp only []
    generalize hpm : (if inp.milu.absVariant = true then (scan inp).pivmax + inp.dropSum else (scan inp).pivmax) = pm at hpm0 ⊢
    rw [if_neg (not_lt.mpr hpm0)]
    by_cases hz : pm = 0
    · -- zero pivot: diagonal, else the first eligible candidate; value fill_tol
      subst hz
      simp only [beq_self_eq_true, if_true]
      cases hd : (scan inp).diag with
      | some d =>
        simp only []
        exact ⟨d, by simp, inv.diag_lt d hd, by simpa using ne_of_gt hfill, Or.inr ⟨by simp, by simp⟩⟩
      | none =>
        simp only [h4]
        exact ⟨p0, by simp, h5, by simpa using ne_of_gt hfill, Or.inr ⟨by simp, by simp⟩⟩
    · have hpos : 0 < pm := lt_of_le_of_ne hpm0 (Ne.symm hz)
      have hbeq : (pm == 0) = false := by simpa using hz
      simp only [hbeq, Bool.false_eq_true, if_false]
      have hcp := choosePtr_spec inp (fun p => inp.u * p) inp.dropSum pm hpos hpm hlen inv h2 h3
      refine ⟨_, rfl, hcp.1, ?_, Or.inl trivial⟩
      exact reset_ne_zero inp.milu inp.dropSum _ (fun hm => hds (by
        cases hmi : inp.milu <;> simp [hmi, Milu.absVariant] at hm ⊢)) hcp.2

/-- **C15 (the pivot policy is total, complex routines).** `ilu_[cz]pivotL` in exact arithmetic over the
Gaussian rationals, for EVERY function `t` standing for the modulus `z_abs` used by `z_sgn` that is
non-negative and vanishes only at zero: every MILU variant, any threshold, with or without a remembered
pivot; whenever the column has an eligible candidate row — and, in the variants where `drop_sum` is a
sum of magnitudes, `drop_sum = d + 0i` with `d ≥ 0` — the routine returns a pivot position inside the
column, the value it leaves at the pivot is NONZERO (the SMILU_2/3 reset adds `z_sgn(pivot) * drop_sum`,
which cannot cancel the pivot), and either the return value is 0, or it is `jcol+1` and the pivot holds
the replacement value `fill_tol + 0i`. -/
theorem ilu_pivot_total_complex (t : Cx Rat → Rat) (ht0 : ∀ z, 0 ≤ t z) (ht : ∀ z, t z = 0 ↔ z = 0)
    (inp : PivIn (Cx Rat) Rat) (hfill : 0 < inp.fillTol)
    (hds : inp.milu = Milu.smilu2 ∨ inp.milu = Milu.smilu3 → 0 ≤ inp.dropSum.re ∧ inp.dropSum.im = 0)
    (hc : ∃ k, k < inp.cands.length ∧ (inp.cands[k]!).elig = true) :
    ∃ p, (complexPivot t inp).pos = some p ∧ p < inp.cands.length ∧ (complexPivot t inp).pivVal ≠ 0 ∧
      ((complexPivot t inp).ret = 0 ∨
        ((complexPivot t inp).ret = inp.jcol + 1 ∧ (complexPivot t inp).pivVal = ⟨inp.fillTol, 0⟩)) := by
  have inv := scanInv_scanTo inp inp.cands.length
  rw [← scan_eq_scanTo] at inv
  obtain ⟨k0, hk0, hel⟩ := hc
  have hlen : 0 < inp.cands.length := by omega
  have hfne : (⟨inp.fillTol, 0⟩ : Cx Rat) ≠ 0 := by
    intro hc
    have := congrArg Cx.re hc
    simp only [Cx.zero_def] at this
    linarith
  have habs : inp.milu.absVariant = true → 0 ≤ inp.dropSum.re ∧ inp.dropSum.im = 0 := fun hm => hds (by
    cases hmi : inp.milu <;> simp [hmi, Milu.absVariant] at hm ⊢)
  rcases inv.alt with ⟨_, _, h3⟩ | ⟨h1, h2, h3, p0, h4, h5⟩
  · have := h3 k0 hk0; unfold eligAt at this; rw [hel] at this; cases this
  · have hpm0 : 0 ≤ (if inp.milu.absVariant = true then (scan inp).pivmax + inp.dropSum.re else (scan inp).pivmax) := by
      split
      · rename_i hm
        have := (habs hm).1
        linarith
      · exact h1
    unfold complexPivot complexPivotG iluPivotChoice
    simp only []
    generalize hpm : (if inp.milu.absVariant = true then (scan inp).pivmax + inp.dropSum.re else (scan inp).pivmax) = pm at hpm0 ⊢
    rw [if_neg (not_lt.mpr hpm0)]
    by_cases hz : pm = 0
    · subst hz
      simp only [beq_self_eq_true, if_true]
      cases hd : (scan inp).diag with
      | some d =>
        simp only []
        exact ⟨d, by simp, inv.diag_lt d hd, hfne, Or.inr ⟨by simp, by simp⟩⟩
      | none =>
        simp only [h4]
        exact ⟨p0, by simp, h5, hfne, Or.inr ⟨by simp, by simp⟩⟩
    · have hpos : 0 < pm := lt_of_le_of_ne hpm0 (Ne.symm hz)
      have hbeq : (pm == 0) = false := by simpa using hz
      simp only [hbeq, Bool.false_eq_true, if_false]
      have hcp := choosePtr_spec inp (fun p => inp.u * p) inp.dropSum.re pm hpos hpm hlen inv h2 h3
      refine ⟨_, rfl, hcp.1, ?_, Or.inl trivial⟩
      exact reset_ne_zero_cx t ht0 ht inp.milu inp.dropSum _ habs hcp.2

/-- the hypotheses on `t` are satisfiable (e.g. by `|re| + |im|`; over the reals by the modulus) -/
example : ∃ t : Cx Rat → Rat, (∀ z, 0 ≤ t z) ∧ (∀ z, t z = 0 ↔ z = 0) :=
  ⟨fun z => |z.re| + |z.im|, fun z => by positivity, fun z => by
    constructor
    · intro h
      have h1 : |z.re| = 0 := by linarith [abs_nonneg z.re, abs_nonneg z.im]
      have h2 : |z.im| = 0 := by linarith [abs_nonneg z.re, abs_nonneg z.im]
      cases z
      simp only at h1 h2
      rw [abs_eq_zero.mp h1, abs_eq_zero.mp h2]; rfl
    · intro h; rw [h]; simp [Cx.zero_def]⟩

/-- **C15 (the recorded pivot row is the row at the pivot position).** Whenever `ilu_[sd]pivotL` returns 0,
the row it records in `perm_r` (`*pivrow`) is the row subscript stored at the position it pivots on — with
or without a remembered pivot, whether or not the remembered row is (still) among the column's candidates.
(False of the pinned code: a remembered row that had been dropped from L was recorded while the first
candidate was used; repaired in /repo by "fix: ilu_[sdcz]pivotL ... remembered pivot row".) -/
theorem ilu_pivot_row_recorded (inp : PivIn Rat Rat) (p : Nat)
    (hp : (realPivot inp).pos = some p) (hr : (realPivot inp).ret = 0) :
    (inp.cands[p]!).row = (realPivot inp).pivrow :=
  iluPivotChoice_row_recorded inp _ _ _ _ p hp hr

/-- the same for `ilu_[cz]pivotL`, for every modulus function `t` -/
theorem ilu_pivot_row_recorded_complex (t : Cx Rat → Rat) (inp : PivIn (Cx Rat) Rat) (p : Nat)
    (hp : (complexPivot t inp).pos = some p) (hr : (complexPivot t inp).ret = 0) :
    (inp.cands[p]!).row = (complexPivot t inp).pivrow :=
  iluPivotChoice_row_recorded inp _ _ _ _ p hp hr

/-- non-vacuity: a remembered row (5) that is absent from the column; the routine abandons it and records
the row it pivots on -/
example : (realPivot ({ jcol := 0, u := 1, usepr := true, pivrowIn := 5, diagind := 9, cands := [{ row := 2, val := 1, elig := true }, { row := 3, val := 4, elig := true }], fillTol := 1, milu := Milu.silu, dropSum := 0, freeRow := none } : PivIn Rat Rat)).pivrow = 3 := 
    by decide +kernel

/-- what the routine does when NO candidate row is eligible (SILU / SMILU_1): it reports the column as
singular (`jcol+1`) WITHOUT choosing a pivot — the search for a free row of l.163-181 is not reached
in these variants (the caller guarantees an eligible candidate by inserting a fill-in position into
an entirely empty column, dgsitrf.c:447-478). -/
theorem ilu_pivot_no_candidate (inp : PivIn Rat Rat) (hm : inp.milu.absVariant = false)
    (hn : ∀ k, k < inp.cands.length → (inp.cands[k]!).elig = false) :
    (realPivot inp).ret = inp.jcol + 1 ∧ (realPivot inp).pos = none := by
  have inv := scanInv_scanTo inp inp.cands.length
  rw [← scan_eq_scanTo] at inv
  have hpm : (scan inp).pivmax = -1 := by
    rcases inv.alt with ⟨h1, _, _⟩ | ⟨_, h2, _, p0, h4, h5⟩
    · exact h1
    · exfalso
      -- ptr0 is only ever set at an eligible position; simpler: the maximum position is eligible
      have : ∀ m, m ≤ inp.cands.length → (scanTo inp m).ptr0 = none := by
        intro m hmle
        induction m with
        | zero => rfl
        | succ m ih =>
          rw [scanTo_succ]
          unfold scanStep
          simp only [hn m (by omega), Bool.not_false, if_true]
          exact ih (by omega)
      have h0 := this inp.cands.length (le_refl _)
      rw [← scan_eq_scanTo, h4] at h0
      cases h0
  unfold realPivot realPivotG iluPivotChoice
  simp only [hm, Bool.false_eq_true, if_false, hpm]
  have : (-1 : Rat) < 0 := by norm_num
  simp [this]

example : ∃ inp : PivIn Rat Rat, 0 < inp.fillTol ∧
    (inp.milu = Milu.smilu2 ∨ inp.milu = Milu.smilu3 → 0 ≤ inp.dropSum) ∧
    (∃ k, k < inp.cands.length ∧ (inp.cands[k]!).elig = true) :=
  ⟨{ jcol := 0, u := 1, usepr := false, pivrowIn := 0, diagind := 0, cands := [{ row := 0, val := 0, elig := true }],
     fillTol := 1 / 100, milu := Milu.silu, dropSum := 0, freeRow := none },
   (by norm_num), ⟨(by intro h; rcases h with h | h <;> cases h), ⟨0, (by simp), rfl⟩⟩⟩

/-! ### info -/

/-- **C15 (info).** `info` counts the columns whose pivot was replaced and never exceeds the number
of columns. -/
theorem ilu_info_le_n (rets : List Nat) : replaceCount rets ≤ rets.length := by
  unfold replaceCount
  exact List.length_filter_le _ _

/-! ### the solve -/

section solve
variable {K : Type} [Field K] [Conj K] [Inhabited K]

/-- **C15 (X is the preconditioner solve defined by the returned factors).** Whatever was dropped:
for every factor pair `F`, permutations, `trans`, `nrhs`, `ldx ≥ n`, column `j` of the X returned by
the driver's solve step is `gstrsCol F perm_c perm_r trans` applied to column `j` of what the step
was given, and the padding rows of X are untouched (C14 then says what `gstrsCol` computes). -/
theorem ilu_solve_is_LU_solve (F : LUFac K) (permc permr : Array Nat) (tr : Tr) (ldx nrhs : Nat) (X : Array K)
    (hld : F.L.n ≤ ldx) (hX : ldx * nrhs ≤ X.size) :
    (∀ j i, j < nrhs → i < F.L.n →
      (gstrs (gstrsCol F permc permr tr) F.L.n ldx nrhs X)[ldx * j + i]! =
        (gstrsCol F permc permr tr (slice X (ldx * j) F.L.n))[i]!) ∧
    (∀ p, p < X.size → (ldx * nrhs ≤ p ∨ F.L.n ≤ p % ldx) →
      (gstrs (gstrsCol F permc permr tr) F.L.n ldx nrhs X)[p]! = X[p]!) := by
  have h := gstrs_columns_independent (gstrsCol F permc permr tr) F.L.n ldx nrhs X
    (fun v => gstrsCol_size F permc permr tr v) hld hX
  exact ⟨h.2.1, h.2.2⟩
end solve

/-! ### the factorization as a whole (`iluFactor`, Slu/Model/IluFactor.lean) -/
open Slu.LU

section whole
variable {K : Type} [Field K] [Inhabited K] [Mag K Rat]

/-- **C15 (identity with explicit error).** For EVERY drop oracle (U-dropping, row dropping of L, diagonal
compensation), every MILU mode, any threshold, pivot replacement or not: whenever the model does not stop,
`Σ_{k ≤ j} Ũ(k,j) · L̃(i,k) = (Pr A Pc)(i,j) + E(i,j)` for every row and column, exactly, where `E` is the
matrix the model writes from the oracle's choices only:
column j is created as `− Σ_{t dropped from U(:,j)} u_tj · L̃(:,t) + (stored pivot − eliminated value) e_(piv j)`
(`cE`, `cE_get`), and each later row-dropping step subtracts the products `U(t,k) · L(i,t)` of the L entries
it zeroes and adds `(f_k − 1) · U(k,k) · L̃(:,k)` for the diagonal entries it scales (`lStep`). -/
theorem iluFactor_identity_with_error (laws : MagLaws K) (F : Flavour K Rat) (P : IluParams K Rat)
    (drop : DropOracle K) (hcol : ∀ j, (P.col j).size = P.m) (b : Bool)
    (h : (iluFactor F P drop b).fail = 0) (j : Nat) (hj : j < P.n) (i : Nat) (hi : i < P.m) :
    ((List.range (j + 1)).map fun k =>
        ((iluFactor F P drop b).U.getD j #[]).getD k 0 * ((iluFactor F P drop b).L.getD k #[]).get i).sum =
      (P.col j).get i + ((iluFactor F P drop b).E.getD j #[]).get i := by
  rw [iluFactor_eq_run] at h ⊢
  have inv := iluRun_inv laws F P drop hcol b P.n h
  rw [inv.ident j hj i hi, dotL_prev _ _ (j + 1) i (by rw [Array.length_toList]; exact inv.usize j hj)]
  congr 1
  apply List.map_congr_left
  intro t _
  congr 1
  generalize (iluRun F P drop b P.n).U.getD j #[] = a
  by_cases ht : t < a.size <;> simp [Array.getD, List.getD, ht]

/-- **C15 (the error matrix in closed form, U-dropping only).** When the oracle drops from U only (no row
dropping of L, no diagonal compensation), column j of `E` is
`E(i,j) = [i = piv j] · (Ũ(j,j) − w_j(piv j)) − Σ_{t<j} d_j(t) · L̃(i,t)`
with `w_j` the eliminated column j, `d_j(t) = u_tj` for the dropped positions and 0 elsewhere, and `L̃` the
FINAL factor: the dropped multipliers times the L columns they belonged to, plus the pivot modification
(replacement by `fill_tol`, MILU reset) at the pivot position. -/
theorem iluFactor_error_udrop (laws : MagLaws K) (F : Flavour K Rat) (P : IluParams K Rat)
    (drop : DropOracle K) (hl : ∀ st j t i, drop.dropL st j t i = false) (hdm : ∀ st j k, drop.diagMul st j k = 1)
    (hcol : ∀ j, (P.col j).size = P.m) (b : Bool)
    (h : (iluFactor F P drop b).fail = 0) (j : Nat) (hj : j < P.n) (i : Nat) (hi : i < P.m) :
    ((iluFactor F P drop b).E.getD j #[]).get i =
      (if i = (iluFactor F P drop b).piv.getD j 0 then
          ((iluFactor F P drop b).U.getD j #[]).getD j 0 - (cW P (iluRun F P drop b j) j).get ((iluFactor F P drop b).piv.getD j 0)
        else 0)
      - ((List.range j).map fun t =>
          (dropdU (cUs P (iluRun F P drop b j) j) (cD P drop (iluRun F P drop b j) j)).getD t 0 *
            ((iluFactor F P drop b).L.getD t #[]).get i).sum := by
  rw [iluFactor_eq_run] at h ⊢
  obtain ⟨e1, _, e3, e4⟩ := iluRun_noL_persist F P drop hl hdm laws hcol b P.n h j hj
  rw [e1, cE_get F P drop _ j i hi, e3, e4]
  have hj0 := iluRun_fail_le F P drop b P.n j (by omega) h
  have hj1 := iluRun_fail_le F P drop b P.n (j + 1) (by omega) h
  have inv := iluRun_inv laws F P drop hcol b j hj0
  obtain ⟨hs1, hs2, hs3, hs4⟩ := inv.sizes
  -- the state after column j
  have hrun : iluRun F P drop b (j + 1) = colStep F P drop (iluRun F P drop b j) j := by
    rw [iluRun_succ, lStep_noL drop hl hdm]
  have hcf : (colStep F P drop (iluRun F P drop b j) j).fail = 0 := by rw [← hrun]; exact hj1
  have hstep := colStep_unfold F P drop (iluRun F P drop b j) j hj0
  have hgood : cBad F P drop (iluRun F P drop b j) j = false := by
    cases hb : cBad F P drop (iluRun F P drop b j) j
    · rfl
    · rw [hstep, if_pos hb] at hcf; simp at hcf
  rw [hgood] at hstep
  simp only [Bool.false_eq_true, if_false] at hstep
  have huslen : (cUs P (iluRun F P drop b j) j).length = j := by rw [cUs, elim_length, prev_length]
  have hp : (iluRun F P drop b (j + 1)).piv.getD j 0 = (cOut F P drop (iluRun F P drop b j) j).pivrow := by
    rw [hrun, hstep]; simp [Array.getD, hs1, Array.getElem_push]
  have hu : ((iluRun F P drop b (j + 1)).U.getD j #[]).getD j 0 = (cOut F P drop (iluRun F P drop b j) j).pivVal := by
    rw [hrun, hstep]; simp [Array.getD, hs3, keepU_length, huslen, Array.getElem_push]
  rw [hp, hu]
  congr 1
  rw [dotL_prev _ _ j i (by rw [dropdU_length, huslen])]
  congr 1
  apply List.map_congr_left
  intro t ht
  have ht' : t < j := List.mem_range.mp ht
  congr 2
  exact ((iluRun_noL_persist F P drop hl hdm laws hcol b P.n h t (by omega)).2.1.trans
    (iluRun_noL_persist F P drop hl hdm laws hcol b j hj0 t ht').2.1.symm).symm

/-- **C15 (dropping disabled, no pivot replaced: the complete LU of the same pivot policy).** Every MILU
mode.  If the oracle drops nothing, the model did not stop and the policy returned 0 for every column
(`iinfo = 0`), then pivots, L and U are exactly those of the COMPLETE LU whose pivot is chosen by
`ilu_[sdcz]pivotL` with `drop_sum = 0` (`luFactorIluPivot`), and the error matrix vanishes identically.
(`drop_sum` is 0 in every mode when nothing is dropped, the damping multiplies 0, and the MILU reset adds
`0` resp. `sgn(pivot) * 0`: `FlavourLaws`.) -/
theorem iluFactor_nodrop_eq_lu (laws : MagLaws K) (F : Flavour K Rat) (hF : FlavourLaws F) (P : IluParams K Rat)
    (drop : DropOracle K) (hd : DropsNothing drop) (b : Bool)
    (h : (iluFactor F P drop b).fail = 0) (hi : (iluFactor F P drop b).iinfo = 0) :
    (iluFactor F P drop b).toLU = luFactorIluPivot F P b ∧
    ∀ k i, ((iluFactor F P drop b).E.getD k #[]).get i = 0 :=
  iluRun_dropsNothing laws F hF P drop hd b P.n h hi P.n (le_refl _)

/-- **C15 (the two pivot policies coincide).** When every candidate row is eligible, the complete LU driven
by `ilu_[sdcz]pivotL` with `drop_sum = 0` IS `Slu.LU.luFactor` (driven by `[sdcz]pivotL`) with the same
threshold, candidate order, remembered rows and diagonal rows: same pivots, L, U, reuse flag and `info` —
for every matrix, singular ones included. -/
theorem luFactorIluPivot_eq (laws : MagLaws K) (F : Flavour K Rat) (hF : FlavourLaws F) (P : IluParams K Rat)
    (hel : ∀ j r, P.elig j r = true) (b : Bool) : luFactorIluPivot F P b = luFactor P.toLU b :=
  luFactorIluPivot_eq_luFactor laws F hF P hel b

/-- **C15 (dropping disabled and no pivot replaced = `luFactor`).** -/
theorem iluFactor_nodrop_eq_luFactor (laws : MagLaws K) (F : Flavour K Rat) (hF : FlavourLaws F) (P : IluParams K Rat)
    (drop : DropOracle K) (hd : DropsNothing drop) (hel : ∀ j r, P.elig j r = true) (b : Bool)
    (h : (iluFactor F P drop b).fail = 0) (hi : (iluFactor F P drop b).iinfo = 0) :
    (iluFactor F P drop b).toLU = luFactor P.toLU b := by
  rw [(iluFactor_nodrop_eq_lu laws F hF P drop hd b h hi).1, luFactorIluPivot_eq laws F hF P hel b]

/-- **C15 (… hence the complete-LU guarantees).** With dropping disabled and no pivot replaced the returned
factors satisfy `Pr A Pc = L U` exactly (C02 `luFactor_identity`; the other C02 theorems — unit lower
triangular L, nonzero diagonal, threshold bound on the multipliers, schedule independence — transfer through
`iluFactor_nodrop_eq_luFactor` in the same way). -/
theorem iluFactor_nodrop_identity (laws : MagLaws K) (F : Flavour K Rat) (hF : FlavourLaws F) (P : IluParams K Rat)
    (drop : DropOracle K) (hd : DropsNothing drop) (hel : ∀ j r, P.elig j r = true) (hP : Legal P.toLU) (b : Bool)
    (h : (iluFactor F P drop b).fail = 0) (hi : (iluFactor F P drop b).iinfo = 0)
    (j : Nat) (hj : j < P.n) (i : Nat) (hi' : i < P.m) :
    (P.col j).get i =
      ((List.range (j + 1)).map fun k =>
        ((iluFactor F P drop b).U.getD j #[]).getD k 0 * ((iluFactor F P drop b).L.getD k #[]).get i).sum := by
  have e := iluFactor_nodrop_eq_luFactor laws F hF P drop hd hel b h hi
  have hinfo : (luFactor P.toLU b).info = 0 := by rw [← e]; exact h
  have := luFactor_identity laws P.toLU hP b hinfo j hj i hi'
  rw [← e] at this
  exact this

end whole

/-- **C15 (the vector step is what `iluApply` leaves in the column).** `colStep` stores the new L column as a
vector over all rows; `ilu_[sdcz]pivotL` works on the candidate list (`iluApply`: store the pivot value, interchange
with position 0, cdiv — mirrored bit for bit against the C routine).  Whenever the policy returns a position `p`
inside the column whose row it records, position 0 of `iluApply` holds the recorded pivot row with the value that
becomes `Ũ(j,j)`, and every other position holds a candidate row other than the pivot row together with exactly
the entry of the new L column at that row (candidate rows pairwise distinct). -/
theorem ilu_apply_matches_colStep {K : Type} [Field K] [Inhabited K] [Mag K Rat]
    (P : IluParams K Rat) (piv : Array Nat) (j : Nat) (w : Vec K) (o : PivOut K)
    (hnd : (P.order j).Nodup) (p : Nat) (hpos : o.pos = some p) (hp : p < (iluCands P piv j w).length)
    (hrow : ((iluCands P piv j w)[p]! : Cand K).row = o.pivrow) (k : Nat) (e : Cand K)
    (he : (iluApply (iluCands P piv j w) o)[k]? = some e) :
    (k = 0 → e.row = o.pivrow ∧ e.val = o.pivVal) ∧
    (k ≠ 0 → e.row ≠ o.pivrow ∧ e.row ∈ P.order j ∧
      e.val = Vec.get ((w.setIfInBounds o.pivrow o.pivVal).map (· * (1 / o.pivVal))) e.row) :=
  iluApply_matches_colStep P piv j w o hnd p hpos hp hrow k e he

/-! #### the scalar flavours satisfy the laws -/

theorem realFlavour_laws : FlavourLaws (realFlavour : Flavour Rat Rat) where
  ds0 := rfl
  ofR0 := rfl
  reset0 := fun v => by simp [realFlavour]
  rscale0 := fun r => by simp [Mag.rscale]

theorem complexFlavour_laws (t : Cx Rat → Rat) : FlavourLaws (complexFlavour t) where
  ds0 := rfl
  ofR0 := rfl
  reset0 := fun v => by simp [complexFlavour]
  rscale0 := fun r => by
    show (⟨(0 : Cx Rat).re * r, (0 : Cx Rat).im * r⟩ : Cx Rat) = 0
    simp [Cx.zero_def]

/-! #### the diagonal of Ũ -/

/-- in the variants where `drop_sum` is a sum of magnitudes it is non-negative (real routines), provided the
damping factor is non-negative -/
theorem cDsum_nonneg_real (P : IluParams Rat Rat) (drop : DropOracle Rat) (st : IluSt Rat) (j : Nat)
    (homega : ∀ j s, 0 ≤ s → 0 ≤ P.omega j s) (hm : P.milu = Milu.smilu2 ∨ P.milu = Milu.smilu3) :
    0 ≤ cDsum realFlavour P drop st j := by
  unfold cDsum dropSumOf
  simp only []
  have hraw : 0 ≤ rawSum realFlavour P.milu (droppedVals (cUs P st j) (cD P drop st j)) := by
    rcases hm with hm | hm <;> rw [hm] <;> simp only [rawSum, realFlavour, id]
    · exact rabs_nonneg _
    · apply List.sum_nonneg
      intro x hx
      obtain ⟨v, _, rfl⟩ := List.mem_map.mp hx
      exact rabs_nonneg v
  exact mul_nonneg hraw (homega j _ hraw)

/-- **C15 (U's diagonal is nonzero).** Real routines, every MILU mode, EVERY drop oracle whose diagonal
factors are nonzero, any threshold, with or without remembered pivots: if every column has an eligible
candidate row when it is reached (a row of `order j` that is not yet a pivot row and does not belong to a
later relaxed supernode), the replacement values are positive, the damping factor is non-negative and the
candidate rows are rows of the matrix, then the model never stops and every diagonal entry of Ũ is nonzero
(uses `ilu_pivot_total`). -/
theorem iluFactor_udiag_nonzero (P : IluParams Rat Rat) (drop : DropOracle Rat) (b : Bool)
    (hcol : ∀ j, (P.col j).size = P.m)
    (hrows : ∀ j, ∀ r ∈ P.order j, r < P.m)
    (hfill : ∀ j, 0 < P.fillTol j)
    (homega : ∀ j s, 0 ≤ s → 0 ≤ P.omega j s)
    (hdm : ∀ st j k, drop.diagMul st j k ≠ 0)
    (hc : ∀ j < P.n, (iluRun realFlavour P drop b j).fail = 0 →
      ∃ r ∈ P.order j, r ∉ (iluRun realFlavour P drop b j).piv.toList ∧ P.elig j r = true) :
    (iluFactor realFlavour P drop b).fail = 0 ∧
    ∀ k < P.n, ((iluFactor realFlavour P drop b).U.getD k #[]).getD k 0 ≠ 0 := by
  apply iluRun_udiag magLaws_rat realFlavour P drop hcol b hrows hdm _ P.n (le_refl _)
  intro j hj hf
  obtain ⟨r, hr, hnp, he⟩ := hc j hj hf
  set st := iluRun realFlavour P drop b j with hst
  set inp := iluPivIn P st.piv st.usepr j (cW P st j) (cDsum realFlavour P drop st j) with hinp
  have hcand := iluCands_elig P st.piv j (cW P st j) r hr hnp he
  have hout : cOut realFlavour P drop st j = realPivot inp := rfl
  obtain ⟨p, hpos, hplt, hpv, _⟩ := ilu_pivot_total inp (hfill j)
    (fun hm => cDsum_nonneg_real P drop st j homega hm) hcand
  rw [hout]
  refine ⟨p, hpos, hplt, ?_, hpv⟩
  exact iluPivotChoice_row_at magLaws_rat inp _ _ _ _ hcand p hpos

theorem exists_free_row (m : Nat) (l : List Nat) (h : l.length < m) : ∃ r < m, r ∉ l := by
  by_contra hcon
  simp only [not_exists, not_and, not_not] at hcon
  have hsub : Finset.range m ⊆ l.toFinset := by
    intro r hr
    exact List.mem_toFinset.mpr (hcon r (Finset.mem_range.mp hr))
  have h1 := Finset.card_le_card hsub
  have h2 := List.toFinset_card_le l
  rw [Finset.card_range] at h1
  omega

/-- every row is a candidate of every column and eligible, `n ≤ m`: the hypothesis `hc` of
`iluFactor_udiag_nonzero` holds (the first `j < m` pivot rows are distinct rows `< m`, so a free row exists) -/
theorem iluFactor_udiag_nonzero_full (P : IluParams Rat Rat) (drop : DropOracle Rat) (b : Bool)
    (hcol : ∀ j, (P.col j).size = P.m)
    (horder : ∀ j, P.order j = List.range P.m) (hel : ∀ j r, P.elig j r = true) (hnm : P.n ≤ P.m)
    (hfill : ∀ j, 0 < P.fillTol j)
    (homega : ∀ j s, 0 ≤ s → 0 ≤ P.omega j s)
    (hdm : ∀ st j k, drop.diagMul st j k ≠ 0) :
    (iluFactor realFlavour P drop b).fail = 0 ∧
    ∀ k < P.n, ((iluFactor realFlavour P drop b).U.getD k #[]).getD k 0 ≠ 0 := by
  have hrows : ∀ j, ∀ r ∈ P.order j, r < P.m := by
    intro j r hr; rw [horder] at hr; exact List.mem_range.mp hr
  apply iluFactor_udiag_nonzero P drop b hcol hrows hfill homega hdm
  intro j hj hf
  have inv := iluRun_inv magLaws_rat realFlavour P drop hcol b j hf
  have hlen : (iluRun realFlavour P drop b j).piv.toList.length = j := by simpa using inv.sizes.1
  obtain ⟨r, hr, hnot⟩ := exists_free_row P.m _ (by rw [hlen]; omega)
  exact ⟨r, by rw [horder]; exact List.mem_range.mpr hr, hnot, hel j r⟩

/-- sums of `m + 0i` with `m ≥ 0` -/
theorem cx_sum_re_nonneg (l : List (Cx Rat)) (h : ∀ z ∈ l, 0 ≤ z.re ∧ z.im = 0) : 0 ≤ l.sum.re ∧ l.sum.im = 0 := by
  induction l with
  | nil => simp [Cx.zero_def]
  | cons a l ih =>
    obtain ⟨h1, h2⟩ := ih (fun z hz => h z (List.mem_cons_of_mem _ hz))
    obtain ⟨a1, a2⟩ := h a List.mem_cons_self
    rw [List.sum_cons, Cx.add_def]
    exact ⟨add_nonneg a1 h1, by simp [a2, h2]⟩

theorem cDsum_nonneg_complex (t : Cx Rat → Rat) (P : IluParams (Cx Rat) Rat) (drop : DropOracle (Cx Rat))
    (st : IluSt (Cx Rat)) (j : Nat)
    (homega : ∀ j s, 0 ≤ P.omega j s) (hm : P.milu = Milu.smilu2 ∨ P.milu = Milu.smilu3) :
    0 ≤ (cDsum (complexFlavour t) P drop st j).re ∧ (cDsum (complexFlavour t) P drop st j).im = 0 := by
  unfold cDsum dropSumOf
  simp only []
  have hraw : 0 ≤ (rawSum (complexFlavour t) P.milu (droppedVals (cUs P st j) (cD P drop st j))).re ∧
      (rawSum (complexFlavour t) P.milu (droppedVals (cUs P st j) (cD P drop st j))).im = 0 := by
    rcases hm with hm | hm <;> rw [hm] <;> simp only [rawSum, complexFlavour]
    · exact ⟨magLaws_cx.nonneg _, trivial⟩
    · apply cx_sum_re_nonneg
      intro z hz
      obtain ⟨v, _, rfl⟩ := List.mem_map.mp hz
      exact ⟨magLaws_cx.nonneg v, rfl⟩
  show 0 ≤ (_ * _ : Rat) ∧ (_ * _ : Rat) = 0
  exact ⟨mul_nonneg hraw.1 (homega j _), by rw [hraw.2]; ring⟩

/-- **C15 (U's diagonal is nonzero, complex routines).** The same for `ilu_[cz]pivotL`, for every function
`t` standing for the modulus inside `z_sgn` that is non-negative and vanishes only at zero (uses
`ilu_pivot_total_complex`). -/
theorem iluFactor_udiag_nonzero_complex (t : Cx Rat → Rat) (ht0 : ∀ z, 0 ≤ t z) (ht : ∀ z, t z = 0 ↔ z = 0)
    (P : IluParams (Cx Rat) Rat) (drop : DropOracle (Cx Rat)) (b : Bool)
    (hcol : ∀ j, (P.col j).size = P.m)
    (hrows : ∀ j, ∀ r ∈ P.order j, r < P.m)
    (hfill : ∀ j, 0 < P.fillTol j)
    (homega : ∀ j s, 0 ≤ P.omega j s)
    (hdm : ∀ st j k, drop.diagMul st j k ≠ 0)
    (hc : ∀ j < P.n, (iluRun (complexFlavour t) P drop b j).fail = 0 →
      ∃ r ∈ P.order j, r ∉ (iluRun (complexFlavour t) P drop b j).piv.toList ∧ P.elig j r = true) :
    (iluFactor (complexFlavour t) P drop b).fail = 0 ∧
    ∀ k < P.n, ((iluFactor (complexFlavour t) P drop b).U.getD k #[]).getD k 0 ≠ 0 := by
  apply iluRun_udiag magLaws_cx (complexFlavour t) P drop hcol b hrows hdm _ P.n (le_refl _)
  intro j hj hf
  obtain ⟨r, hr, hnp, he⟩ := hc j hj hf
  set st := iluRun (complexFlavour t) P drop b j with hst
  set inp := iluPivIn P st.piv st.usepr j (cW P st j) (cDsum (complexFlavour t) P drop st j) with hinp
  have hcand := iluCands_elig P st.piv j (cW P st j) r hr hnp he
  have hout : cOut (complexFlavour t) P drop st j = complexPivot t inp := rfl
  obtain ⟨p, hpos, hplt, hpv, _⟩ := ilu_pivot_total_complex t ht0 ht inp (hfill j)
    (fun hm => cDsum_nonneg_complex t P drop st j homega hm) hcand
  rw [hout]
  refine ⟨p, hpos, hplt, ?_, hpv⟩
  exact iluPivotChoice_row_at magLaws_cx inp _ _ _ _ hcand p hpos

/-! #### non-vacuity: a 3×3 matrix, one dropped entry, one replaced pivot -/

def exIluCols : Nat → Vec Rat
  | 0 => #[4, 2, 1]
  | 1 => #[1, 3, 1]
  | _ => #[1, 1, 5]

def exIlu (mi : Milu) : IluParams Rat Rat :=
  { m := 3, n := 3, col := exIluCols, u := 1 / 10, order := fun _ => [0, 1, 2], oldPiv := fun _ => 0,
    diagRow := fun j => j, milu := mi, fillTol := fun _ => 1 / 100, elig := fun _ _ => true, omega := fun _ _ => 1 }

theorem exIlu_col (mi : Milu) : ∀ j, ((exIlu mi).col j).size = (exIlu mi).m := by
  intro j; match j with | 0 => rfl | 1 => rfl | (_ + 2) => rfl

/-- drops `U(0,2)` -/
def exDropU : DropOracle Rat :=
  { dropU := fun _ j _ _ t => j == 2 && t == 0, dropL := fun _ _ _ _ => false, diagMul := fun _ _ _ => 1 }

/-- drops `U(0,2)`, and after column 1 drops `L(2,0)` and doubles `U(0,0)` -/
def exDropUL : DropOracle Rat :=
  { dropU := fun _ j _ _ t => j == 2 && t == 0, dropL := fun _ j t i => j == 1 && t == 0 && i == 2,
    diagMul := fun _ j k => if j == 1 && k == 0 then 2 else 1 }

/-- nothing dropped: the ILU model returns the factors of `luFactor`, `E = 0` -/
example : (iluFactor realFlavour (exIlu .smilu2) noDrop false).piv = (luFactor (exIlu .smilu2).toLU false).piv ∧
    (iluFactor realFlavour (exIlu .smilu2) noDrop false).L = (luFactor (exIlu .smilu2).toLU false).L ∧
    (iluFactor realFlavour (exIlu .smilu2) noDrop false).U = (luFactor (exIlu .smilu2).toLU false).U ∧
    (iluFactor realFlavour (exIlu .smilu2) noDrop false).U = #[#[4], #[1, 5/2], #[1, 1/2, 23/5]] := by
  decide +kernel
example : (iluFactor realFlavour (exIlu .smilu2) noDrop false).E = #[#[0, 0, 0], #[0, 0, 0], #[0, 0, 0]] := by
  decide +kernel
/-- … and the theorem applies (its hypotheses hold) -/
example := iluFactor_nodrop_eq_luFactor magLaws_rat realFlavour realFlavour_laws (exIlu .smilu2) noDrop
  noDrop_dropsNothing (fun _ _ => rfl) false (by decide +kernel) (by decide +kernel)

/-- one dropped entry `u_02 = 1` (SILU): Ũ(:,2) loses it, the error column is `−1 · L̃(:,0)` -/
example : (iluFactor realFlavour (exIlu .silu) exDropU false).U = #[#[4], #[1, 5/2], #[0, 1/2, 23/5]] ∧
    (iluFactor realFlavour (exIlu .silu) exDropU false).L = #[#[1, 1/2, 1/4], #[0, 1, 3/10], #[0, 0, 1]] ∧
    (iluFactor realFlavour (exIlu .silu) exDropU false).E = #[#[0, 0, 0], #[0, 0, 0], #[-1, -1/2, -1/4]] := by
  decide +kernel
/-- the same with SMILU_1: the dropped value is added to the pivot (`23/5 + 1`), which shows in `E(2,2)` -/
example : (iluFactor realFlavour (exIlu .smilu1) exDropU false).U = #[#[4], #[1, 5/2], #[0, 1/2, 28/5]] ∧
    (iluFactor realFlavour (exIlu .smilu1) exDropU false).E = #[#[0, 0, 0], #[0, 0, 0], #[-1, -1/2, 3/4]] := by
  decide +kernel
/-- the identity `L̃Ũ = A + E`, evaluated (every entry), with row dropping and a scaled diagonal as well -/
example : ∀ j < 3, ∀ i < 3,
    ((List.range (j + 1)).map fun k =>
        ((iluFactor realFlavour (exIlu .smilu1) exDropUL false).U.getD j #[]).getD k 0 *
          ((iluFactor realFlavour (exIlu .smilu1) exDropUL false).L.getD k #[]).get i).sum =
      ((exIlu .smilu1).col j).get i + ((iluFactor realFlavour (exIlu .smilu1) exDropUL false).E.getD j #[]).get i := by
  decide +kernel
example : (iluFactor realFlavour (exIlu .smilu1) exDropUL false).E = #[#[4, 2, -1], #[0, 0, -1/4], #[-1, -1/2, 1]] := by
  decide +kernel
/-- … which is what the theorem says (hypothesis: the model did not stop) -/
example := iluFactor_identity_with_error magLaws_rat realFlavour (exIlu .smilu1) exDropUL (exIlu_col _) false
  (by decide +kernel)

/-- a zero column: the pivot is replaced by `fill_tol = 1/100`, `iinfo = 1`, the diagonal stays nonzero and
the replacement is the only entry of `E` -/
def exIluZ : IluParams Rat Rat := { exIlu .silu with col := fun j => if j = 1 then #[0, 0, 0] else exIluCols j }

example : (iluFactor realFlavour exIluZ noDrop false).iinfo = 1 ∧ (iluFactor realFlavour exIluZ noDrop false).fail = 0 ∧
    (iluFactor realFlavour exIluZ noDrop false).U = #[#[4], #[0, 1/100], #[1, 1/2, 19/4]] ∧
    (iluFactor realFlavour exIluZ noDrop false).E = #[#[0, 0, 0], #[0, 1/100, 0], #[0, 0, 0]] := by
  decide +kernel
/-- the hypotheses of `iluFactor_udiag_nonzero_full` hold for it -/
example := iluFactor_udiag_nonzero_full exIluZ exDropUL false
  (by intro j; match j with | 0 => rfl | 1 => rfl | (_ + 2) => rfl)
  (fun _ => rfl) (fun _ _ => rfl) (by decide) (fun _ => by norm_num [exIluZ, exIlu])
  (fun _ _ _ => by norm_num [exIluZ, exIlu]) (fun _ j k => by simp only [exDropUL]; split <;> norm_num)

end Slu.Ilu

/-! ## The dropping rules (`ilu_[sd]drop_row`, Slu/Model/IluDrop.lean) — no longer an oracle

`dropBlock` is the two dropping loops and the diagonal compensation of `ilu_?drop_row` on the `m x n` block of a
supernode (rows in storage order, `n` rows of the diagonal block first); `(dropBlock ..).1` is the loop state on exit
(`r` rows dropped, kept rows at positions `0..m1`, ghost map `orig` = original position of the row stored at each
position, ghost `trace` = (original position, norm consulted) of every dropped row, newest first),
`(dropBlock ..).2.2.1` the rows after the compensation.  All statements hold for EVERY scalar instance (`opsF64`,
`opsF32` — the executed bit mirrors — and `opsRat`), every norm, rule, MILU mode, tolerance and quota. -/
namespace Slu.IluDrop
open Slu Slu.Ilu

section block
variable {K R T : Type} [Inhabited K] [Inhabited R] [LT R] [DecidableLT R]
variable (ops : DropOps K R T) (rule : Rule) (milu : Milu) (nrm : Nrm) (dropTol : T) (quota : Int) (alpha : R) (fillTol : T)
variable (m n : Nat) (rows : Array (Array K)) (subs : Array Int)

/-- **C15 (drop_row: the value returned).** The number of rows dropped plus the number of rows kept (positions
`0..m1`) is the number of rows of the supernode; one trace entry per dropped row; at least the `n` rows of the diagonal
block are left. -/
theorem dropRow_count (hn : 1 ≤ n) (hnm : n < m) (hr : rows.size = m) (hs : subs.size = m) :
    (dropBlock ops rule milu nrm dropTol quota alpha fillTol m n rows subs).1.r
      + ((dropBlock ops rule milu nrm dropTol quota alpha fillTol m n rows subs).1.m1 + 1) = m ∧
    (dropBlock ops rule milu nrm dropTol quota alpha fillTol m n rows subs).1.trace.length
      = (dropBlock ops rule milu nrm dropTol quota alpha fillTol m n rows subs).1.r ∧
    n ≤ (dropBlock ops rule milu nrm dropTol quota alpha fillTol m n rows subs).1.m1 + 1 := by
  have h := (dropBlock_inv ops rule milu nrm dropTol quota alpha fillTol m n rows subs hn hnm hr hs).1
  exact ⟨by have := h.cnt; omega, h.tlen, h.n_le⟩

/-- **C15 (drop_row: the rows of the diagonal block are never dropped, never moved).** Position `p < n` is a kept
position, still holds original row `p` with its subscript, no dropped row is a row of the diagonal block, and outside
its diagonal entry the row is unchanged by the compensation. -/
theorem dropRow_diag_block_kept (hn : 1 ≤ n) (hnm : n < m) (hr : rows.size = m) (hs : subs.size = m) (p : Nat) (hp : p < n) :
    p ≤ (dropBlock ops rule milu nrm dropTol quota alpha fillTol m n rows subs).1.m1 ∧
    (dropBlock ops rule milu nrm dropTol quota alpha fillTol m n rows subs).1.orig[p]! = p ∧
    (dropBlock ops rule milu nrm dropTol quota alpha fillTol m n rows subs).1.subs[p]! = subs[p]! ∧
    (∀ e ∈ (dropBlock ops rule milu nrm dropTol quota alpha fillTol m n rows subs).1.trace, e.1 ≠ p) ∧
    (∀ j, j ≠ p → ((dropBlock ops rule milu nrm dropTol quota alpha fillTol m n rows subs).2.2.1[p]!)[j]! = (rows[p]!)[j]!) := by
  have h := (dropBlock_inv ops rule milu nrm dropTol quota alpha fillTol m n rows subs hn hnm hr hs).1
  have hle : p ≤ (dropBlock ops rule milu nrm dropTol quota alpha fillTol m n rows subs).1.m1 := by have := h.n_le; omega
  have hk := h.kept p hle
  rw [h.diag p hp] at hk
  refine ⟨hle, h.diag p hp, hk.2.1, fun e he heq => ?_, fun j hj => ?_⟩
  · have := (trace_not_kept h e he).1; omega
  · rw [dropBlock_rows]
    split
    · rw [hk.1]
    · rw [diagFix_get ops milu alpha fillTol m n _ h.rsize hnm p]
      split
      · unfold fixedRow
        split
        · rw [hk.1]
        · rw [get!_set_ne _ _ _ _ (fun e => hj e.symm), hk.1]
      · rw [hk.1]

/-- **C15 (drop_row: the kept rows are original rows, each at most once, with their values).** Every kept position
`p ≤ m1` holds the original row `orig p < m` (subscript and, below the diagonal block, all values bit for bit; rows of
the diagonal block: `dropRow_diag_block_kept`), distinct kept positions hold distinct original rows, and none of them
is a dropped row. -/
theorem dropRow_kept_subset (hn : 1 ≤ n) (hnm : n < m) (hr : rows.size = m) (hs : subs.size = m) (p : Nat)
    (hp : p ≤ (dropBlock ops rule milu nrm dropTol quota alpha fillTol m n rows subs).1.m1) :
    (dropBlock ops rule milu nrm dropTol quota alpha fillTol m n rows subs).1.orig[p]! < m ∧
    (dropBlock ops rule milu nrm dropTol quota alpha fillTol m n rows subs).1.subs[p]!
      = subs[(dropBlock ops rule milu nrm dropTol quota alpha fillTol m n rows subs).1.orig[p]!]! ∧
    (n ≤ p → (dropBlock ops rule milu nrm dropTol quota alpha fillTol m n rows subs).2.2.1[p]!
      = rows[(dropBlock ops rule milu nrm dropTol quota alpha fillTol m n rows subs).1.orig[p]!]!) ∧
    (∀ q, q ≤ (dropBlock ops rule milu nrm dropTol quota alpha fillTol m n rows subs).1.m1 →
      (dropBlock ops rule milu nrm dropTol quota alpha fillTol m n rows subs).1.orig[q]!
        = (dropBlock ops rule milu nrm dropTol quota alpha fillTol m n rows subs).1.orig[p]! → q = p) ∧
    (∀ e ∈ (dropBlock ops rule milu nrm dropTol quota alpha fillTol m n rows subs).1.trace,
      e.1 ≠ (dropBlock ops rule milu nrm dropTol quota alpha fillTol m n rows subs).1.orig[p]!) := by
  have h := (dropBlock_inv ops rule milu nrm dropTol quota alpha fillTol m n rows subs hn hnm hr hs).1
  have hk := h.kept p hp
  have hc := h.cnt
  refine ⟨hk.2.2, hk.2.1, fun hnp => ?_, fun q hq heq => h.inj q p (by omega) (by omega) heq, fun e he heq => ?_⟩
  · rw [dropBlock_rows]
    split
    · exact hk.1
    · rw [diagFix_get ops milu alpha fillTol m n _ h.rsize hnm p]
      have : ¬ (milu ≠ Milu.silu ∧ p < n) := by omega
      rw [if_neg this]; exact hk.1
  · exact (trace_not_kept h e he).2 p hp heq.symm

/-- **C15 (drop_row: the thresholds).** There is a secondary threshold `tol` such that every dropped row was either
dropped by the first loop — then the norm recorded IS the norm of that row and it is `< drop_tol` (strictly) — or by
the second loop with the norm CONSULTED `<= tol`.  (The consulted norm `temp[i]` of a row that was moved by the second
loop is the norm of another row: `dropRow_secondary_uses_neighbour_norm` below.) -/
theorem dropRow_threshold (hn : 1 ≤ n) (hnm : n < m) (hr : rows.size = m) (hs : subs.size = m) :
    ∃ tol, ∀ e ∈ (dropBlock ops rule milu nrm dropTol quota alpha fillTol m n rows subs).1.trace,
      (e.2 = ops.rowNorm nrm rows[e.1]! ∧ ops.ltTol e.2 dropTol = true) ∨ ops.leTol e.2 tol = true :=
  (dropBlock_inv ops rule milu nrm dropTol quota alpha fillTol m n rows subs hn hnm hr hs).2

/-- **C15 (drop_row: first loop only).** Without a secondary rule bit nothing is dropped unless `DROP_BASIC` is set, and
every dropped row has its own norm strictly below `drop_tol`. -/
theorem dropRow_threshold_basic (hn : 1 ≤ n) (hnm : n < m) (hr : rows.size = m) (hs : subs.size = m) (hsec : rule.secondary = false) :
    (∀ e ∈ (dropBlock ops rule milu nrm dropTol quota alpha fillTol m n rows subs).1.trace,
      e.2 = ops.rowNorm nrm rows[e.1]! ∧ ops.ltTol e.2 dropTol = true) ∧
    (rule.basic = false → (dropBlock ops rule milu nrm dropTol quota alpha fillTol m n rows subs).1.r = 0) := by
  have h0 := inv_init ops milu m n hnm rows subs hr hs (Array.replicate m ops.zeroR) ops.zeroR ops.oneR
  obtain ⟨_, q1, r1⟩ := pass1_inv ops nrm milu rule.basic dropTol m n rows subs hn (m - n) n _ (Nat.le_refl _) h0 (by intro e he; simp at he)
  have hsec' : ∀ s : DSt K R, (secondary ops rule milu quota m n s).1 = s := by
    intro s; unfold secondary; simp [hsec]
  have hb : (dropBlock ops rule milu nrm dropTol quota alpha fillTol m n rows subs).1 =
      pass1 ops nrm milu rule.basic dropTol m (m - n) n
        { rows := rows, subs := subs, temp := Array.replicate m ops.zeroR, m1 := m - 1, r := 0, dmax := ops.zeroR, dmin := ops.oneR,
          orig := Array.range m } := by
    unfold dropBlock; dsimp only; split <;> exact hsec' _
  rw [hb]
  exact ⟨q1, r1⟩

/-- **C15 (drop_row: the MILU compensation).** Once a row has been dropped, row `m-1` of the block holds the
accumulated compensation `accOf` of the dropped rows in the order they were dropped (first one copied — through `fabs`
under SMILU_3 —, later ones added: signed under SMILU_1/2, moduli under SMILU_3; this is the exact order of the
floating-point additions), and the diagonal entry of column `j` becomes `diagComp milu alpha fill_tol (old diagonal)
(accumulator entry j)` unless that accumulator entry is zero or MILU is off. -/
theorem dropRow_milu_sum (hn : 1 ≤ n) (hnm : n < m) (hr : rows.size = m) (hs : subs.size = m)
    (hpos : 0 < (dropBlock ops rule milu nrm dropTol quota alpha fillTol m n rows subs).1.r) :
    (dropBlock ops rule milu nrm dropTol quota alpha fillTol m n rows subs).1.rows[m - 1]! =
      accOf ops milu ((dropBlock ops rule milu nrm dropTol quota alpha fillTol m n rows subs).1.trace.reverse.map fun e => rows[e.1]!) ∧
    ∀ j, j < n → j < (rows[j]!).size →
      ((dropBlock ops rule milu nrm dropTol quota alpha fillTol m n rows subs).2.2.1[j]!)[j]! =
        if milu = .silu ∨ ops.isZero (((dropBlock ops rule milu nrm dropTol quota alpha fillTol m n rows subs).1.rows[m - 1]!)[j]!) = true
        then (rows[j]!)[j]!
        else (ops.diagComp milu alpha fillTol ((rows[j]!)[j]!)
              (((dropBlock ops rule milu nrm dropTol quota alpha fillTol m n rows subs).1.rows[m - 1]!)[j]!)).1 := by
  have h := (dropBlock_inv ops rule milu nrm dropTol quota alpha fillTol m n rows subs hn hnm hr hs).1
  refine ⟨h.acc hpos, fun j hj hjs => ?_⟩
  have hle : j ≤ (dropBlock ops rule milu nrm dropTol quota alpha fillTol m n rows subs).1.m1 := by have := h.n_le; omega
  have hk := (h.kept j hle).1
  rw [h.diag j hj] at hk
  rw [dropBlock_rows, if_neg (by omega), diagFix_get ops milu alpha fillTol m n _ h.rsize hnm j]
  by_cases hm : milu = .silu
  · rw [if_neg (by simp [hm]), if_pos (Or.inl hm), hk]
  · simp only [hm, ne_eq, not_false_eq_true, hj, and_self, if_true, false_or]
    unfold fixedRow
    split
    · rw [hk]
    · rw [hk, get!_set_eq _ _ _ hjs]

end block

/-- the compensation of one column from the entries of the dropped rows in that column: the signed sum under SMILU_1
and SMILU_2, the sum of the moduli under SMILU_3 (`other` under SILU, where the row is not used) -/
def colComp (milu : Milu) (vals : List Rat) (other : Rat) : Rat :=
  match milu with
  | .smilu1 | .smilu2 => vals.sum
  | .smilu3 => (vals.map rabs).sum
  | .silu => other

/-- **C15 (drop_row: the MILU compensation in exact arithmetic).** Over `Rat`, with every row of the block of length
`n`: once a row has been dropped, entry `j` of the accumulator row `m-1` is the SIGNED sum of the entries `j` of the
dropped rows under SMILU_1 and SMILU_2, and the sum of their MODULI under SMILU_3 (dropped rows listed by the ghost
trace: original positions, all `< m`, none in the diagonal block, none kept). -/
theorem dropRow_milu_sum_rat (nrm2 : Array Rat → Rat) (rule : Rule) (milu : Milu) (nrm : Nrm) (dropTol : Rat) (quota : Int)
    (alpha fillTol : Rat) (m n : Nat) (rows : Array (Array Rat)) (subs : Array Int)
    (hn : 1 ≤ n) (hnm : n < m) (hr : rows.size = m) (hs : subs.size = m) (hrows : ∀ i, i < m → (rows[i]!).size = n)
    (hpos : 0 < (dropBlock (opsRat nrm2) rule milu nrm dropTol quota alpha fillTol m n rows subs).1.r) (j : Nat) (hj : j < n) :
    ((dropBlock (opsRat nrm2) rule milu nrm dropTol quota alpha fillTol m n rows subs).1.rows[m - 1]!)[j]! =
      colComp milu
        ((dropBlock (opsRat nrm2) rule milu nrm dropTol quota alpha fillTol m n rows subs).1.trace.reverse.map fun e => (rows[e.1]!)[j]!)
        (((dropBlock (opsRat nrm2) rule milu nrm dropTol quota alpha fillTol m n rows subs).1.rows[m - 1]!)[j]!) := by
  have h := (dropBlock_inv (opsRat nrm2) rule milu nrm dropTol quota alpha fillTol m n rows subs hn hnm hr hs).1
  have hpos' : 0 < (dropBlock (opsRat nrm2) rule milu nrm dropTol quota alpha fillTol m n rows subs).1.trace.length := by
    rw [h.tlen]; exact hpos
  have hacc := h.acc hpos
  clear hpos
  generalize (dropBlock (opsRat nrm2) rule milu nrm dropTol quota alpha fillTol m n rows subs).1 = s at h hpos' hacc ⊢
  have hsz : ∀ y ∈ (s.trace.reverse.map fun e => rows[e.1]!), y.size = n := by
    intro y hy
    obtain ⟨e, he, rfl⟩ := List.mem_map.mp hy
    exact hrows e.1 (trace_lt h e (List.mem_reverse.mp he))
  cases hl : (s.trace.reverse.map fun e => rows[e.1]!) with
  | nil =>
    have : (s.trace.reverse.map fun e => rows[e.1]!).length = s.trace.length := by simp
    rw [hl] at this; simp at this; omega
  | cons x xs =>
    rw [hl] at hsz
    have key := accOf_rat nrm2 milu n j hj x xs hsz
    have hmap1 : (s.trace.reverse.map fun e => (rows[e.1]!)[j]!) = (x :: xs).map fun y => y[j]! := by
      rw [← hl, List.map_map]; rfl
    unfold colComp
    cases milu
    · rfl
    · rw [hacc, hl, key, hmap1]
    · rw [hacc, hl, key, hmap1]
    · rw [hacc, hl, key, hmap1, List.map_map]; rfl

/-- **C15 (drop_row: what the compensation does to the diagonal, real files).** Over `Rat`, for `alpha ≤ 1` (every
`ILU_MILU_Dim > 0`) and a nonzero accumulated value `t`: in all three MILU modes the diagonal entry is multiplied by
`1 + min(|t|, 2(1 - alpha))` — the SIGN of the dropped sum is lost (`t * omega ≥ 0` for either sign of `t`) — and the
replacement branch `t == -1` of SMILU_1 (`nzp`, hook H2 phase 2) is never taken. -/
theorem diagComp_rat (nrm2 : Array Rat → Rat) (milu : Milu) (hm : milu ≠ .silu) (alpha fillTol d t : Rat) (ha : alpha ≤ 1) (ht : t ≠ 0) :
    (opsRat nrm2).diagComp milu alpha fillTol d t = (d * (1 + min |t| (2 * (1 - alpha))), false) := by
  have hc : 0 ≤ 2 * (1 - alpha) := by linarith
  have key : t * (if t > 0 then (if 2 * (1 - alpha) / t < 1 then 2 * (1 - alpha) / t else 1)
      else (if 2 * (1 - alpha) / t > -1 then 2 * (1 - alpha) / t else -1)) = min |t| (2 * (1 - alpha)) := by
    rcases lt_or_gt_of_ne ht with hneg | hpos
    · have h1 : ¬ t > 0 := by linarith
      rw [if_neg h1, abs_of_neg hneg]
      by_cases h2 : 2 * (1 - alpha) / t > -1
      · rw [if_pos h2, mul_div_cancel₀ _ ht]
        have : 2 * (1 - alpha) < -t := by
          have := (lt_div_iff_of_neg hneg).mp (show -1 < 2 * (1 - alpha) / t from h2)
          linarith
        rw [min_eq_right (le_of_lt this)]
      · rw [if_neg h2]
        have : -t ≤ 2 * (1 - alpha) := by
          by_contra hcon
          have hcon : 2 * (1 - alpha) < -t := not_le.mp hcon
          exact h2 ((lt_div_iff_of_neg hneg).mpr (by linarith))
        rw [min_eq_left this]; ring
    · rw [if_pos hpos, abs_of_pos hpos]
      by_cases h2 : 2 * (1 - alpha) / t < 1
      · rw [if_pos h2, mul_div_cancel₀ _ ht]
        have : 2 * (1 - alpha) < t := by rwa [div_lt_one hpos] at h2
        rw [min_eq_right (le_of_lt this)]
      · rw [if_neg h2]
        have : t ≤ 2 * (1 - alpha) := by
          by_contra hcon
          exact h2 ((div_lt_one hpos).mpr (not_le.mp hcon))
        rw [min_eq_left this]; ring
  have hnn : 0 ≤ min |t| (2 * (1 - alpha)) := le_min (abs_nonneg t) hc
  cases milu
  · exact absurd rfl hm
  · simp only [opsRat]
    rw [key]
    have : (min |t| (2 * (1 - alpha)) != -1) = true := by
      simp only [bne_iff_ne, ne_eq]; intro h; linarith
    simp [this]
  · simp only [opsRat]
    rw [key]
    have : rabs (min |t| (2 * (1 - alpha))) = min |t| (2 * (1 - alpha)) := by
      unfold rabs; rw [if_neg (by linarith)]
    rw [this]
  · simp only [opsRat]
    rw [key]

/-! ### a concrete supernode: rows dropped in both loops, and the defect of the second loop -/

/-- one column, six rows: the diagonal 4, then 1/4, 3, 1, 5, 2; subscripts 10..15 -/
def exRows : Array (Array Rat) := #[#[4], #[1/4], #[3], #[1], #[5], #[2]]
def exSubs : Array Int := #[10, 11, 12, 13, 14, 15]
def exRule : Rule := { nodrop := false, basic := true, secondary := true, interp := false }
/-- max-norm, `drop_tol = 1/2`, `quota = 3`, `alpha = 1/2`, `fill_tol = 1/100` -/
def exBlock (milu : Milu) := dropBlock (opsRat fun _ => 0) exRule milu .inf (1/2 : Rat) 3 (1/2 : Rat) (1/100 : Rat) 6 1 exRows exSubs

/-- the hypotheses of the `dropRow_*` theorems hold for it, and rows are dropped in BOTH loops: the first loop drops
original row 1 (norm 1/4 < 1/2), `qselect` then returns `tol = 2` (rank 2 of the norms 2, 3, 1, 5) and the second loop
drops two more rows; 3 rows are returned as dropped, positions 0..2 are kept; the accumulator row is 1/4 + 2 + 5 and
the diagonal becomes `4 * (1 + min(29/4, 2(1 - 1/2))) = 8` under SMILU_1. -/
example : (exBlock .smilu1).1.r = 3 ∧ (exBlock .smilu1).1.m1 = 2 ∧ (exBlock .smilu1).2.1.tol = some 2 ∧
    (exBlock .smilu1).2.1.usedSelect = true ∧
    (exBlock .smilu1).1.trace = [(4, 1), (5, 2), (1, 1/4)] ∧
    (exBlock .smilu1).1.rows[5]! = #[29/4] ∧ (exBlock .smilu1).2.2.1[0]! = #[8] ∧
    ((exBlock .smilu1).1.subs.extract 0 3) = #[10, 13, 12] := by
  decide +kernel

example := dropRow_count (opsRat fun _ => 0) exRule .smilu1 .inf (1/2 : Rat) 3 (1/2 : Rat) (1/100 : Rat) 6 1 exRows exSubs
  (by decide) (by decide) rfl rfl
example := dropRow_milu_sum (opsRat fun _ => 0) exRule .smilu1 .inf (1/2 : Rat) 3 (1/2 : Rat) (1/100 : Rat) 6 1 exRows exSubs
  (by decide) (by decide) rfl rfl (by decide +kernel)

example := dropRow_milu_sum_rat (fun _ => 0) exRule .smilu1 .inf (1/2 : Rat) 3 (1/2 : Rat) (1/100 : Rat) 6 1 exRows exSubs
  (by decide) (by decide) rfl rfl (by decide) (by decide +kernel) 0 (by decide)
example := diagComp_rat (fun _ => 0) .smilu1 (by decide) (1/2) (1/100) 4 (29/4) (by decide +kernel) (by decide +kernel)

/-- **C15 (a defect of `ilu_?drop_row`, reproduced on the C code by findings/D15_drop_row_neighbour_norm.c).**
The second loop stores, for the row it moves from position `m1` to position `i`, the norm `temp[m1-1]` (the index is
taken AFTER `m1--`, ilu_ddrop_row.c:257-259) instead of `temp[m1]`.  On the block above the secondary threshold is 2;
the routine drops original row 4, whose norm is 5 > 2, because the norm it consulted was 1 (the norm of original row 3),
and it keeps original row 3 (norm 1 ≤ 2) at position 1.  So "every row dropped by the second loop has norm <= tol"
is FALSE of the code; what is true is `dropRow_threshold` (the norm CONSULTED is <= tol). -/
theorem dropRow_secondary_uses_neighbour_norm :
    (exBlock .silu).2.1.tol = some 2 ∧
    ((4, 1) ∈ (exBlock .silu).1.trace) ∧ (opsRat fun _ => 0).rowNorm .inf exRows[4]! = 5 ∧
    (exBlock .silu).1.orig[1]! = 3 ∧ 1 ≤ (exBlock .silu).1.m1 ∧ (opsRat fun _ => 0).rowNorm .inf exRows[3]! = 1 := by
  decide +kernel

end Slu.IluDrop

/-! ## The modelled rule as an instance of the drop oracle of `iluFactor` -/
namespace Slu.Ilu
open Slu.IluDrop Slu.LU

/-- what the caller `[sd]gsitrf` decides, and the model of the factorization as a whole does not contain (supernode
partition, symbolic structure, quota formula, dynamic tolerance): after column `j`, drop rows of the supernode
`first..last` (`last ≤ j`) whose rows below the diagonal block are `below` (storage order), with these arguments -/
structure DropCall where
  first : Nat
  last : Nat
  below : List Nat
  rule : Rule
  nrm : Nrm
  dropTol : Rat
  quota : Int
  alpha : Rat
  fillTol : Rat

/-- the supernode `first..last` of the specification-level state, as the `m x n` block `ilu_?drop_row` works on: the
rows of the diagonal block are the pivot rows (strict lower part: L, diagonal and above: U, as SuperLU stores a
supernode), then the rows `below` with their L entries -/
def blockOf (st : IluSt Rat) (c : DropCall) : Array (Array Rat) × Array Int :=
  let n := c.last + 1 - c.first
  let diagRows := (List.range n).map fun k => st.piv.getD (c.first + k) 0
  let lrow (i : Nat) : Array Rat := (Array.range n).map fun t => (st.L.getD (c.first + t) #[]).get i
  let drow (k : Nat) : Array Rat := (Array.range n).map fun t =>
    if t < k then (st.L.getD (c.first + t) #[]).get (st.piv.getD (c.first + k) 0) else (st.U.getD (c.first + t) #[]).getD (c.first + k) 0
  (((List.range n).map drow ++ c.below.map lrow).toArray, (List.map Int.ofNat (diagRows ++ c.below)).toArray)

/-- `ilu_?drop_row` (the model `dropBlock`, exact arithmetic) as a `DropOracle`: the L entries it zeroes are the entries
of the dropped rows in the columns of the supernode, the diagonal factors are its MILU compensation
(`diagComp .. 1 t = 1 + t*omega`); U entries are not touched by this routine -/
def dropRowOracle (nrm2 : Array Rat → Rat) (milu : Milu) (call : IluSt Rat → Nat → Option DropCall) : DropOracle Rat :=
  { dropU := fun _ _ _ _ _ => false
    dropL := fun st j t i =>
      match call st j with
      | none => false
      | some c =>
        let b := blockOf st c
        let o := dropBlock (opsRat nrm2) c.rule milu c.nrm c.dropTol c.quota c.alpha c.fillTol b.1.size (c.last + 1 - c.first) b.1 b.2
        decide (c.first ≤ t ∧ t ≤ c.last) && (o.1.trace.map fun e => b.2[e.1]!).contains (i : Int)
    diagMul := fun st j k =>
      match call st j with
      | none => 1
      | some c =>
        let b := blockOf st c
        let o := dropBlock (opsRat nrm2) c.rule milu c.nrm c.dropTol c.quota c.alpha c.fillTol b.1.size (c.last + 1 - c.first) b.1 b.2
        if c.first ≤ k ∧ k ≤ c.last ∧ o.1.r ≠ 0 ∧ milu ≠ .silu then
          let t := (o.1.rows[b.1.size - 1]!)[k - c.first]!
          if t = 0 then 1 else ((opsRat nrm2).diagComp milu c.alpha c.fillTol 1 t).1
        else 1 }

/-- **C15 (the whole-factorization identity for the MODELLED row-dropping rule).** `iluFactor_identity_with_error`
instantiated with `dropRowOracle`: whatever supernodes, structures, quotas and tolerances the caller passes
(`call`), with the rows chosen by the model of `ilu_?drop_row` (norms, both loops, qselect / interpolation, the
neighbour-norm behaviour included) and its diagonal compensation, `L̃·Ũ = Pr·A·Pc + E` entrywise. -/
theorem iluFactor_identity_dropRow (F : Flavour Rat Rat) (P : IluParams Rat Rat) (nrm2 : Array Rat → Rat)
    (call : IluSt Rat → Nat → Option DropCall) (hcol : ∀ j, (P.col j).size = P.m) (b : Bool)
    (h : (iluFactor F P (dropRowOracle nrm2 P.milu call) b).fail = 0) (j : Nat) (hj : j < P.n) (i : Nat) (hi : i < P.m) :
    ((List.range (j + 1)).map fun k =>
        ((iluFactor F P (dropRowOracle nrm2 P.milu call) b).U.getD j #[]).getD k 0 *
          ((iluFactor F P (dropRowOracle nrm2 P.milu call) b).L.getD k #[]).get i).sum =
      (P.col j).get i + ((iluFactor F P (dropRowOracle nrm2 P.milu call) b).E.getD j #[]).get i :=
  iluFactor_identity_with_error magLaws_rat F P (dropRowOracle nrm2 P.milu call) hcol b h j hj i hi

/-- the rows the oracle drops are rows BELOW the diagonal block of the supernode, and every one of them met the test of
the loop that dropped it (`dropRow_diag_block_kept`, `dropRow_threshold` applied to the block of the state) -/
theorem dropRowOracle_rows (nrm2 : Array Rat → Rat) (milu : Milu) (c : DropCall) (st : IluSt Rat)
    (hn : c.first ≤ c.last) (hb : c.below ≠ []) :
    let b := blockOf st c
    let o := dropBlock (opsRat nrm2) c.rule milu c.nrm c.dropTol c.quota c.alpha c.fillTol b.1.size (c.last + 1 - c.first) b.1 b.2
    (∀ e ∈ o.1.trace, c.last + 1 - c.first ≤ e.1) ∧
    ∃ tol, ∀ e ∈ o.1.trace, (e.2 = (opsRat nrm2).rowNorm c.nrm b.1[e.1]! ∧ e.2 < c.dropTol) ∨ e.2 ≤ tol := by
  intro b o
  have hsz : b.1.size = (c.last + 1 - c.first) + c.below.length := by simp [b, blockOf]
  have hsz2 : b.2.size = b.1.size := by
    rw [hsz]; simp only [b, blockOf, List.size_toArray, List.length_map, List.length_append, List.length_range]
  have hlen : 0 < c.below.length := List.length_pos_of_ne_nil hb
  have hinv := dropBlock_inv (opsRat nrm2) c.rule milu c.nrm c.dropTol c.quota c.alpha c.fillTol b.1.size (c.last + 1 - c.first) b.1 b.2
    (by omega) (by omega) rfl hsz2
  refine ⟨fun e he => (trace_not_kept hinv.1 e he).1, ?_⟩
  obtain ⟨tol, ht⟩ := hinv.2
  refine ⟨tol, fun e he => ?_⟩
  rcases ht e he with h | h
  · exact Or.inl ⟨h.1, by simpa [opsRat] using h.2⟩
  · exact Or.inr (by simpa [opsRat] using h)

end Slu.Ilu

/-! ## `[sd]qselect` (Slu/Model/QSelect.lean) -/
namespace Slu.QSelect

/-- **C15 (qselect terminates).** For every `<` that is asymmetric — IEEE `<` on `double`/`float` with NaN (every
comparison with NaN false), and `Rat` — every array, every `1 ≤ n ≤ A.size` and every `k` (any integer: it is clamped),
the model of `[sd]qselect` (the routine as it is since the `fix:` commit fba5c82) returns: the explicit fuel `n + 1` of
the outer loop and `n` of the partition loop is never exhausted. -/
theorem qselect_terminates {R : Type} [Inhabited R] [LT R] [DecidableLT R] (hasym : ∀ a b : R, a < b → ¬ b < a)
    (A : Array R) (n : Nat) (k : Int) (hn : 1 ≤ n) (hA : n ≤ A.size) : (qselect n A k).isSome = true := by
  obtain ⟨v, A', e, _⟩ := qsel_some hasym (n + 1) A 0 n (clampK n k) hn (by omega) (by omega) (clampK_lt n k hn)
  unfold qselect; rw [e]; rfl

/-- **C15 (qselect permutes).** The array afterwards is a permutation of the array before (ties, NaN included), and
nothing at or beyond index `n` is touched. -/
theorem qselect_perm {R : Type} [Inhabited R] [LT R] [DecidableLT R] (hasym : ∀ a b : R, a < b → ¬ b < a)
    (A : Array R) (n : Nat) (k : Int) (hn : 1 ≤ n) (hA : n ≤ A.size) (v : R) (A' : Array R)
    (h : qselect n A k = some (v, A')) : A'.toList.Perm A.toList ∧ ∀ y, n ≤ y → A'[y]! = A[y]! := by
  obtain ⟨v', A'', e, e2, e3⟩ := qsel_some hasym (n + 1) A 0 n (clampK n k) hn (by omega) (by omega) (clampK_lt n k hn)
  unfold qselect at h; rw [e] at h
  have : A'' = A' := by injection h with h; exact (Prod.mk.inj h).2
  subst this
  exact ⟨Array.perm_iff_toList_perm.mp e2, fun y hy => e3 y (Or.inr (by omega))⟩

theorem clampK_of_lt (n k : Nat) (hk : k < n) : clampK n (k : Int) = k := by unfold clampK; omega

/-- **C15 (qselect returns the element of rank k).** Over `Rat` (every finite `double`/`float` is one), for every array
of size `n ≥ 1`, ties allowed, and every `k < n`: the value returned is entry `k` of the array sorted in DESCENDING
order (`List.mergeSort` with `≥`), i.e. the k-th largest, zero-based; it is stored at position `k` of the permuted
array. -/
theorem qselect_spec (A : Array Rat) (n k : Nat) (hn : 1 ≤ n) (hA : n = A.size) (hk : k < n) (v : Rat) (A' : Array Rat)
    (h : qselect n A (k : Int) = some (v, A')) :
    (A.toList.mergeSort (fun a b => decide (b ≤ a)))[k]? = some v ∧ A'[k]! = v := by
  have s0 : Split A 0 := fun a b ha => by omega
  have sn : Split A (0 + n) := fun a b _ hb hbs => by omega
  obtain ⟨v', A'', e, e2, e3, e4, e5⟩ := qsel_spec (n + 1) A 0 n k hn (by omega) (by omega) hk s0 sn
  unfold qselect at h; rw [clampK_of_lt n k hk, e] at h
  have hv : v' = v := by injection h with h; exact (Prod.mk.inj h).1
  have hA' : A'' = A' := by injection h with h; exact (Prod.mk.inj h).2
  subst hv; subst hA'
  simp only [Nat.zero_add] at e3 e4 e5
  have hsz : A''.size = A.size := e2.size_eq
  have hg : ∀ a (h : a < A''.toList.length), A''.toList[a] = A''[a]! := by
    intro a h
    have h' : a < A''.size := by simpa using h
    rw [Array.getElem_toList, getElem!_pos A'' a h']
  refine ⟨?_, e3.symm⟩
  apply rank_of_split A''.toList _ ((List.mergeSort_perm _ _).trans (Array.perm_iff_toList_perm.mp e2).symm) ?_ k
    (by simp; omega) v' (by rw [hg]; exact e3.symm)
  · intro a h hak
    rw [hg, e3]; exact e4 a k hak (Nat.le_refl _) (by omega)
  · intro c h hkc
    rw [hg, e3]; exact e5 k c (by omega) (by omega) (by simpa using h)
  · have := List.pairwise_mergeSort (le := fun a b : Rat => decide (b ≤ a))
      (fun a b c h1 h2 => by simp only [decide_eq_true_eq] at *; exact le_trans h2 h1)
      (fun a b => by simp only [Bool.or_eq_true, decide_eq_true_eq]; exact le_total b a) A.toList
    exact this.imp (fun h => by simpa using h)

example : qselect 6 (#[2, 7, 2, 9, 7, 1] : Array Rat) 2 = some (7, #[9, 7, 7, 2, 2, 1]) := by decide +kernel
example := qselect_spec #[2, 7, 2, 9, 7, 1] 6 2 (by decide) rfl (by decide) 7 #[9, 7, 7, 2, 2, 1] (by decide +kernel)

/-- the hypotheses are satisfiable: the IEEE-like order where one element is unordered with everything -/
example : (qselect 7 (#[3, 1, 4, 1, 5, 9, 2] : Array Int) 2) = some (4, #[9, 5, 4, 3, 2, 1, 1]) := by decide +kernel
example := qselect_terminates (R := Int) (fun a b h => by omega) #[3, 1, 4, 1, 5, 9, 2] 7 (-3) (by decide) (by decide)

end Slu.QSelect


/-! ## The dropping of U entries: `ilu_[sdcz]copy_to_ucol` (Slu/Model/IluDropU.lean) -/
namespace Slu.IluDropU
open Slu Slu.Ilu Slu.IluDrop Slu.QSelect

section generic
variable {K R T : Type} [Inhabited K] [Inhabited R] [LT R] [DecidableLT R] (ops : UOps K R T) (inp : UIn K R T)

/-- **C15 (copy_to_ucol: nothing is invented, nothing is lost).** For every scalar instance and every call whose
`ucol/usub` can hold the listed rows ("capacity suffices": the memory growth of l.110-121 is not modelled): the
`(usub, ucol)` pairs stored for column `jcol`, the pairs removed by the second sweep and the pairs dropped by the first
loop are TOGETHER a permutation of the column's `(perm_r[row], dense[row])` pairs — the stored entries are a sub-multiset
of the column with values unchanged, and every entry of the column is accounted for exactly once. -/
theorem dropU_kept_subset (hU : (inp.xusub[inp.jcol]!).toNat + (rowsOf inp).length ≤ inp.ucol.size)
    (hS : (inp.xusub[inp.jcol]!).toNat + (rowsOf inp).length ≤ inp.usub.size) :
    (stored inp (copyToUcol ops inp) ++ (copyToUcol ops inp).s2.removed ++
      (copyToUcol ops inp).s1.dropped.map (fun e => (inp.permR[e.1]!, e.2))).Perm (colPairs ops inp) := by
  rw [stored_eq ops inp hU hS]
  obtain ⟨ks, hP, hk, -, -, hS2, -⟩ := dropCore_inv ops inp.milu inp.permR inp.rule inp.dropTol inp.quota inp.n
    inp.dense inp.work (rowsOf inp)
  have h0 : (ks.reverse.map (fun e : Nat × K => (inp.permR[e.1]!, e.2))).Perm (ks.map (fun e : Nat × K => (inp.permR[e.1]!, e.2))) :=
    (List.reverse_perm ks).map _
  have h1 := hS2.trans (hk ▸ h0)
  have h2 := hP.map (fun e : Nat × K => (inp.permR[e.1]!, e.2))
  rw [List.map_append] at h2
  exact (h1.append_right _).trans h2

/-- **C15 (copy_to_ucol: counts).** `*nnzUj` grows by the number of entries stored; stored + removed by the second
sweep + dropped by the first loop = number of listed rows; `xusub[jcol+1] = xusub[jcol] + stored`. -/
theorem dropU_count :
    (copyToUcol ops inp).nnzUj = inp.nnzUj + (stored inp (copyToUcol ops inp)).length ∧
    (stored inp (copyToUcol ops inp)).length + (copyToUcol ops inp).s2.removed.length + (copyToUcol ops inp).s1.dropped.length
      = (rowsOf inp).length ∧
    (inp.jcol + 1 < inp.xusub.size → 0 ≤ inp.xusub[inp.jcol]! →
      (copyToUcol ops inp).xusub[inp.jcol + 1]! = inp.xusub[inp.jcol]! + (stored inp (copyToUcol ops inp)).length) := by
  obtain ⟨ks, hP, hk, -, -, -, -, -, -, hsz, hcnt, -⟩ := dropCore_inv ops inp.milu inp.permR inp.rule inp.dropTol inp.quota inp.n
    inp.dense inp.work (rowsOf inp)
  have hl : (stored inp (copyToUcol ops inp)).length = (copyToUcol ops inp).cnt := by simp [stored]
  have hks : (dropCore ops inp.rule inp.milu inp.dropTol inp.quota inp.n inp.permR inp.dense inp.work (rowsOf inp)).1.kept.size = ks.length := by
    rw [← Array.length_toList, hk]; simp
  have hv := hP.length_eq
  rw [visits_length, List.length_append] at hv
  refine ⟨by rw [hl]; rfl, ?_, fun h1 h2 => ?_⟩
  · rw [hl]
    show (dropCore ops inp.rule inp.milu inp.dropTol inp.quota inp.n inp.permR inp.dense inp.work (rowsOf inp)).2.1.cnt +
      (dropCore ops inp.rule inp.milu inp.dropTol inp.quota inp.n inp.permR inp.dense inp.work (rowsOf inp)).2.1.removed.length +
      (dropCore ops inp.rule inp.milu inp.dropTol inp.quota inp.n inp.permR inp.dense inp.work (rowsOf inp)).1.dropped.length = _
    omega
  · rw [hl]
    show (inp.xusub.setIfInBounds (inp.jcol + 1) _)[inp.jcol + 1]! = _
    rw [get!_set, if_pos ⟨rfl, h1⟩]
    show (((inp.xusub[inp.jcol]!).toNat + (copyToUcol ops inp).cnt : Nat) : Int) = _
    rw [Int.natCast_add, Int.toNat_of_nonneg h2]

/-- **C15 (copy_to_ucol: the thresholds).** With the effective arguments of l.91-93 (`NODROP`: `drop_tol = -1`,
`quota = Glu->n`): every entry dropped by the first loop FAILED `quota > 0 && |u| >= drop_tol`; every entry removed by the
second sweep has `|u| <= tol` for the threshold `tol` of the second rule (which then ran); every entry stored on exit PASSED
the first test and, if the second rule ran, has `|u| > tol` (fails `<=`).  Unlike `ilu_?drop_row` there is no index slip:
the entry moved into a hole is re-examined with its own modulus. -/
theorem dropU_threshold (hU : (inp.xusub[inp.jcol]!).toNat + (rowsOf inp).length ≤ inp.ucol.size)
    (hS : (inp.xusub[inp.jcol]!).toNat + (rowsOf inp).length ≤ inp.usub.size) :
    (∀ e ∈ (copyToUcol ops inp).s1.dropped,
      keepC ops (effTol ops inp.rule inp.dropTol) (effQuota inp.rule inp.quota inp.n) e.2 = false) ∧
    (∀ e ∈ (copyToUcol ops inp).s2.removed, ∃ tol, (copyToUcol ops inp).tol = some tol ∧ ops.base.leTol (ops.abs1 e.2) tol = true) ∧
    (∀ e ∈ stored inp (copyToUcol ops inp),
      keepC ops (effTol ops inp.rule inp.dropTol) (effQuota inp.rule inp.quota inp.n) e.2 = true ∧
      ∀ tol, (copyToUcol ops inp).tol = some tol → ops.base.leTol (ops.abs1 e.2) tol = false) := by
  obtain ⟨ks, hP, hk, hks, hds, hS2, hrm, hkept, -, hsz, hcnt, -⟩ := dropCore_inv ops inp.milu inp.permR inp.rule inp.dropTol
    inp.quota inp.n inp.dense inp.work (rowsOf inp)
  refine ⟨hds, hrm, fun e he => ?_⟩
  rw [stored_eq ops inp hU hS] at he
  constructor
  · have hm : e ∈ (dropCore ops inp.rule inp.milu inp.dropTol inp.quota inp.n inp.permR inp.dense inp.work (rowsOf inp)).1.kept.toList :=
      hS2.subset (List.mem_append_left _ he)
    rw [hk] at hm
    obtain ⟨x, hx, rfl⟩ := List.mem_map.mp hm
    exact hks x (List.mem_reverse.mp hx)
  · intro tol ht
    rw [← range_map_get_eq_take _ _ (by
      show (dropCore ops inp.rule inp.milu inp.dropTol inp.quota inp.n inp.permR inp.dense inp.work (rowsOf inp)).2.1.cnt ≤
        (dropCore ops inp.rule inp.milu inp.dropTol inp.quota inp.n inp.permR inp.dense inp.work (rowsOf inp)).2.1.a.size
      omega)] at he
    obtain ⟨i, hi, rfl⟩ := List.mem_map.mp he
    exact hkept tol ht i (List.mem_range.mp hi)

/-- **C15 (copy_to_ucol: the SPA is cleaned).** On exit `dense` is zero on every listed row and unchanged elsewhere. -/
theorem dropU_dense_zeroed (r : Nat) :
    (copyToUcol ops inp).dense[r]! = if r ∈ rowsOf inp ∧ r < inp.dense.size then ops.zeroK else inp.dense[r]! := by
  obtain ⟨ks, -, -, -, -, -, -, -, -, -, -, hd⟩ := dropCore_inv ops inp.milu inp.permR inp.rule inp.dropTol
    inp.quota inp.n inp.dense inp.work (rowsOf inp)
  show (dropCore ops inp.rule inp.milu inp.dropTol inp.quota inp.n inp.permR inp.dense inp.work (rowsOf inp)).1.dense[r]! = _
  rw [hd]
  exact (zeroed_get ops.zeroK (rowsOf inp) inp.dense r).2

end generic

/-- **C15 (copy_to_ucol: `*sum` in exact arithmetic, real files).** Over `Rat`, with `vals` the values dropped by the
first loop and removed by the second sweep: `*sum` on exit is `0` under SILU, the signed sum under SMILU_1, its modulus
under SMILU_2 and the sum of the moduli under SMILU_3 — `rawSum` of `Slu.Model.IluFactor`.  (In the COMPLEX files the
second sweep adds a stale modulus under SMILU_3, ilu_zcopy_to_ucol.c:204; there the statement is false of the code and is
not claimed.) -/
theorem dropU_milu_sum_rat (nrm2 : Array Rat → Rat) (d0 : Rat) (inp : UIn Rat Rat Rat) :
    (copyToUcol (uopsRat nrm2 d0) inp).sum =
      match inp.milu with
      | .silu => 0
      | .smilu1 => ((copyToUcol (uopsRat nrm2 d0) inp).s1.dropped.map (·.2) ++ (copyToUcol (uopsRat nrm2 d0) inp).s2.removed.map (·.2)).sum
      | .smilu2 => |((copyToUcol (uopsRat nrm2 d0) inp).s1.dropped.map (·.2) ++ (copyToUcol (uopsRat nrm2 d0) inp).s2.removed.map (·.2)).sum|
      | .smilu3 => (((copyToUcol (uopsRat nrm2 d0) inp).s1.dropped.map (·.2) ++ (copyToUcol (uopsRat nrm2 d0) inp).s2.removed.map (·.2)).map
                      (fun x => |x|)).sum := by
  obtain ⟨ks, -, -, -, -, -, -, -, hsum, -, -, -⟩ := dropCore_inv (uopsRat nrm2 d0) inp.milu inp.permR inp.rule inp.dropTol
    inp.quota inp.n inp.dense inp.work (rowsOf inp)
  have hs : (copyToUcol (uopsRat nrm2 d0) inp).sum = finSum (uopsRat nrm2 d0) inp.milu
      (dropCore (uopsRat nrm2 d0) inp.rule inp.milu inp.dropTol inp.quota inp.n inp.permR inp.dense inp.work (rowsOf inp)).2.1.sum := rfl
  have hd : (copyToUcol (uopsRat nrm2 d0) inp).s1.dropped =
      (dropCore (uopsRat nrm2 d0) inp.rule inp.milu inp.dropTol inp.quota inp.n inp.permR inp.dense inp.work (rowsOf inp)).1.dropped := rfl
  have hr : (copyToUcol (uopsRat nrm2 d0) inp).s2.removed =
      (dropCore (uopsRat nrm2 d0) inp.rule inp.milu inp.dropTol inp.quota inp.n inp.permR inp.dense inp.work (rowsOf inp)).2.1.removed := rfl
  rw [hs, hd, hr, hsum]
  simp only [acc1_rat, acc2_rat]
  rw [foldl_add_sum (fun e : Int × Rat => miluTerm inp.milu e.2), foldl_add_sum (fun e : Nat × Rat => miluTerm inp.milu e.2)]
  rw [List.map_reverse, List.map_reverse, List.sum_reverse, List.sum_reverse]
  generalize (dropCore (uopsRat nrm2 d0) inp.rule inp.milu inp.dropTol inp.quota inp.n inp.permR inp.dense inp.work (rowsOf inp)).1.dropped = ds
  generalize (dropCore (uopsRat nrm2 d0) inp.rule inp.milu inp.dropTol inp.quota inp.n inp.permR inp.dense inp.work (rowsOf inp)).2.1.removed = rm
  have hz : (uopsRat nrm2 d0).zeroK = 0 := rfl
  rw [hz]
  cases inp.milu
  · simp [finSum, miluTerm]
  · simp [finSum, miluTerm]
  · simp [finSum, miluTerm, uopsRat]
  · simp [finSum, miluTerm, uopsRat, Function.comp_def]

/-! ### a concrete call: entries dropped by both rules -/

/-- supernodes {0,1,2}, {3}; column 4; segments with representatives 2 (rows 2,0,1 from column 0) and 3 (row 3); visited in
the order 3, 2, 0, 1; values 5, 1, 1/4, 3; `drop_tol = 1/2`, `quota = 2`, SMILU_1, DROP_BASIC | DROP_COLUMN -/
def exU : UIn Rat Rat Rat :=
  { jcol := 4, nseg := 2, segrep := #[2, 3], repfnz := #[-1, -1, 0, 3, -1], permR := #[1, 2, 0, 3, 4],
    dense := #[1/4, 3, 1, 5, 9], rule := { nodrop := false, basic := true, secondary := true, interp := false },
    milu := .smilu1, dropTol := 1/2, quota := 2, nnzUj := 10, n := 5, xsup := #[0, 3, 4, 5], supno := #[0, 0, 0, 1, 2],
    lsub := #[2, 0, 1, 3], xlsub := #[0, 0, 0, 3, 4], ucol := #[7, 0, 0, 0, 0], usub := #[7, 0, 0, 0, 0],
    xusub := #[0, 0, 0, 1, 1, 0], work := #[0, 0, 0, 0, 0] }

/-- the first loop drops 1/4 (< 1/2), `qselect` returns `tol = 1` (rank 2 of 5, 1, 3), the second sweep removes the entry 1
and moves the last entry into its place; two entries are stored, `*sum = 1/4 + 1` -/
example : rowsOf exU = [3, 2, 0, 1] ∧
    stored exU (copyToUcol (uopsRat (fun _ => 0) 1000) exU) = [(3, 5), (2, 3)] ∧
    (copyToUcol (uopsRat (fun _ => 0) 1000) exU).tol = some 1 ∧
    (copyToUcol (uopsRat (fun _ => 0) 1000) exU).s1.dropped = [(0, 1/4)] ∧
    (copyToUcol (uopsRat (fun _ => 0) 1000) exU).s2.removed = [(0, 1)] ∧
    (copyToUcol (uopsRat (fun _ => 0) 1000) exU).sum = 5/4 ∧
    (copyToUcol (uopsRat (fun _ => 0) 1000) exU).nnzUj = 12 ∧
    (copyToUcol (uopsRat (fun _ => 0) 1000) exU).xusub = #[0, 0, 0, 1, 1, 3] ∧
    (copyToUcol (uopsRat (fun _ => 0) 1000) exU).dense = #[0, 0, 0, 0, 9] := by
  decide +kernel

example := dropU_kept_subset (uopsRat (fun _ => 0) 1000) exU (by decide +kernel) (by decide +kernel)
example := dropU_threshold (uopsRat (fun _ => 0) 1000) exU (by decide +kernel) (by decide +kernel)
example := (dropU_count (uopsRat (fun _ => 0) 1000) exU).2.2 (by decide +kernel) (by decide +kernel)
example := dropU_dense_zeroed (uopsRat (fun _ => 0) 1000) exU 2
example := dropU_milu_sum_rat (fun _ => 0) 1000 exU

end Slu.IluDropU


/-! ## Both modelled rules as the drop oracle of `iluFactor` -/
namespace Slu.Ilu
open Slu.IluDrop Slu.IluDropU Slu.LU

/-- what `[sd]gsitrf` decides for the U-dropping of column `j` and the specification-level model does not contain: the
order in which the U-segments list the multipliers (positions `t` of `us`, i.e. pivot indices), the rule bits, the
tolerance (after DROP_DYNAMIC updates), the quota (a floating-point formula of the caller) and `Glu->n` -/
structure UCall where
  order : List Nat
  rule : Rule
  dropTol : Rat
  quota : Int
  n : Nat

/-- the model of `ilu_?copy_to_ucol` (exact arithmetic) run on the multipliers `us` of a column: `dense` = `us` indexed by
position, `perm_r` = identity on positions -/
def ucore (d0 : Rat) (milu : Milu) (c : UCall) (us : List Rat) :=
  dropCore (uopsRat (fun _ => 0) d0) c.rule milu c.dropTol c.quota c.n ((Array.range us.length).map Int.ofNat) us.toArray
    (Array.replicate c.n 0) c.order

/-- position `t` is dropped: it is listed and is not among the `usub` entries stored on exit -/
def dropUFn (d0 : Rat) (milu : Milu) (callU : IluSt Rat → Nat → Vec Rat → List Rat → Option UCall) :
    IluSt Rat → Nat → Vec Rat → List Rat → Nat → Bool :=
  fun st j w us t =>
    match callU st j w us with
    | none => false
    | some c =>
      decide (t ∈ c.order) &&
        !(((ucore d0 milu c us).2.1.a.toList.take (ucore d0 milu c us).2.1.cnt).map (·.1)).contains (t : Int)

/-- BOTH rules as modelled: U entries by `Slu.IluDropU` (both rules of `ilu_?copy_to_ucol`), L rows and the diagonal
compensation by `Slu.IluDrop` (`dropRowOracle`) -/
def dropBothOracle (nrm2 : Array Rat → Rat) (d0 : Rat) (milu : Milu) (callL : IluSt Rat → Nat → Option DropCall)
    (callU : IluSt Rat → Nat → Vec Rat → List Rat → Option UCall) : DropOracle Rat :=
  { dropU := dropUFn d0 milu callU
    dropL := (dropRowOracle nrm2 milu callL).dropL
    diagMul := (dropRowOracle nrm2 milu callL).diagMul }

/-- **C15 (the whole-factorization identity with BOTH modelled dropping rules).** `iluFactor_identity_with_error`
instantiated with `dropBothOracle`: whatever segments, quotas, tolerances and supernodes the caller passes (`callU`,
`callL`), with the U entries chosen by the model of `ilu_?copy_to_ucol` (threshold test, `qselect` / interpolation, the
second sweep) AND the L rows chosen by the model of `ilu_?drop_row` with its diagonal compensation,
`L̃·Ũ = Pr·A·Pc + E` entrywise. -/
theorem iluFactor_identity_dropU (F : Flavour Rat Rat) (P : IluParams Rat Rat) (nrm2 : Array Rat → Rat) (d0 : Rat)
    (callL : IluSt Rat → Nat → Option DropCall) (callU : IluSt Rat → Nat → Vec Rat → List Rat → Option UCall)
    (hcol : ∀ j, (P.col j).size = P.m) (b : Bool)
    (h : (iluFactor F P (dropBothOracle nrm2 d0 P.milu callL callU) b).fail = 0) (j : Nat) (hj : j < P.n) (i : Nat) (hi : i < P.m) :
    ((List.range (j + 1)).map fun k =>
        ((iluFactor F P (dropBothOracle nrm2 d0 P.milu callL callU) b).U.getD j #[]).getD k 0 *
          ((iluFactor F P (dropBothOracle nrm2 d0 P.milu callL callU) b).L.getD k #[]).get i).sum =
      (P.col j).get i + ((iluFactor F P (dropBothOracle nrm2 d0 P.milu callL callU) b).E.getD j #[]).get i :=
  iluFactor_identity_with_error magLaws_rat F P (dropBothOracle nrm2 d0 P.milu callL callU) hcol b h j hj i hi

theorem idPerm_get (n t : Nat) (h : t < n) : ((Array.range n).map Int.ofNat)[t]! = (t : Int) := by
  rw [getElem!_pos _ t (by simpa using h)]; simp

/-- **C15 (what the U side of `dropBothOracle` drops).** For a call whose segment order lists distinct positions of `us`:
a listed position that the oracle DROPS either failed the first test `quota > 0 && |u| >= drop_tol` (effective arguments
of l.91-93) or the second rule ran with a threshold `tol` and `|u| <= tol`; a listed position it KEEPS passed the first
test (`dropU_threshold` / `dropU_kept_subset` applied to the multipliers of the column). -/
theorem dropUOracle_entries (d0 : Rat) (milu : Milu) (c : UCall) (us : List Rat)
    (hnd : c.order.Nodup) (hlt : ∀ t ∈ c.order, t < us.length) (t : Nat) (ht : t ∈ c.order) :
    ((((ucore d0 milu c us).2.1.a.toList.take (ucore d0 milu c us).2.1.cnt).map (·.1)).contains (t : Int) = false →
      keepC (uopsRat (fun _ => 0) d0) (effTol (uopsRat (fun _ => 0) d0) c.rule c.dropTol) (effQuota c.rule c.quota c.n)
        (us.toArray[t]!) = false ∨
      ∃ tol, (ucore d0 milu c us).2.2.1 = some tol ∧ |us.toArray[t]!| ≤ tol) ∧
    ((((ucore d0 milu c us).2.1.a.toList.take (ucore d0 milu c us).2.1.cnt).map (·.1)).contains (t : Int) = true →
      keepC (uopsRat (fun _ => 0) d0) (effTol (uopsRat (fun _ => 0) d0) c.rule c.dropTol) (effQuota c.rule c.quota c.n)
        (us.toArray[t]!) = true) := by
  have hinv := dropCore_inv (uopsRat (fun _ => 0) d0) milu ((Array.range us.length).map Int.ofNat)
    c.rule c.dropTol c.quota c.n us.toArray (Array.replicate c.n 0) c.order
  unfold ucore
  dsimp only at hinv
  generalize dropCore (uopsRat (fun _ => 0) d0) c.rule milu c.dropTol c.quota c.n ((Array.range us.length).map Int.ofNat)
    us.toArray (Array.replicate c.n 0) c.order = core at hinv ⊢
  obtain ⟨ks, hP, hk, hks, hds, hS2, hrm, -⟩ := hinv
  rw [visits_nodup _ _ _ hnd] at hP
  have hz : (uopsRat (fun _ => 0) d0).zeroK = 0 := rfl
  constructor
  · intro hnot
    have hmem : (t, us.toArray[t]!) ∈ ks ++ core.1.dropped :=
      hP.symm.subset (List.mem_map.mpr ⟨t, ht, rfl⟩)
    rcases List.mem_append.mp hmem with h | h
    · right
      have h1 : ((t : Int), us.toArray[t]!) ∈ core.1.kept.toList := by
        rw [hk]
        refine List.mem_map.mpr ⟨(t, us.toArray[t]!), List.mem_reverse.mpr h, ?_⟩
        simp only [idPerm_get _ _ (hlt t ht)]
      rcases List.mem_append.mp (hS2.symm.subset h1) with h2 | h2
      · exfalso
        have : (t : Int) ∈ (core.2.1.a.toList.take core.2.1.cnt).map (·.1) :=
          List.mem_map.mpr ⟨_, h2, rfl⟩
        rw [← List.contains_iff_mem] at this
        rw [this] at hnot; exact Bool.noConfusion hnot
      · obtain ⟨tol, e1, e2⟩ := hrm _ h2
        refine ⟨tol, e1, ?_⟩
        have : rabs (us.toArray[t]!) ≤ tol := by simpa [uopsRat, opsRat] using e2
        rwa [rabs_eq_abs] at this
    · left; exact hds (t, us.toArray[t]!) h
  · intro hin
    rw [List.contains_iff_mem] at hin
    obtain ⟨e, he, het⟩ := List.mem_map.mp hin
    have h1 : e ∈ core.1.kept.toList := hS2.subset (List.mem_append_left _ he)
    rw [hk] at h1
    obtain ⟨x, hx, rfl⟩ := List.mem_map.mp h1
    have hx' := List.mem_reverse.mp hx
    have hxv : x ∈ c.order.map fun t => (t, us.toArray[t]!) := hP.subset (List.mem_append_left _ hx')
    obtain ⟨t', ht', rfl⟩ := List.mem_map.mp hxv
    simp only [idPerm_get _ _ (hlt t' ht')] at het
    have : t' = t := by exact_mod_cast het
    subst this
    exact hks (t', us.toArray[t']!) hx'

example := dropUOracle_entries 1000 .smilu1 { order := [1, 0, 2], rule := exRule, dropTol := 1/2, quota := 1, n := 3 } [3, 1/4, 1]
  (by decide) (by decide) 0 (by decide)

end Slu.Ilu
