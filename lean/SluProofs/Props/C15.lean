import Slu.Model.Ilu
import SluProofs.Lemmas.Ilu
import SluProofs.Props.C14
/-
C15 — Incomplete LU never breaks down and is exact when dropping is off.
-/
namespace Slu.Ilu
open Slu Slu.Kernels

/-! ### MC64 glue of gsisx -/

/-- **C15 (row indices restored).** `[sdcz]gsisx` replaces every row index `r` of the caller's A by
`perm[r]` before the factorization and by `iperm[.]` afterwards; for every permutation `perm` of
`0..n-1` and every index array with entries below `n` the caller gets its own row indices back. -/
theorem gsisx_rowind_restored (n : Nat) (perm rowind : Array Nat) (h : PermOn n perm)
    (hr : ∀ k, k < rowind.size → rowind[k]! < n) :
    restoreRows perm (permuteRows perm rowind) = rowind := by
  unfold restoreRows permuteRows
  apply Array.ext
  · simp
  · intro k h1 h2
    simp only [Array.getElem_map]
    have hk : rowind[k]! < n := hr k h2
    have : rowind[k]! = rowind[k] := by simp [h2]
    rw [← this]
    exact invPerm_perm n perm h _ hk

/-- the core identity used above: `iperm (perm i) = i` -/
theorem gsisx_iperm_perm (n : Nat) (perm : Array Nat) (h : PermOn n perm) (i : Nat) (hi : i < n) :
    (invPerm perm)[perm[i]!]! = i := invPerm_perm n perm h i hi

/-- **C15 (permutations are bijections).** Folding MC64's permutation into the pivoting permutation,
`perm_r := perm_r ∘ perm`, gives again a permutation of `0..n-1`: injective, into range, onto. -/
theorem ilu_perm_bij (n : Nat) (permr perm : Array Nat) (hr : PermOn n permr) (hp : PermOn n perm) :
    PermOn n (foldPerm permr perm) ∧ ∀ v, v < n → ∃ i, i < n ∧ (foldPerm permr perm)[i]! = v := by
  have hP : PermOn n (foldPerm permr perm) := by
    refine ⟨by simp [foldPerm, hp.1], ?_, ?_⟩
    · intro i hi
      rw [foldPerm_get permr perm i (by rw [hp.1]; exact hi)]
      exact hr.2.1 _ (hp.2.1 i hi)
    · intro i j hi hj hij
      rw [foldPerm_get permr perm i (by rw [hp.1]; exact hi), foldPerm_get permr perm j (by rw [hp.1]; exact hj)] at hij
      exact hp.2.2 i j hi hj (hr.2.2 _ _ (hp.2.1 i hi) (hp.2.1 j hj) hij)
  exact ⟨hP, permOn_surj n _ hP⟩

/-- the folded permutation sends an ORIGINAL row `i` of A to the pivot position of the permuted row -/
theorem ilu_fold_spec (permr perm : Array Nat) (i : Nat) (hi : i < perm.size) :
    (foldPerm permr perm)[i]! = permr[perm[i]!]! := foldPerm_get permr perm i hi

/-! ### info -/

/-- **C15 (info).** `info` counts the columns whose pivot was replaced and never exceeds the number
of columns. -/
theorem ilu_info_le_n (rets : List Nat) : replaceCount rets ≤ rets.length := by
  unfold replaceCount
  exact List.length_filter_le _ _

/-! ### the solve -/

section solve
variable {K : Type} [Field K] [Conj K] [Inhabited K]

/-- **C15 (X is the preconditioner solve defined by the returned factors).** Whatever was dropped:
for every factor pair `F`, permutations, `trans`, `nrhs`, `ldx ≥ n`, column `j` of the X returned by
the driver's solve step is `gstrsCol F perm_c perm_r trans` applied to column `j` of what the step
was given, and the padding rows of X are untouched (C14 then says what `gstrsCol` computes). -/
theorem ilu_solve_is_LU_solve (F : LUFac K) (permc permr : Array Nat) (tr : Tr) (ldx nrhs : Nat) (X : Array K)
    (hld : F.L.n ≤ ldx) (hX : ldx * nrhs ≤ X.size) :
    (∀ j i, j < nrhs → i < F.L.n →
      (gstrs (gstrsCol F permc permr tr) F.L.n ldx nrhs X)[ldx * j + i]! =
        (gstrsCol F permc permr tr (slice X (ldx * j) F.L.n))[i]!) ∧
    (∀ p, p < X.size → (ldx * nrhs ≤ p ∨ F.L.n ≤ p % ldx) →
      (gstrs (gstrsCol F permc permr tr) F.L.n ldx nrhs X)[p]! = X[p]!) := by
  have h := gstrs_columns_independent (gstrsCol F permc permr tr) F.L.n ldx nrhs X
    (fun v => gstrsCol_size F permc permr tr v) hld hX
  exact ⟨h.2.1, h.2.2⟩
end solve

end Slu.Ilu
