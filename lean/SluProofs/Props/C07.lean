import Slu.Model.Mem
import Slu.Gen.XpandSites
import SluProofs.Lemmas.Mem
import SluProofs.Lemmas.MemStore
import SluProofs.Lemmas.GrowList
import SluProofs.Lemmas.MemInit
import SluProofs.Lemmas.MemReuse
import Mathlib.Tactic.Ring
/-
C07 — How factor storage is obtained never changes the answer.

The factor routines see their four growable arrays only through "write entry i (below the current
length)", "read an entry written earlier" and "make the array longer, keeping the first `next`
entries" (`LUMemXpand`).  The theorems say that the model of `[sdcz]memory.c` (`Slu.Mem`, replayed
step by step against real factorizations by the correspondence check) implements exactly that
interface, in a caller workspace of any length and alignment (where growing array `t` shifts every
later array with an overlapping backward byte copy) and under library allocation (where the array
moves to a fresh block), whatever the initial lengths and the sequence of growth factors — hence what
the routines compute does not depend on the configuration.

The one hypothesis about the *clients* that the refinement theorems need and cannot see in the allocator —
"after every expansion the routine re-reads the base pointers of the arrays from `Glu`" — is tied to the
source text on every run by `clients_refresh_pointers` at the end of this file (translator
tools/xpandscan.py -> Slu/Gen/XpandSites.lean).

Memory is modelled at byte level over an arbitrary byte type `β`; `rbyte σ s t j` is byte `j` of
array `t` in allocator state `s` and store `σ`; `moveStore` is the data movement `dexpand` performs.
-/
namespace Slu.Mem

/-- **`user_bcopy` (memory.c:138-146) is a correct overlapping move**: for `dst ≥ src` the descending
byte loop leaves the old byte `a - (dst - src)` at every destination address `a` and changes nothing
else. -/
theorem user_bcopy_is_memmove {β : Type} (src dst : Int) (hd : src ≤ dst) (n : Nat) (m : Int → β) (a : Int) :
    bcopyDesc src dst n m a = if dst ≤ a ∧ a < dst + (n : Int) then m (a - (dst - src)) else m a := by
  simpa using bcopyDesc_spec src dst hd n m a

/-- **C07 `expand_preserves_contents`, caller workspace**: after any granted `LUMemXpand` of array `t`
(any array, any growth factor the reduction loop settles on, any workspace length and alignment that
satisfy the invariant) every byte of the old capacity of *every* array — the expanded one and the three
others, shifted or not — is found unchanged at its new address. -/
theorem expand_preserves_contents_workspace {β : Type} (w : Words) (hw : w.Ok) (fail : Nat → Bool)
    (t : MemType) (s : St) (hinv : Inv w s) (nl : Int)
    (h : (expand_fixed w fail (s.nz t) t (decide (t = .USUB)) s).2 = some nl)
    (σ : Store β) (len : Int) (t' : MemType) (j : Int) (hj0 : 0 ≤ j) (hj : j < s.cap t' * w.lword t') :
    rbyte (moveStore w t len s (expand_fixed w fail (s.nz t) t (decide (t = .USUB)) s).1 σ)
        (expand_fixed w fail (s.nz t) t (decide (t = .USUB)) s).1 t' j = rbyte σ s t' j := by
  have hu := hinv.user
  have hne : s.nexp ≠ 0 := ne_of_gt hinv.nexp
  simp only [expand_fixed] at h ⊢
  rw [expand_user_later _ _ _ _ _ _ _ hu hne] at h ⊢
  cases hf : userFound fixed w (s.nz t) t (decide (t = .USUB)) s with
  | none => rw [hf] at h; simp at h
  | some r =>
    rw [hf] at h; simp at h; subst h
    simp only []
    by_cases ht : t = .USUB
    · subst ht
      simp only [userFound, decide_true, if_true] at hf
      split at hf
      · simp at hf
      · simp at hf; subst hf
        have := shift_preserves w hw .USUB (s.nz .USUB) s hinv (by simp [St.cap, St.nz]; exact hinv.capBU) σ len t' j hj0 hj
        simpa [shiftAfter] using this
    · have hnz : s.nz t = s.cap t := by cases t <;> simp_all [St.nz, St.cap]
      simp only [userFound, ht, decide_false, Bool.false_eq_true, if_false] at hf
      obtain ⟨_, h2⟩ := userSearch_spec _ _ _ _ _ _ _ _ _ hf
      have hgt : s.nz t < r := by
        rcases h2 with h2 | h2
        · rw [h2]; exact firstLen_gt_of_d10 fixed rfl _
        · exact h2 rfl
      rw [hnz] at hgt ⊢
      exact shift_preserves w hw t r s hinv (le_of_lt hgt) σ len t' j hj0 hj

/-- **C07 `expand_preserves_contents`, library allocation**: after any granted expansion (whatever
allocation attempts failed before it succeeded) the first `len_to_copy` entries of the expanded array
are in its new block, the other three arrays are untouched, and the four arrays still occupy four
different blocks. -/
theorem expand_preserves_contents_malloc {β : Type} (fx : Fixes) (w : Words) (fail : Nat → Bool) (prev : Int)
    (t : MemType) (keep : Bool) (s : St) (hinv : SysInv s) (nl : Int)
    (h : (expand fx w fail prev t keep s).2 = some nl) (σ : Store β) (len : Int) :
    SysInv (expand fx w fail prev t keep s).1 ∧
    (∀ j, 0 ≤ j → j < len * w.lword t →
      rbyte (moveStore w t len s (expand fx w fail prev t keep s).1 σ) (expand fx w fail prev t keep s).1 t j
        = rbyte σ s t j) ∧
    (∀ t', t' ≠ t → ∀ j,
      rbyte (moveStore w t len s (expand fx w fail prev t keep s).1 σ) (expand fx w fail prev t keep s).1 t' j
        = rbyte σ s t' j) :=
  sys_preserves fx w fail prev t keep s hinv nl h σ len

/-- **C07 `mem_refines_growlist`**: run any sequence of client operations (byte writes below the current
capacity, `LUMemXpand` with any `next`) against the allocator — in a workspace satisfying the invariant,
or under library allocation with any pattern of allocation failures.  If the run is carried through
(no refused expansion), every byte that the abstract growable lists know (written, and not beyond
`next` at a later growth) is inside the concrete array and has the same value there. -/
theorem mem_refines_growlist {β : Type} (w : Words) (hw : w.Ok) (hld : w.liw ≤ w.dw) (fail : Nat → Bool)
    (ops : List (COp β)) (a : Abs β) (x y : St × Store β) (hg : GoodInv w x.1) (hs : Sim w a x.1 x.2)
    (h : crun w fail x ops = some y) : GoodInv w y.1 ∧ Sim w (arun w a ops) y.1 y.2 :=
  refine_run w hw hld fail ops a x y hg hs h

/-- **C07 `storage_independence`**: two storage configurations — different workspace lengths, alignments,
initial lengths (fill estimates), library allocation with different failures, in any combination — that
both carry the same client operation sequence through agree on every byte the abstract lists define:
what the factor routines can read back does not depend on how the storage was obtained. -/
theorem storage_independence {β : Type} (w : Words) (hw : w.Ok) (hld : w.liw ≤ w.dw) (fail₁ fail₂ : Nat → Bool)
    (ops : List (COp β)) (x₁ x₂ y₁ y₂ : St × Store β)
    (hg₁ : GoodInv w x₁.1) (hg₂ : GoodInv w x₂.1)
    (h₁ : crun w fail₁ x₁ ops = some y₁) (h₂ : crun w fail₂ x₂ ops = some y₂)
    (t : MemType) (j : Int) (b : β) (hb : arun w (fun _ _ => none) ops t j = some b) :
    rbyte y₁.2 y₁.1 t j = b ∧ rbyte y₂.2 y₂.1 t j = b := by
  have e₁ : Sim w (fun _ _ => (none : Option β)) x₁.1 x₁.2 := by intro t j b h; simp at h
  have e₂ : Sim w (fun _ _ => (none : Option β)) x₂.1 x₂.2 := by intro t j b h; simp at h
  obtain ⟨_, s₁⟩ := refine_run w hw hld fail₁ ops _ x₁ y₁ hg₁ e₁ h₁
  obtain ⟨_, s₂⟩ := refine_run w hw hld fail₂ ops _ x₂ y₂ hg₂ e₂ h₂
  exact ⟨(s₁ t j b hb).2.2, (s₂ t j b hb).2.2⟩

/-! ### Refactorization: storage re-adopted by `fact == SamePattern_SameRowPerm`

`memInitReuse` (Slu/Model/Mem.lean) mirrors the second branch of `[sdcz]LUMemInit` (dmemory.c:298-355): the
four arrays of the previous factorization, their lengths and (in a caller workspace) the head of the stack are
taken over, only the two work arrays are allocated.  `Idle` / `IdleGood` (Lemmas/MemReuse.lean) describe the
allocator between two calls; `ReuseCall c s` says that the new call uses the storage mode of the previous
one and the same matrix order.  The theorems below carry every statement of this file across the call
boundary. -/

/-- **C07 `readopted_bytes_unchanged`, caller workspace**: the re-adopting `LUMemInit` moves and clears nothing.
In the state it returns, every byte of the previous capacity of every array reads the same — in the store as
the previous factorization left it, and in any store that differs from it only at or above the new `top2`,
where the two new work arrays are (they are filled by `SetIWork` / `[sdcz]SetRWork` right after the init).
The new `lwork` may differ from the previous one. -/
theorem readopted_bytes_unchanged {β : Type} (fail : Nat → Bool) (c : Cfg) (hw : c.w.Ok) (s : St) (hid : Idle c.w s)
    (hl : 0 < c.lwork) (hn : c.n = s.n) (hn1 : 1 ≤ c.n) (hI : 0 ≤ isize c) (hD : 0 ≤ dsize c)
    (h : (memInitReuse fail c s).info = 0) (σ σ' : Store β)
    (hσ : ∀ a, a < (memInitReuse fail c s).st.top2 → σ' 0 a = σ 0 a)
    (t : MemType) (j : Int) (hj : j < s.cap t * c.w.lword t) :
    rbyte σ' (memInitReuse fail c s).st t j = rbyte σ s t j ∧ s.cap t ≤ (memInitReuse fail c s).st.cap t := by
  refine ⟨memInitReuse_keeps_bytes fail c hw s hid hl hn hn1 hI hD h σ σ' hσ t j hj, ?_⟩
  obtain ⟨_, kL, kU, kS, kB, _⟩ := memInitReuse_frame fail c s
  have := hid.inv.capBU
  cases t <;> simp only [St.cap] <;> omega

/-- **C07 `readopted_bytes_unchanged`, library allocation**: the four arrays stay in the blocks they were in;
every byte, in every store. -/
theorem readopted_bytes_unchanged_malloc {β : Type} (fail : Nat → Bool) (c : Cfg) (s : St) (hl : c.lwork = 0)
    (hu : s.user = false) (σ : Store β) (t : MemType) (j : Int) :
    rbyte σ (memInitReuse fail c s).st t j = rbyte σ s t j :=
  memInitReuse_keeps_bytes_sys fail c s hl hu σ t j

/-- **C07 `expand_preserves_contents`, re-adopted storage in a caller workspace**: the first (and by
`Slu.Mem.mem_inv_reachable_reuse` every later) granted `LUMemXpand` of a refactorization keeps every byte of
every array, exactly as in a first factorization — because `stack.top1` still marks the end of USUB, the
backward copy moves everything behind the grown array. -/
theorem expand_preserves_contents_workspace_reuse {β : Type} (fail : Nat → Bool) (c : Cfg) (hw : c.w.Ok) (s : St)
    (hid : Idle c.w s) (hl : 0 < c.lwork) (hn : c.n = s.n) (hn1 : 1 ≤ c.n) (hI : 0 ≤ isize c) (hD : 0 ≤ dsize c)
    (h0 : (memInitReuse fail c s).info = 0) (t : MemType) (nl : Int)
    (h : (expand_fixed c.w fail ((memInitReuse fail c s).st.nz t) t (decide (t = .USUB)) (memInitReuse fail c s).st).2 = some nl)
    (σ : Store β) (len : Int) (t' : MemType) (j : Int) (hj0 : 0 ≤ j)
    (hj : j < (memInitReuse fail c s).st.cap t' * c.w.lword t') :
    rbyte (moveStore c.w t len (memInitReuse fail c s).st
          (expand_fixed c.w fail ((memInitReuse fail c s).st.nz t) t (decide (t = .USUB)) (memInitReuse fail c s).st).1 σ)
        (expand_fixed c.w fail ((memInitReuse fail c s).st.nz t) t (decide (t = .USUB)) (memInitReuse fail c s).st).1 t' j
      = rbyte σ (memInitReuse fail c s).st t' j :=
  expand_preserves_contents_workspace c.w hw fail t _ (memInitReuse_inv fail c hw s hid hl hn hn1 hI hD h0) nl h σ len t' j hj0 hj

/-- **C07 `expand_preserves_contents`, re-adopted storage under library allocation** -/
theorem expand_preserves_contents_malloc_reuse {β : Type} (fx : Fixes) (fail : Nat → Bool) (c : Cfg) (hw : c.w.Ok) (s : St)
    (hs : SysInv s) (hl : c.lwork = 0) (hn1 : 1 ≤ c.n) (hI : 0 ≤ isize c) (hD : 0 ≤ dsize c)
    (hL0 : 0 ≤ s.capL) (hU0 : 0 ≤ s.capU) (hS0 : 0 ≤ s.capS)
    (h0 : (memInitReuse fail c s).info = 0) (prev : Int) (t : MemType) (keep : Bool) (nl : Int)
    (h : (expand fx c.w fail prev t keep (memInitReuse fail c s).st).2 = some nl) (σ : Store β) (len : Int) :
    SysInv (expand fx c.w fail prev t keep (memInitReuse fail c s).st).1 ∧
    (∀ j, 0 ≤ j → j < len * c.w.lword t →
      rbyte (moveStore c.w t len (memInitReuse fail c s).st (expand fx c.w fail prev t keep (memInitReuse fail c s).st).1 σ)
        (expand fx c.w fail prev t keep (memInitReuse fail c s).st).1 t j = rbyte σ (memInitReuse fail c s).st t j) ∧
    (∀ t', t' ≠ t → ∀ j,
      rbyte (moveStore c.w t len (memInitReuse fail c s).st (expand fx c.w fail prev t keep (memInitReuse fail c s).st).1 σ)
        (expand fx c.w fail prev t keep (memInitReuse fail c s).st).1 t' j = rbyte σ (memInitReuse fail c s).st t' j) :=
  expand_preserves_contents_malloc fx c.w fail prev t keep _
    (memInitReuse_sysInv fail c hw s hs hl hn1 hI hD hL0 hU0 hS0 h0) nl h σ len

/-- **C07 `mem_refines_growlist`, across a refactorization**: let the abstract lists `a` be simulated by the
allocator state and store the previous factorization left (either storage mode).  After the re-adopting
`LUMemInit` — with any store that agrees with the old one below the new `top2` of the caller's buffer and on the
blocks the library had allocated — and any client operation sequence that is carried through, the concrete
arrays simulate `arun a ops`: what the previous factorization wrote and the new one did not overwrite or cut off
is still read back, what the new one wrote is read back. -/
theorem mem_refines_growlist_reuse {β : Type} (fail : Nat → Bool) (c : Cfg) (hw : c.w.Ok) (hld : c.w.liw ≤ c.w.dw) (s : St)
    (hg : IdleGood c.w s) (hc : ReuseCall c s) (h0 : (memInitReuse fail c s).info = 0)
    (a : Abs β) (σ σ' : Store β) (hs : Sim c.w a s σ)
    (hσ : ∀ (b : Nat) (ad : Int), ((b = 0 ∧ ad < (memInitReuse fail c s).st.top2) ∨ (0 < b ∧ b ≤ s.mallocs)) → σ' b ad = σ b ad)
    (ops : List (COp β)) (y : St × Store β)
    (h : crun c.w fail ((memInitReuse fail c s).st, σ') ops = some y) :
    GoodInv c.w y.1 ∧ Sim c.w (arun c.w a ops) y.1 y.2 :=
  mem_refines_growlist c.w hw hld fail ops a ((memInitReuse fail c s).st, σ') y
    (memInitReuse_goodInv fail c hw s hg hc h0) (memInitReuse_sim_good fail c hw s hg hc h0 a σ σ' hs hσ) h

/-- **C07 `storage_independence`, across a refactorization**: two storage configurations (any mix of workspace
lengths — also a different length than in the previous call —, alignments, library allocation with different
failures) whose previous factorizations left the same abstract contents `a`, and that both carry the client
operations of the refactorization through, agree on every byte the abstract lists define afterwards. -/
theorem storage_independence_reuse {β : Type} (w : Words) (hw : w.Ok) (hld : w.liw ≤ w.dw) (fail₁ fail₂ : Nat → Bool)
    (c₁ c₂ : Cfg) (hw₁ : c₁.w = w) (hw₂ : c₂.w = w) (s₁ s₂ : St)
    (hg₁ : IdleGood w s₁) (hg₂ : IdleGood w s₂) (hc₁ : ReuseCall c₁ s₁) (hc₂ : ReuseCall c₂ s₂)
    (h₁ : (memInitReuse fail₁ c₁ s₁).info = 0) (h₂ : (memInitReuse fail₂ c₂ s₂).info = 0)
    (a : Abs β) (σ₁ σ₂ : Store β) (hs₁ : Sim w a s₁ σ₁) (hs₂ : Sim w a s₂ σ₂)
    (ops : List (COp β)) (y₁ y₂ : St × Store β)
    (r₁ : crun w fail₁ ((memInitReuse fail₁ c₁ s₁).st, σ₁) ops = some y₁)
    (r₂ : crun w fail₂ ((memInitReuse fail₂ c₂ s₂).st, σ₂) ops = some y₂)
    (t : MemType) (j : Int) (b : β) (hb : arun w a ops t j = some b) :
    rbyte y₁.2 y₁.1 t j = b ∧ rbyte y₂.2 y₂.1 t j = b := by
  subst hw₁
  obtain ⟨_, q₁⟩ := mem_refines_growlist_reuse fail₁ c₁ hw hld s₁ hg₁ hc₁ h₁ a σ₁ σ₁ hs₁ (fun _ _ _ => rfl) ops y₁ r₁
  have hg₂' : IdleGood c₂.w s₂ := by rw [hw₂]; exact hg₂
  have hs₂' : Sim c₂.w a s₂ σ₂ := by rw [hw₂]; exact hs₂
  have r₂' : crun c₂.w fail₂ ((memInitReuse fail₂ c₂ s₂).st, σ₂) ops = some y₂ := by rw [hw₂]; exact r₂
  obtain ⟨_, q₂⟩ := mem_refines_growlist_reuse fail₂ c₂ (by rw [hw₂]; exact hw) (by rw [hw₂]; exact hld) s₂ hg₂' hc₂ h₂ a σ₂ σ₂ hs₂'
    (fun _ _ _ => rfl) ops y₂ r₂'
  rw [hw₂] at q₂
  exact ⟨(q₁ t j b hb).2.2, (q₂ t j b hb).2.2⟩

/-- **C07 `queryspace_matches`**: the quantity `QuerySpace` reports as `for_lu` (before the final rounding
to `float`; the float formula itself is compared bit for bit with the C code by the correspondence
check) is the byte size of the used prefixes of the four returned arrays — `nzval_colptr[n]` and
`colptr[n]` scalars, `rowind_colptr[n]` and `colptr[n]` indices — plus `5n + 4` ints for the pointer
arrays. -/
theorem queryspace_matches (w : Words) (n nzL nsL nzU : Int) :
    forLuExact w n nzL nsL nzU = nzL * w.dw + nzU * w.dw + nsL * w.iw + nzU * w.iw + (5 * n + 4) * w.iw := by
  unfold forLuExact; ring

/-! ### The clients re-read the base pointers (regenerated from the source on every run)

`mem_refines_growlist` / `storage_independence` speak about a client that addresses array `t` through the
base the allocator state holds *now* (`rbyte σ s t j`).  A factor routine that keeps `lsub = Glu->lsub` in
a local variable is such a client only as long as it re-reads the variable after every call that may move
the array.  `tools/xpandscan.py` lists, from the clang syntax tree of the current working tree, every place
in SRC/ outside `[sdcz]memory.c` where the storage may move (`[sdcz]LUMemXpand`, `[sdcz]expand`; `LUMemInit`,
`LUWorkFree`, `StackCompress`; and, to a fixed point, every call of a routine that contains such a place)
and, by a may-analysis over the control-flow graph of the enclosing function (loops included), every use of
a local copy of `Glu->lusup|ucol|lsub|usub` — or of a pointer computed from one — that some path from the
site reaches without the copy having been re-read.  Only copies of arrays that can move count: growing `T`
moves `T` (library allocation) and every array stored after it (caller workspace; order LUSUP, UCOL, LSUB,
USUB).  Each record also says whether the returned error code is tested, and the function left, before
anything else happens. -/

open Slu.Gen

/-- a reviewed exception: uses of `var` (a copy of `Glu->field`) after a site of type `memType` in `func` -/
structure StaleException where
  file : String
  func : String
  memType : String
  var : String
  field : String
  why : String

/-- Benign cases (the variable is dead on every path after the site, the function returns at once, …), one
line of justification each.  Empty: the scanner reports no possibly stale use at all on the current tree.
(History: on its first run it reported one, a genuine defect — `[sdcz]gsitrf` used its block-local `lsub`
after the LUSUP growth loop of the zero-column fill-in; in a caller workspace growing LUSUP slides LSUB —
repaired in the library by commit 3a02e26, never listed here.) -/
def allowList : List StaleException := []

def staleOk (exc : List StaleException) (s : XpandSite) (u : StaleUse) : Bool :=
  exc.any fun a => a.file == s.file && a.func == s.func && a.memType == s.memType && a.var == u.var && a.field == u.field

/-- a site is in order: its type is one the scanner understood, the returned code (if the callee returns
one) is tested before anything else happens, and every possibly stale use is a reviewed exception -/
def siteOk (exc : List StaleException) (s : XpandSite) : Bool :=
  s.memType != "?" && (s.errorChecked || !s.returnsCode) && s.stale.all (staleOk exc s)

/-- **C07 `clients_refresh_pointers`**: the translator and its self check succeeded on the current source
(all nine file families present for s, d, c, z; the number of expansion calls in the syntax tree equals the
number in the text of every file); it saw the whole set of places where storage can move; and at every one
of them the error code is tested at once and no local copy of a base pointer of an array that can move is
used again before it is re-read from `Glu` (the allow-list of reviewed exceptions is empty).

What this establishes: the hypothesis "the client re-reads the base pointers after every expansion" of
`mem_refines_growlist` / `storage_independence` (and of the confinement theorems of C08) holds of the text
of the factor routines, on every run, for every path the control-flow graph has.  What it does **not**
establish: that the indices used with those pointers are below the current length (index arithmetic is
not examined — sanitizers on exact-size workspaces and the differential check cover it), nor anything
about aliases that do not come from `Glu` or addresses stored in memory.  The scanner is trusted (it has a
built-in self test and errs towards reporting). -/
theorem clients_refresh_pointers :
    xpandOk = true ∧ 60 ≤ xpandDirect ∧ 36 ≤ xpandFiles ∧ 120 ≤ xpandSites.length ∧
    xpandSites.all (siteOk allowList) = true := by
  decide +kernel

/-- the table has no possibly stale use and no untested error code at all: no exception is in use (to be
restated over the remaining sites should a reviewed benign entry ever be added to `allowList`) -/
theorem clients_refresh_pointers_strict :
    (xpandSites.filter fun s => !s.stale.isEmpty || (s.returnsCode && !s.errorChecked)) = [] := by
  decide +kernel

/-! ### Non-vacuity: the hypotheses are satisfiable -/

/-- a concrete configuration: 2x2 matrix with 4 entries, fill estimate 4, `lwork = 1000` -/
def cfgEx : Cfg := { m := 2, n := 2, annz := 4, panel := 1, maxsuper := 1, rowblk := 1, fill := 4, lwork := 1000 }

/-- what `LUMemInit` leaves for it satisfies `GoodInv` -/
example : GoodInv cfgEx.w (memInit_fixed (fun _ => false) cfgEx).st :=
  Or.inl (memInit_fixed_inv (fun _ => false) cfgEx ⟨rfl, ⟨1, rfl⟩, ⟨2, rfl⟩, by decide, by decide⟩ (by decide)
    (by decide) (by decide) (by decide) (by decide) (by decide) (by decide))

/-- two arrays grown in a 256-byte work area, then the work arrays given back: what the first factorization of
`cfgR2` leaves (`LUMemInit`, LUSUP and LSUB expanded once each, `LUWorkFree`) -/
def cfgR2 : Cfg := { m := 1, n := 1, annz := 1, panel := 1, maxsuper := 1, rowblk := 1, fill := 2, lwork := 256 }
def idleR2 : St :=
  workFree (memXpand_fixed cfgR2.w (fun _ => false) .LSUB (memXpand_fixed cfgR2.w (fun _ => false) .LUSUP (memInit_fixed (fun _ => false) cfgR2).st).1).1

/-- it is idle (checked clause by clause by the kernel), … -/
example : Idle cfgR2.w idleR2 := ⟨by constructor <;> decide, by decide, by decide⟩
/-- … a refactorization call in the same work area is a `ReuseCall`, its `LUMemInit` returns 0, … -/
example : ReuseCall cfgR2 idleR2 ∧ (memInitReuse (fun _ => false) cfgR2 idleR2).info = 0 :=
  ⟨⟨Or.inl (by decide), by decide, by decide, by decide, by decide⟩, by decide⟩
/-- … and leaves the arrays where they were (LUSUP 3 entries at 40, UCOL at 64, LSUB 3 entries at 80, USUB at 92,
`top1 = 100`), `used` = 100 + the two work arrays, `num_expansions = 1` -/
example : (let s := (memInitReuse (fun _ => false) cfgR2 idleR2).st
    (s.offL, s.offU, s.offS, s.offB) = (40, 64, 80, 92) ∧ (s.capL, s.capU, s.capS, s.capB) = (3, 2, 3, 2) ∧
    (s.used, s.top1, s.top2, s.size) = (156, 100, 200, 256) ∧ s.nexp = 1) := by decide

end Slu.Mem
