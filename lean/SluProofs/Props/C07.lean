import Slu.Model.Mem
import SluProofs.Lemmas.Mem
import SluProofs.Lemmas.MemStore
/-
C07 — How factor storage is obtained never changes the answer.

The factor routines see their four growable arrays only through "write entry i (below the current
length)", "read an entry written earlier" and "make the array longer, keeping the first `next`
entries" (`LUMemXpand`).  The theorems say that the model of `[sdcz]memory.c` (`Slu.Mem`, replayed
step by step against real factorizations by the correspondence check) implements exactly that
interface, in a caller workspace of any length and alignment (where growing array `t` shifts every
later array with an overlapping backward byte copy) and under library allocation (where the array
moves to a fresh block), whatever the initial lengths and the sequence of growth factors — hence what
the routines compute does not depend on the configuration.

Memory is modelled at byte level over an arbitrary byte type `β`; `rbyte σ s t j` is byte `j` of
array `t` in allocator state `s` and store `σ`; `moveStore` is the data movement `dexpand` performs.
-/
namespace Slu.Mem

/-- **`user_bcopy` (memory.c:138-146) is a correct overlapping move**: for `dst ≥ src` the descending
byte loop leaves the old byte `a - (dst - src)` at every destination address `a` and changes nothing
else. -/
theorem user_bcopy_is_memmove {β : Type} (src dst : Int) (hd : src ≤ dst) (n : Nat) (m : Int → β) (a : Int) :
    bcopyDesc src dst n m a = if dst ≤ a ∧ a < dst + (n : Int) then m (a - (dst - src)) else m a := by
  simpa using bcopyDesc_spec src dst hd n m a

/-- **C07 `expand_preserves_contents`, caller workspace**: after any granted `LUMemXpand` of array `t`
(any array, any growth factor the reduction loop settles on, any workspace length and alignment that
satisfy the invariant) every byte of the old capacity of *every* array — the expanded one and the three
others, shifted or not — is found unchanged at its new address. -/
theorem expand_preserves_contents_workspace {β : Type} (w : Words) (hw : w.Ok) (fail : Nat → Bool)
    (t : MemType) (s : St) (hinv : Inv w s) (nl : Int)
    (h : (expand_fixed w fail (s.nz t) t (decide (t = .USUB)) s).2 = some nl)
    (σ : Store β) (len : Int) (t' : MemType) (j : Int) (hj0 : 0 ≤ j) (hj : j < s.cap t' * w.lword t') :
    rbyte (moveStore w t len s (expand_fixed w fail (s.nz t) t (decide (t = .USUB)) s).1 σ)
        (expand_fixed w fail (s.nz t) t (decide (t = .USUB)) s).1 t' j = rbyte σ s t' j := by
  have hu := hinv.user
  have hne : s.nexp ≠ 0 := ne_of_gt hinv.nexp
  simp only [expand_fixed] at h ⊢
  rw [expand_user_later _ _ _ _ _ _ _ hu hne] at h ⊢
  cases hf : userFound fixed w (s.nz t) t (decide (t = .USUB)) s with
  | none => rw [hf] at h; simp at h
  | some r =>
    rw [hf] at h; simp at h; subst h
    simp only []
    by_cases ht : t = .USUB
    · subst ht
      simp only [userFound, decide_true, if_true] at hf
      split at hf
      · simp at hf
      · simp at hf; subst hf
        have := shift_preserves w hw .USUB (s.nz .USUB) s hinv (by simp [St.cap, St.nz]; exact hinv.capBU) σ len t' j hj0 hj
        simpa [shiftAfter] using this
    · have hnz : s.nz t = s.cap t := by cases t <;> simp_all [St.nz, St.cap]
      simp only [userFound, ht, decide_false, Bool.false_eq_true, if_false] at hf
      obtain ⟨_, h2⟩ := userSearch_spec _ _ _ _ _ _ _ _ _ hf
      have hgt : s.nz t < r := by
        rcases h2 with h2 | h2
        · rw [h2]; exact firstLen_gt_of_d10 fixed rfl _
        · exact h2 rfl
      rw [hnz] at hgt ⊢
      exact shift_preserves w hw t r s hinv (le_of_lt hgt) σ len t' j hj0 hj

/-- **C07 `expand_preserves_contents`, library allocation**: after any granted expansion (whatever
allocation attempts failed before it succeeded) the first `len_to_copy` entries of the expanded array
are in its new block, the other three arrays are untouched, and the four arrays still occupy four
different blocks. -/
theorem expand_preserves_contents_malloc {β : Type} (fx : Fixes) (w : Words) (fail : Nat → Bool) (prev : Int)
    (t : MemType) (keep : Bool) (s : St) (hinv : SysInv s) (nl : Int)
    (h : (expand fx w fail prev t keep s).2 = some nl) (σ : Store β) (len : Int) :
    SysInv (expand fx w fail prev t keep s).1 ∧
    (∀ j, 0 ≤ j → j < len * w.lword t →
      rbyte (moveStore w t len s (expand fx w fail prev t keep s).1 σ) (expand fx w fail prev t keep s).1 t j
        = rbyte σ s t j) ∧
    (∀ t', t' ≠ t → ∀ j,
      rbyte (moveStore w t len s (expand fx w fail prev t keep s).1 σ) (expand fx w fail prev t keep s).1 t' j
        = rbyte σ s t' j) :=
  sys_preserves fx w fail prev t keep s hinv nl h σ len

end Slu.Mem
