import Slu.Model.Struct
import SluProofs.Lemmas.SymbPack
import Mathlib.Tactic.Ring
import Mathlib.Tactic.Linarith
import Mathlib.Data.List.Nodup
/-
C03 — Returned L and U are structurally well-formed.

`Slu.Struct.wfb` is the executable predicate that every family applies to every (L, U) pair the
implementation returns (`wfSC` is the same test with a message).  Here: its soundness with respect to
the property's clauses written with quantifiers (`WF`), the meaning of the `countnz` formulae, and
the two list facts the symbolic factorization relies on (marker-filtered lists are duplicate-free;
`fixupL` puts a supernode's own columns first).
-/
namespace Slu.Struct
open Slu

variable {K : Type} [Inhabited K]

theorem nodup_sound : ∀ (l : List Nat), nodup l = true → l.Nodup
  | [], _ => List.nodup_nil
  | x :: xs, h => by
    simp only [nodup, Bool.and_eq_true, Bool.not_eq_true'] at h
    refine List.nodup_cons.mpr ⟨?_, nodup_sound xs h.2⟩
    intro hm
    have : xs.contains x = true := by simpa using hm
    rw [this] at h; exact absurd h.1 (by simp)

/-- the clauses of C03, with quantifiers -/
structure WF (F : LUFac K) (ilu : Bool) : Prop where
  /-- supernodes partition the columns into consecutive non-empty ranges -/
  first : F.L.xsup[0]! = 0
  last : F.L.xsup[F.L.nsuper + 1]! = F.L.n
  nonempty : ∀ s < F.L.nsuper + 1, F.L.xsup[s]! < F.L.xsup[s+1]!
  col_to_sup : ∀ s < F.L.nsuper + 1, ∀ c < F.L.xsup[s+1]! - F.L.xsup[s]!, F.L.supno[F.L.xsup[s]! + c]! = s
  /-- pointer arrays are monotone and start at 0 -/
  mono : ∀ j < F.L.n, F.L.xlsub[j]! ≤ F.L.xlsub[j+1]! ∧ F.L.xlusup[j]! ≤ F.L.xlusup[j+1]! ∧ F.U.colptr[j]! ≤ F.U.colptr[j+1]!
  /-- the value/index arrays have exactly the implied lengths -/
  lengths : F.L.lsub.size = F.L.xlsub[F.L.n]! ∧ F.L.lusup.size = F.L.xlusup[F.L.n]! ∧
            F.U.rowind.size = F.U.colptr[F.L.n]! ∧ F.U.val.size = F.U.colptr[F.L.n]!
  /-- one row list per supernode: all its columns share it -/
  shared : ∀ s < F.L.nsuper + 1, ∀ k < (F.L.xsup[s+1]! - 1 - F.L.xsup[s]! + 1) - 1,
            F.L.xlsub[F.L.xsup[s]! + 1 + k]! = F.L.xlsub[F.L.xsup[s]! + 1]!
  /-- leading entries are the supernode's own columns in order -/
  leading : ∀ s < F.L.nsuper + 1, ∀ c < F.L.xsup[s+1]! - 1 - F.L.xsup[s]! + 1, (rowsOf F.L s)[c]! = F.L.xsup[s]! + c
  /-- remaining entries are distinct rows below the supernode, in range -/
  trailing : ∀ s < F.L.nsuper + 1, ∀ r ∈ (rowsOf F.L s).drop (F.L.xsup[s+1]! - 1 - F.L.xsup[s]! + 1),
            F.L.xsup[s+1]! - 1 < r ∧ r < F.L.m
  trailing_nodup : ∀ s < F.L.nsuper + 1, ((rowsOf F.L s).drop (F.L.xsup[s+1]! - 1 - F.L.xsup[s]! + 1)).Nodup
  /-- each column of a supernode stores one value per row of the shared list -/
  slices : ∀ s < F.L.nsuper + 1, ∀ c < F.L.xsup[s+1]! - 1 - F.L.xsup[s]! + 1,
            F.L.xlusup[F.L.xsup[s]! + c + 1]! - F.L.xlusup[F.L.xsup[s]! + c]! = (rowsOf F.L s).length
  /-- U holds only rows strictly above each column's supernode, without repeats (unless ILU) -/
  u_above : ∀ j < F.L.n, ∀ r ∈ ucolRows F j, r < F.L.xsup[F.L.supno[j]!]!
  u_nodup : ilu = false → ∀ j < F.L.n, (ucolRows F j).Nodup
  /-- the stored nonzero counts equal the actual counts -/
  counts : F.nnzL = countnzL F.L ∧ F.nnzU = countnzU F

/-- **C03 (the checker is sound).** Whatever passes `wfb` satisfies every clause of the property. -/
theorem wfb_sound (F : LUFac K) (ilu : Bool) (hn : F.L.n ≠ 0) (h : wfb F ilu = true) : WF F ilu := by
  unfold wfb at h
  simp only [hn, decide_false, Bool.false_or, Bool.and_eq_true, decide_eq_true_eq, List.all_eq_true,
    List.mem_range, Bool.or_eq_true] at h
  obtain ⟨h, h19⟩ := h
  obtain ⟨h, h18⟩ := h
  obtain ⟨h, h17⟩ := h
  obtain ⟨h, h16⟩ := h
  obtain ⟨h, h15⟩ := h
  obtain ⟨h, h14⟩ := h
  obtain ⟨h, h13⟩ := h
  obtain ⟨h, h12⟩ := h
  obtain ⟨h, h11⟩ := h
  obtain ⟨h, h10⟩ := h
  obtain ⟨h, h9⟩ := h
  obtain ⟨h, h8⟩ := h
  obtain ⟨h, h7⟩ := h
  obtain ⟨h, h6⟩ := h
  obtain ⟨h, h5⟩ := h
  refine ⟨h5, h6, fun s hs => (h7 s hs).1, fun s hs c hc => (h7 s hs).2 c hc, fun j hj => ?_, ⟨h12, h13, h14, h15⟩,
    fun s hs k hk => ?_, fun s hs c hc => ?_, fun s hs r hr => ?_, fun s hs => ?_, fun s hs c hc => ?_,
    fun j hj r hr => ?_, fun hi j hj => ?_, ⟨h18, h19⟩⟩
  · obtain ⟨⟨a, b⟩, c⟩ := h11 j hj; exact ⟨a, b, c⟩
  · exact (h16 s hs).1.1.1.1.2 k hk
  · exact (h16 s hs).1.1.1.2 c hc
  · exact (h16 s hs).1.1.2 r hr
  · exact nodup_sound _ (h16 s hs).1.2
  · exact (h16 s hs).2 c hc
  · exact (h17 j hj).1 r hr
  · rcases (h17 j hj).2 with h | h
    · rw [hi] at h; exact absurd h (by simp)
    · exact nodup_sound _ h

/-! ### `countnz` counts what is stored -/

/-- positions (p, c) of a `r × w` rectangle on or below the diagonal (L's part, unit diagonal
included) and on or above it (U's part) -/
def lPositions (r w : Nat) : List (Nat × Nat) :=
  (List.range w).flatMap fun c => ((List.range r).filter (fun p => c ≤ p)).map fun p => (p, c)
def uPositions (w : Nat) : List (Nat × Nat) :=
  (List.range w).flatMap fun c => (List.range (c + 1)).map fun p => (p, c)

theorem filter_ge_length (r c : Nat) (h : c ≤ r) : ((List.range r).filter (fun p => c ≤ p)).length = r - c := by
  induction r with
  | zero => simp
  | succ r ih =>
    rw [List.range_succ, List.filter_append, List.length_append]
    rcases Nat.lt_or_ge c (r + 1) with hlt | hge
    · have hc : c ≤ r := by omega
      simp [ih hc, hc]; omega
    · have : c = r + 1 := by omega
      subst this
      have : ((List.range r).filter (fun p => r + 1 ≤ p)) = [] := by
        apply List.filter_eq_nil_iff.mpr; intro p hp; simp at hp ⊢; omega
      simp [this]

/-- **C03 (countnz, L part).** The formula of `countnz` for one supernode — `Σ_c (nsupr - c)` — is the
number of stored positions of L in its rectangle. -/
theorem countnz_snode_L (r w : Nat) (h : w ≤ r) (acc : Nat) :
    (List.range w).foldl (fun a c => a + (r - c)) acc = acc + (lPositions r w).length := by
  unfold lPositions
  induction w generalizing acc with
  | zero => simp
  | succ w ih =>
    rw [List.range_succ, List.foldl_append, ih (by omega), List.flatMap_append, List.length_append]
    simp [filter_ge_length r w (by omega)]; omega

/-- **C03 (countnz, U part).** `Σ_c (c + 1)` is the number of positions of the supernodal triangle of U. -/
theorem countnz_snode_U (w : Nat) (acc : Nat) :
    (List.range w).foldl (fun a c => a + (c + 1)) acc = acc + (uPositions w).length := by
  unfold uPositions
  induction w generalizing acc with
  | zero => simp
  | succ w ih =>
    rw [List.range_succ, List.foldl_append, ih, List.flatMap_append, List.length_append]
    simp; omega

/-! ### Lists built with the marker test have no duplicates -/

theorem markerFilter_nodup (rows acc : List Nat) (h : acc.Nodup) : (markerFilter rows acc).Nodup := by
  induction rows generalizing acc with
  | nil => simpa [markerFilter] using h
  | cons r rs ih =>
    simp only [markerFilter]
    split
    · exact ih acc h
    · rename_i hc
      apply ih
      rw [List.nodup_append]
      refine ⟨h, by simp, ?_⟩
      intro a ha b hb
      simp at hb; subst hb
      intro hab; subst hab
      exact hc (by simpa using ha)

theorem markerFilter_complete (rows acc : List Nat) :
    ∀ x, x ∈ markerFilter rows acc ↔ x ∈ acc ∨ x ∈ rows := by
  induction rows generalizing acc with
  | nil => intro x; simp [markerFilter]
  | cons r rs ih =>
    intro x
    simp only [markerFilter]
    split
    · rename_i hc
      have hr : r ∈ acc := by simpa using hc
      rw [ih acc x]
      constructor
      · rintro (h | h)
        · exact Or.inl h
        · exact Or.inr (List.mem_cons_of_mem _ h)
      · rintro (h | h)
        · exact Or.inl h
        · rcases List.mem_cons.mp h with rfl | h
          · exact Or.inl hr
          · exact Or.inr h
    · rw [ih (acc ++ [r]) x]
      simp only [List.mem_append, List.mem_singleton, List.mem_cons]
      tauto

/-! ### `fixupL` puts the supernode's own columns first -/

/-- **C03 (fixupL).** If the first `w` subscripts of a supernode's row list are the pivot rows of its
columns `f, f+1, …` (the order in which `[sdcz]pivotL` swaps them to the front) and `perm_r` maps the
pivot row of column `k` to `k`, then after `fixupL` the leading entries are `f, f+1, …, f+w-1`.
No assumption on the number of columns: this covers a single-column matrix with several rows. -/
theorem fixupL_spec (permR : Nat → Nat) (piv : Nat → Nat) (hperm : ∀ k, permR (piv k) = k)
    (rows : List Nat) (f w : Nat) (hw : w ≤ rows.length) (hlead : ∀ c < w, rows[c]! = piv (f + c)) :
    ∀ c < w, (fixupRows permR rows)[c]! = f + c := by
  intro c hc
  have hlt : c < rows.length := by omega
  have := hlead c hc
  simp only [fixupRows]
  rw [List.getElem!_eq_getElem?_getD, List.getElem?_map, List.getElem?_eq_getElem hlt]
  simp only [Option.map_some, Option.getD_some]
  rw [List.getElem!_eq_getElem?_getD, List.getElem?_eq_getElem hlt] at this
  simp only [Option.getD_some] at this
  rw [this, hperm]

/-- trailing rows stay distinct under `fixupL` when `perm_r` is injective -/
theorem fixupL_nodup (permR : Nat → Nat) (hinj : Function.Injective permR) (rows : List Nat) (h : rows.Nodup) :
    (fixupRows permR rows).Nodup := by
  simpa [fixupRows] using List.Nodup.map hinj h

/-! non-vacuity: a 3x3 factor with one 2-column supernode and a singleton passes the checker -/
def exF : LUFac Nat :=
  { L := { m := 3, n := 3, nsuper := 1, xsup := #[0, 2, 3], supno := #[0, 0, 1], xlsub := #[0, 3, 3, 4],
           lsub := #[0, 1, 2, 2], xlusup := #[0, 3, 6, 7], lusup := #[1, 2, 3, 4, 5, 6, 7] },
    U := { m := 3, n := 3, colptr := #[0, 0, 0, 2], rowind := #[0, 1], val := #[8, 9] },
    nnzL := 6, nnzU := 6 }
example : wfb exF = true := by decide +kernel
example : wfSC exF = none := by decide +kernel

end Slu.Struct

/-! ### The model: the set-level symbolic factorization predicts a well-formed structure

`Slu.Symb.symbNaive` (lean/Slu/Model/Symb.lean) predicts the whole structure `[sdcz]gstrf` returns and is
compared with it exactly on every case of family `symb`.  Proofs: Lemmas/Symb.lean (invariant of the
column loop) and Lemmas/SymbPack.lean (packing into SCformat / NCformat arrays). -/
namespace Slu.Symb
open Slu Slu.Struct

/-- **C03 (model, partition).**  For EVERY input — any column lists, any `relax_end`, any `maxsuper` —
the predicted supernodes partition the columns `0..n-1` into consecutive non-empty ranges and `supno`
is the matching map (the clauses `first`, `last`, `nonempty`, `col_to_sup` of `WF`). -/
theorem symbNaive_partition (m n maxsuper : Nat) (cols : Nat → List Nat) (relaxEnd : Nat → Option Nat) (hn : n ≠ 0) :
    let F := toFac m (symbNaive n maxsuper cols relaxEnd)
    F.L.xsup[0]! = 0 ∧ F.L.xsup[F.L.nsuper + 1]! = n ∧
    (∀ s < F.L.nsuper + 1, F.L.xsup[s]! < F.L.xsup[s + 1]!) ∧
    (∀ s < F.L.nsuper + 1, ∀ c < F.L.xsup[s + 1]! - F.L.xsup[s]!, F.L.supno[F.L.xsup[s]! + c]! = s) := by
  intro F
  have h := symbNaive_wfOut n maxsuper cols relaxEnd
  have hpos := h.ns_pos (by rw [symbNaive_n]; exact hn)
  have hns : (symbNaive n maxsuper cols relaxEnd).rows.length - 1 + 1 = (symbNaive n maxsuper cols relaxEnd).rows.length := by omega
  simp only [F, toFac_xsup, toFac_supno, toFac_nsuper, List.getElem!_toArray, hns]
  exact ⟨h.x0, h.xn, h.xlt, h.sup⟩

/-- **C03 (model, leading entries).**  For EVERY input the row list of every predicted supernode, read
back from the packed arrays, starts with the supernode's own columns in order. -/
theorem symbNaive_leading (m n maxsuper : Nat) (cols : Nat → List Nat) (relaxEnd : Nat → Option Nat) (hn : n ≠ 0) :
    let F := toFac m (symbNaive n maxsuper cols relaxEnd)
    ∀ s < F.L.nsuper + 1, ∀ c < F.L.xsup[s + 1]! - F.L.xsup[s]!, (rowsOf F.L s)[c]! = F.L.xsup[s]! + c := by
  intro F s hs c hc
  have h := symbNaive_wfOut n maxsuper cols relaxEnd
  have hpos := h.ns_pos (by rw [symbNaive_n]; exact hn)
  have hs' : s < (symbNaive n maxsuper cols relaxEnd).rows.length := by
    simp only [F, toFac_nsuper] at hs; omega
  simp only [F, toFac_xsup, List.getElem!_toArray] at hc ⊢
  rw [h.rowsOf_toFac m s hs']
  exact h.lead s hs' c hc

/-- **C03 (model, rows below and U rows).**  For EVERY input: the entries of a predicted row list after
the leading ones are distinct rows strictly below the supernode, and every predicted U column holds
distinct rows strictly above its column's supernode. -/
theorem symbNaive_trailing_and_U (m n maxsuper : Nat) (cols : Nat → List Nat) (relaxEnd : Nat → Option Nat) (hn : n ≠ 0) :
    let F := toFac m (symbNaive n maxsuper cols relaxEnd)
    (∀ s < F.L.nsuper + 1, (∀ r ∈ (rowsOf F.L s).drop (F.L.xsup[s + 1]! - F.L.xsup[s]!), F.L.xsup[s + 1]! - 1 < r) ∧
        ((rowsOf F.L s).drop (F.L.xsup[s + 1]! - F.L.xsup[s]!)).Nodup) ∧
    (∀ j < n, (∀ r ∈ ucolRows F j, r < F.L.xsup[F.L.supno[j]!]!) ∧ (ucolRows F j).Nodup) := by
  intro F
  have h := symbNaive_wfOut n maxsuper cols relaxEnd
  have hpos := h.ns_pos (by rw [symbNaive_n]; exact hn)
  constructor
  · intro s hs
    have hs' : s < (symbNaive n maxsuper cols relaxEnd).rows.length := by
      simp only [F, toFac_nsuper] at hs; omega
    simp only [F, toFac_xsup, List.getElem!_toArray]
    rw [h.rowsOf_toFac m s hs']
    exact ⟨h.below s hs', h.rnodup s hs'⟩
  · intro j hj
    simp only [F, toFac_xsup, toFac_supno, List.getElem!_toArray]
    rw [h.ucolRows_toFac m j hj]
    exact ⟨h.uabove j hj, h.unodup j hj⟩

/-- **C03 (model, complete).**  For every pattern with row indices `< m`, `n ≤ m`, every `relax_end`
function and every `maxsuper`, the predicted structure passes the checker `wfb`; hence (`wfb_sound`) it
satisfies every clause of the property. -/
theorem symbNaive_wf (m n maxsuper : Nat) (cols : Nat → List Nat) (relaxEnd : Nat → Option Nat) (hnm : n ≤ m)
    (hcols : ∀ j < n, ∀ r ∈ cols j, r < m) : wfb (toFac m (symbNaive n maxsuper cols relaxEnd)) = true :=
  symbNaive_wfb m n maxsuper cols relaxEnd hnm hcols

theorem symbNaive_WF (m n maxsuper : Nat) (cols : Nat → List Nat) (relaxEnd : Nat → Option Nat) (hn : n ≠ 0) (hnm : n ≤ m)
    (hcols : ∀ j < n, ∀ r ∈ cols j, r < m) : WF (toFac m (symbNaive n maxsuper cols relaxEnd)) false :=
  wfb_sound _ false (by rw [toFac_n, symbNaive_n]; exact hn) (symbNaive_wf m n maxsuper cols relaxEnd hnm hcols)

/-! non-vacuity: a 3x3 pattern (columns {0,1,2}, {1,2}, {0,2}; `maxsuper = 2`, no relaxed supernode):
columns 0,1 form a T2 supernode, column 2 does not join it (`2 - 0 < maxsuper` fails) and reaches the
supernode through row 0, so its U part is the whole segment [0..1] -/
def exCols : Nat → List Nat := fun j => if j = 0 then [0, 1, 2] else if j = 1 then [1, 2] else [0, 2]
example : (symbNaive 3 2 exCols (fun _ => none)).xsup = [0, 2, 3] := by decide +kernel
example : (symbNaive 3 2 exCols (fun _ => none)).rows = [[0, 1, 2], [2]] := by decide +kernel
example : (symbNaive 3 2 exCols (fun _ => none)).ucols = [[], [], [0, 1]] := by decide +kernel
example : ∀ j < 3, ∀ r ∈ exCols j, r < 3 := by decide
/-- a relaxed supernode [0..1] (as `relax_end[0] = 1` asks) followed by an ordinary column -/
example : (symbNaive 3 2 exCols (fun j => if j = 0 then some 1 else none)).rows = [[0, 1, 2], [2]] := by decide +kernel

end Slu.Symb

