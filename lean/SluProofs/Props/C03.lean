import Slu.Model.Struct
import SluProofs.Lemmas.SymbArrays
import SluProofs.Lemmas.SymbPack
import SluProofs.Lemmas.SymbContain
import SluProofs.Lemmas.RelaxOk
import SluProofs.Props.C02
import SluProofs.Props.C10
import Mathlib.Tactic.Ring
import Mathlib.Tactic.Linarith
import Mathlib.Data.List.Nodup
/-
C03 — Returned L and U are structurally well-formed.

`Slu.Struct.wfb` is the executable predicate that every family applies to every (L, U) pair the
implementation returns (`wfSC` is the same test with a message).  Here: its soundness with respect to
the property's clauses written with quantifiers (`WF`), the meaning of the `countnz` formulae, and
the two list facts the symbolic factorization relies on (marker-filtered lists are duplicate-free;
`fixupL` puts a supernode's own columns first).

Then the model `Slu.Symb.symbNaive` (the set-level symbolic factorization that predicts the whole returned
structure): it always returns a well-formed structure (`symbNaive_wf`, `symbNaive_WF`), and it is SOUND
with respect to the numeric factorization (last section): every numerically nonzero entry of the exact
factors L, U of `B = Pr·A·Pc` lies inside the predicted structure, so the storage laid out from the
symbolic phase can hold the factors and no entry is dropped —
  `column_struct_contains_numeric`  Stage 1: the classical column-level structure contains the factors;
  `symbNaive_contains_factors`      Stages 1+2 for ANY exact factorization `B = L·U` over a field;
  `symbNaive_contains_numeric`      the same for the factors computed by the numeric model `LU.luFactor`.
These three carry the hypothesis `RelaxOk` (no column of a relaxed supernode has an entry above the
supernode).  The last section DERIVES it from the column elimination tree (Lemmas/RelaxOk.lean: row-merge
argument) and restates the containment without it —
  `relaxOk_of_coletree`, `relaxOk_of_spPreorder`   `RelaxOk` for `relax_snode` run on the column etree;
  `symbNaive_contains_factors_coletree`            tree = `coletree` of the columns handed to the factorization;
  `symbNaive_contains_factors_spPreorder`          tree and columns = what `sp_preorder` returns (no tree hypothesis left);
  `symbNaive_contains_numeric_coletree`            the numeric model;
  `relaxOk_of_spPreorder_sym`, `symbNaive_contains_factors_spPreorder_sym`
                                                   the same for SymmetricMode = YES (tree not postordered,
                                                   `heap_relax_snode`; via C10 `heapRelaxSnode_ranges`), any pattern,
                                                   any row permutation;
  `relaxOk_symetree_fails`, `relaxOk_of_symetree_diag`
                                                   the elimination tree of `A + Aᵀ` in place of the column etree: false
                                                   under a row interchange (3×3 counterexample), true for every
                                                   pattern when the pivots stay on the diagonal.
SYMMETRIC PRUNING (Lemmas/Prune.lean; the schedule side is in Props/C02.lean): the searches of the
library scan row lists cut by [sdcz]pruneL.  Proved at column level —
  `column_struct_pruned_search`     with the list of any column cut at ANY symmetric pair, the search for column
                                    `t` meets exactly `reach(t)`: same structure of `U(:,t)`, same new rows of `L(:,t)`;
  `pruned_search_contains_numeric`  hence it meets every numeric nonzero of `U(:,t)` and `L(:,t)`.
What remains tied by family `symb` only: that [sdcz]pruneL.c cuts at symmetric pairs and keeps exactly the
pivotal rows, that the C searches scan `xlsub[k] .. xprune[k]-1`, and pruning on supernode representatives.
-/
namespace Slu.Struct
open Slu

variable {K : Type} [Inhabited K]

theorem nodup_sound : ∀ (l : List Nat), nodup l = true → l.Nodup
  | [], _ => List.nodup_nil
  | x :: xs, h => by
    simp only [nodup, Bool.and_eq_true, Bool.not_eq_true'] at h
    refine List.nodup_cons.mpr ⟨?_, nodup_sound xs h.2⟩
    intro hm
    have : xs.contains x = true := by simpa using hm
    rw [this] at h; exact absurd h.1 (by simp)

/-- the clauses of C03, with quantifiers -/
structure WF (F : LUFac K) (ilu : Bool) : Prop where
  /-- supernodes partition the columns into consecutive non-empty ranges -/
  first : F.L.xsup[0]! = 0
  last : F.L.xsup[F.L.nsuper + 1]! = F.L.n
  nonempty : ∀ s < F.L.nsuper + 1, F.L.xsup[s]! < F.L.xsup[s+1]!
  col_to_sup : ∀ s < F.L.nsuper + 1, ∀ c < F.L.xsup[s+1]! - F.L.xsup[s]!, F.L.supno[F.L.xsup[s]! + c]! = s
  /-- pointer arrays are monotone and start at 0 -/
  mono : ∀ j < F.L.n, F.L.xlsub[j]! ≤ F.L.xlsub[j+1]! ∧ F.L.xlusup[j]! ≤ F.L.xlusup[j+1]! ∧ F.U.colptr[j]! ≤ F.U.colptr[j+1]!
  /-- the value/index arrays have exactly the implied lengths -/
  lengths : F.L.lsub.size = F.L.xlsub[F.L.n]! ∧ F.L.lusup.size = F.L.xlusup[F.L.n]! ∧
            F.U.rowind.size = F.U.colptr[F.L.n]! ∧ F.U.val.size = F.U.colptr[F.L.n]!
  /-- one row list per supernode: all its columns share it -/
  shared : ∀ s < F.L.nsuper + 1, ∀ k < (F.L.xsup[s+1]! - 1 - F.L.xsup[s]! + 1) - 1,
            F.L.xlsub[F.L.xsup[s]! + 1 + k]! = F.L.xlsub[F.L.xsup[s]! + 1]!
  /-- leading entries are the supernode's own columns in order -/
  leading : ∀ s < F.L.nsuper + 1, ∀ c < F.L.xsup[s+1]! - 1 - F.L.xsup[s]! + 1, (rowsOf F.L s)[c]! = F.L.xsup[s]! + c
  /-- remaining entries are distinct rows below the supernode, in range -/
  trailing : ∀ s < F.L.nsuper + 1, ∀ r ∈ (rowsOf F.L s).drop (F.L.xsup[s+1]! - 1 - F.L.xsup[s]! + 1),
            F.L.xsup[s+1]! - 1 < r ∧ r < F.L.m
  trailing_nodup : ∀ s < F.L.nsuper + 1, ((rowsOf F.L s).drop (F.L.xsup[s+1]! - 1 - F.L.xsup[s]! + 1)).Nodup
  /-- each column of a supernode stores one value per row of the shared list -/
  slices : ∀ s < F.L.nsuper + 1, ∀ c < F.L.xsup[s+1]! - 1 - F.L.xsup[s]! + 1,
            F.L.xlusup[F.L.xsup[s]! + c + 1]! - F.L.xlusup[F.L.xsup[s]! + c]! = (rowsOf F.L s).length
  /-- U holds only rows strictly above each column's supernode, without repeats (unless ILU) -/
  u_above : ∀ j < F.L.n, ∀ r ∈ ucolRows F j, r < F.L.xsup[F.L.supno[j]!]!
  u_nodup : ilu = false → ∀ j < F.L.n, (ucolRows F j).Nodup
  /-- the stored nonzero counts equal the actual counts -/
  counts : F.nnzL = countnzL F.L ∧ F.nnzU = countnzU F

/-- **C03 (the checker is sound).** Whatever passes `wfb` satisfies every clause of the property. -/
theorem wfb_sound (F : LUFac K) (ilu : Bool) (hn : F.L.n ≠ 0) (h : wfb F ilu = true) : WF F ilu := by
  unfold wfb at h
  simp only [hn, decide_false, Bool.false_or, Bool.and_eq_true, decide_eq_true_eq, List.all_eq_true,
    List.mem_range, Bool.or_eq_true] at h
  obtain ⟨h, h19⟩ := h
  obtain ⟨h, h18⟩ := h
  obtain ⟨h, h17⟩ := h
  obtain ⟨h, h16⟩ := h
  obtain ⟨h, h15⟩ := h
  obtain ⟨h, h14⟩ := h
  obtain ⟨h, h13⟩ := h
  obtain ⟨h, h12⟩ := h
  obtain ⟨h, h11⟩ := h
  obtain ⟨h, h10⟩ := h
  obtain ⟨h, h9⟩ := h
  obtain ⟨h, h8⟩ := h
  obtain ⟨h, h7⟩ := h
  obtain ⟨h, h6⟩ := h
  obtain ⟨h, h5⟩ := h
  refine ⟨h5, h6, fun s hs => (h7 s hs).1, fun s hs c hc => (h7 s hs).2 c hc, fun j hj => ?_, ⟨h12, h13, h14, h15⟩,
    fun s hs k hk => ?_, fun s hs c hc => ?_, fun s hs r hr => ?_, fun s hs => ?_, fun s hs c hc => ?_,
    fun j hj r hr => ?_, fun hi j hj => ?_, ⟨h18, h19⟩⟩
  · obtain ⟨⟨a, b⟩, c⟩ := h11 j hj; exact ⟨a, b, c⟩
  · exact (h16 s hs).1.1.1.1.2 k hk
  · exact (h16 s hs).1.1.1.2 c hc
  · exact (h16 s hs).1.1.2 r hr
  · exact nodup_sound _ (h16 s hs).1.2
  · exact (h16 s hs).2 c hc
  · exact (h17 j hj).1 r hr
  · rcases (h17 j hj).2 with h | h
    · rw [hi] at h; exact absurd h (by simp)
    · exact nodup_sound _ h

/-! ### `countnz` counts what is stored -/

/-- positions (p, c) of a `r × w` rectangle on or below the diagonal (L's part, unit diagonal
included) and on or above it (U's part) -/
def lPositions (r w : Nat) : List (Nat × Nat) :=
  (List.range w).flatMap fun c => ((List.range r).filter (fun p => c ≤ p)).map fun p => (p, c)
def uPositions (w : Nat) : List (Nat × Nat) :=
  (List.range w).flatMap fun c => (List.range (c + 1)).map fun p => (p, c)

theorem filter_ge_length (r c : Nat) (h : c ≤ r) : ((List.range r).filter (fun p => c ≤ p)).length = r - c := by
  induction r with
  | zero => simp
  | succ r ih =>
    rw [List.range_succ, List.filter_append, List.length_append]
    rcases Nat.lt_or_ge c (r + 1) with hlt | hge
    · have hc : c ≤ r := by omega
      simp [ih hc, hc]; omega
    · have : c = r + 1 := by omega
      subst this
      have : ((List.range r).filter (fun p => r + 1 ≤ p)) = [] := by
        apply List.filter_eq_nil_iff.mpr; intro p hp; simp at hp ⊢; omega
      rw [this]; simp

/-- **C03 (countnz, L part).** The formula of `countnz` for one supernode — `Σ_c (nsupr - c)` — is the
number of stored positions of L in its rectangle. -/
theorem countnz_snode_L (r w : Nat) (h : w ≤ r) (acc : Nat) :
    (List.range w).foldl (fun a c => a + (r - c)) acc = acc + (lPositions r w).length := by
  unfold lPositions
  induction w generalizing acc with
  | zero => simp
  | succ w ih =>
    rw [List.range_succ, List.foldl_append, ih (by omega), List.flatMap_append, List.length_append]
    simp [filter_ge_length r w (by omega)]; omega

/-- **C03 (countnz, U part).** `Σ_c (c + 1)` is the number of positions of the supernodal triangle of U. -/
theorem countnz_snode_U (w : Nat) (acc : Nat) :
    (List.range w).foldl (fun a c => a + (c + 1)) acc = acc + (uPositions w).length := by
  unfold uPositions
  induction w generalizing acc with
  | zero => simp
  | succ w ih =>
    rw [List.range_succ, List.foldl_append, ih, List.flatMap_append, List.length_append]
    simp; omega

/-! ### Lists built with the marker test have no duplicates -/

theorem markerFilter_nodup (rows acc : List Nat) (h : acc.Nodup) : (markerFilter rows acc).Nodup := by
  induction rows generalizing acc with
  | nil => simpa [markerFilter] using h
  | cons r rs ih =>
    simp only [markerFilter]
    split
    · exact ih acc h
    · rename_i hc
      apply ih
      rw [List.nodup_append]
      refine ⟨h, by simp, ?_⟩
      intro a ha b hb
      simp at hb; subst hb
      intro hab; subst hab
      exact hc (by simpa using ha)

theorem markerFilter_complete (rows acc : List Nat) :
    ∀ x, x ∈ markerFilter rows acc ↔ x ∈ acc ∨ x ∈ rows := by
  induction rows generalizing acc with
  | nil => intro x; simp [markerFilter]
  | cons r rs ih =>
    intro x
    simp only [markerFilter]
    split
    · rename_i hc
      have hr : r ∈ acc := by simpa using hc
      rw [ih acc x]
      constructor
      · rintro (h | h)
        · exact Or.inl h
        · exact Or.inr (List.mem_cons_of_mem _ h)
      · rintro (h | h)
        · exact Or.inl h
        · rcases List.mem_cons.mp h with rfl | h
          · exact Or.inl hr
          · exact Or.inr h
    · rw [ih (acc ++ [r]) x]
      simp only [List.mem_append, List.mem_singleton, List.mem_cons]
      tauto

/-! ### `fixupL` puts the supernode's own columns first -/

/-- **C03 (fixupL).** If the first `w` subscripts of a supernode's row list are the pivot rows of its
columns `f, f+1, …` (the order in which `[sdcz]pivotL` swaps them to the front) and `perm_r` maps the
pivot row of column `k` to `k`, then after `fixupL` the leading entries are `f, f+1, …, f+w-1`.
No assumption on the number of columns: this covers a single-column matrix with several rows. -/
theorem fixupL_spec (permR : Nat → Nat) (piv : Nat → Nat) (hperm : ∀ k, permR (piv k) = k)
    (rows : List Nat) (f w : Nat) (hw : w ≤ rows.length) (hlead : ∀ c < w, rows[c]! = piv (f + c)) :
    ∀ c < w, (fixupRows permR rows)[c]! = f + c := by
  intro c hc
  have hlt : c < rows.length := by omega
  have := hlead c hc
  simp only [fixupRows]
  rw [List.getElem!_eq_getElem?_getD, List.getElem?_map, List.getElem?_eq_getElem hlt]
  simp only [Option.map_some, Option.getD_some]
  rw [List.getElem!_eq_getElem?_getD, List.getElem?_eq_getElem hlt] at this
  simp only [Option.getD_some] at this
  rw [this, hperm]

/-- trailing rows stay distinct under `fixupL` when `perm_r` is injective -/
theorem fixupL_nodup (permR : Nat → Nat) (hinj : Function.Injective permR) (rows : List Nat) (h : rows.Nodup) :
    (fixupRows permR rows).Nodup := by
  simpa [fixupRows] using List.Nodup.map hinj h

/-! non-vacuity: a 3x3 factor with one 2-column supernode and a singleton passes the checker -/
def exF : LUFac Nat :=
  { L := { m := 3, n := 3, nsuper := 1, xsup := #[0, 2, 3], supno := #[0, 0, 1], xlsub := #[0, 3, 3, 4],
           lsub := #[0, 1, 2, 2], xlusup := #[0, 3, 6, 7], lusup := #[1, 2, 3, 4, 5, 6, 7] },
    U := { m := 3, n := 3, colptr := #[0, 0, 0, 2], rowind := #[0, 1], val := #[8, 9] },
    nnzL := 6, nnzU := 6 }
example : wfb exF = true := by decide +kernel
example : wfSC exF = none := by decide +kernel

end Slu.Struct

/-! ### The model: the set-level symbolic factorization predicts a well-formed structure

`Slu.Symb.symbNaive` (lean/Slu/Model/Symb.lean) predicts the whole structure `[sdcz]gstrf` returns and is
compared with it exactly on every case of family `symb`.  Proofs: Lemmas/Symb.lean (invariant of the
column loop) and Lemmas/SymbPack.lean (packing into SCformat / NCformat arrays). -/
namespace Slu.Symb
open Slu Slu.Struct

/-- **C03 (model, partition).**  For EVERY input — any column lists, any `relax_end`, any `maxsuper` —
the predicted supernodes partition the columns `0..n-1` into consecutive non-empty ranges and `supno`
is the matching map (the clauses `first`, `last`, `nonempty`, `col_to_sup` of `WF`). -/
theorem symbNaive_partition (m n maxsuper : Nat) (cols : Nat → List Nat) (relaxEnd : Nat → Option Nat) (hn : n ≠ 0) :
    let F := toFac m (symbNaive n maxsuper cols relaxEnd)
    F.L.xsup[0]! = 0 ∧ F.L.xsup[F.L.nsuper + 1]! = n ∧
    (∀ s < F.L.nsuper + 1, F.L.xsup[s]! < F.L.xsup[s + 1]!) ∧
    (∀ s < F.L.nsuper + 1, ∀ c < F.L.xsup[s + 1]! - F.L.xsup[s]!, F.L.supno[F.L.xsup[s]! + c]! = s) := by
  intro F
  have h := symbNaive_wfOut n maxsuper cols relaxEnd
  have hpos := h.ns_pos (by rw [symbNaive_n]; exact hn)
  have hns : (symbNaive n maxsuper cols relaxEnd).rows.length - 1 + 1 = (symbNaive n maxsuper cols relaxEnd).rows.length := by omega
  simp only [F, toFac_xsup, toFac_supno, toFac_nsuper, List.getElem!_toArray, hns]
  exact ⟨h.x0, h.xn, h.xlt, h.sup⟩

/-- **C03 (model, leading entries).**  For EVERY input the row list of every predicted supernode, read
back from the packed arrays, starts with the supernode's own columns in order. -/
theorem symbNaive_leading (m n maxsuper : Nat) (cols : Nat → List Nat) (relaxEnd : Nat → Option Nat) (hn : n ≠ 0) :
    let F := toFac m (symbNaive n maxsuper cols relaxEnd)
    ∀ s < F.L.nsuper + 1, ∀ c < F.L.xsup[s + 1]! - F.L.xsup[s]!, (rowsOf F.L s)[c]! = F.L.xsup[s]! + c := by
  intro F s hs c hc
  have h := symbNaive_wfOut n maxsuper cols relaxEnd
  have hpos := h.ns_pos (by rw [symbNaive_n]; exact hn)
  have hs' : s < (symbNaive n maxsuper cols relaxEnd).rows.length := by
    simp only [F, toFac_nsuper] at hs; omega
  simp only [F, toFac_xsup, List.getElem!_toArray] at hc ⊢
  rw [h.rowsOf_toFac m s hs']
  exact h.lead s hs' c hc

/-- **C03 (model, rows below and U rows).**  For EVERY input: the entries of a predicted row list after
the leading ones are distinct rows strictly below the supernode, and every predicted U column holds
distinct rows strictly above its column's supernode. -/
theorem symbNaive_trailing_and_U (m n maxsuper : Nat) (cols : Nat → List Nat) (relaxEnd : Nat → Option Nat) (hn : n ≠ 0) :
    let F := toFac m (symbNaive n maxsuper cols relaxEnd)
    (∀ s < F.L.nsuper + 1, (∀ r ∈ (rowsOf F.L s).drop (F.L.xsup[s + 1]! - F.L.xsup[s]!), F.L.xsup[s + 1]! - 1 < r) ∧
        ((rowsOf F.L s).drop (F.L.xsup[s + 1]! - F.L.xsup[s]!)).Nodup) ∧
    (∀ j < n, (∀ r ∈ ucolRows F j, r < F.L.xsup[F.L.supno[j]!]!) ∧ (ucolRows F j).Nodup) := by
  intro F
  have h := symbNaive_wfOut n maxsuper cols relaxEnd
  have hpos := h.ns_pos (by rw [symbNaive_n]; exact hn)
  constructor
  · intro s hs
    have hs' : s < (symbNaive n maxsuper cols relaxEnd).rows.length := by
      simp only [F, toFac_nsuper] at hs; omega
    simp only [F, toFac_xsup, List.getElem!_toArray]
    rw [h.rowsOf_toFac m s hs']
    exact ⟨h.below s hs', h.rnodup s hs'⟩
  · intro j hj
    simp only [F, toFac_xsup, toFac_supno, List.getElem!_toArray]
    rw [h.ucolRows_toFac m j hj]
    exact ⟨h.uabove j hj, h.unodup j hj⟩

/-- **C03 (model, complete).**  For every pattern with row indices `< m`, `n ≤ m`, every `relax_end`
function and every `maxsuper`, the predicted structure passes the checker `wfb`; hence (`wfb_sound`) it
satisfies every clause of the property. -/
theorem symbNaive_wf (m n maxsuper : Nat) (cols : Nat → List Nat) (relaxEnd : Nat → Option Nat) (hnm : n ≤ m)
    (hcols : ∀ j < n, ∀ r ∈ cols j, r < m) : wfb (toFac m (symbNaive n maxsuper cols relaxEnd)) = true :=
  symbNaive_wfb m n maxsuper cols relaxEnd hnm hcols

theorem symbNaive_WF (m n maxsuper : Nat) (cols : Nat → List Nat) (relaxEnd : Nat → Option Nat) (hn : n ≠ 0) (hnm : n ≤ m)
    (hcols : ∀ j < n, ∀ r ∈ cols j, r < m) : WF (toFac m (symbNaive n maxsuper cols relaxEnd)) false :=
  wfb_sound _ false (by rw [toFac_n, symbNaive_n]; exact hn) (symbNaive_wf m n maxsuper cols relaxEnd hnm hcols)

/-! non-vacuity: a 3x3 pattern (columns {0,1,2}, {1,2}, {0,2}; `maxsuper = 2`, no relaxed supernode):
columns 0,1 form a T2 supernode, column 2 does not join it (`2 - 0 < maxsuper` fails) and reaches the
supernode through row 0, so its U part is the whole segment [0..1] -/
def exCols : Nat → List Nat := fun j => if j = 0 then [0, 1, 2] else if j = 1 then [1, 2] else [0, 2]
example : (symbNaive 3 2 exCols (fun _ => none)).xsup = [0, 2, 3] := by decide +kernel
example : (symbNaive 3 2 exCols (fun _ => none)).rows = [[0, 1, 2], [2]] := by decide +kernel
example : (symbNaive 3 2 exCols (fun _ => none)).ucols = [[], [], [0, 1]] := by decide +kernel
example : ∀ j < 3, ∀ r ∈ exCols j, r < 3 := by decide
/-- a relaxed supernode [0..1] (as `relax_end[0] = 1` asks) followed by an ordinary column -/
example : (symbNaive 3 2 exCols (fun j => if j = 0 then some 1 else none)).rows = [[0, 1, 2], [2]] := by decide +kernel

end Slu.Symb

/-! ### Soundness: the predicted structure contains every nonzero of the exact factors

Rows in PIVOT numbering (`B = Pr·A·Pc`; the pivot of column `j` is row `j`), as in `Slu.Symb`.  The pattern
handed to the symbolic model is any `cols` with `B(i,j) ≠ 0 → i ∈ cols j`.  Lemmas/SymbSound.lean (Stage 1:
column level, `ColReach` / `ColStruct` / `ColUStruct`), Lemmas/SymbContain.lean (Stage 2: `symbNaive`
contains the column-level structure; `colReachL_iff`: the column-level structure is what `Symb.reach`
computes when every column is its own supernode).

Relaxed supernodes (R1) need `RelaxOk n cols relaxEnd`: no column of a relaxed supernode `[j..k]` has an
entry in a row above `j`.  This is what R1's "no U part outside the supernode" presupposes, and it is
NECESSARY (an entry `B(r,c) ≠ 0`, `r < j ≤ c ≤ k`, generically gives `U(r,c) ≠ 0`, which the prediction
`ucols[c] = []` does not hold).  In this section it is a hypothesis.  It is DERIVED in the next section
(`relaxOk_of_coletree`, `relaxOk_of_spPreorder`; Lemmas/RelaxOk.lean) from the fact that a relaxed supernode
is a subtree of the column elimination tree with all its descendants (`relaxSnode_ranges`, Props/C10.lean),
for every exact factorization with nonzero pivots, unless SymmetricMode.
With `relaxEnd = fun _ => none` it holds trivially (`relaxOk_none`). -/
namespace Slu.Symb
open Slu Slu.Struct

theorem relaxOk_none (n : Nat) (cols : Nat → List Nat) : RelaxOk n cols (fun _ => none) := by
  intro j k h; cases h

/-- **C03 (soundness, Stage 1: column level).**  For ANY exact factorization `B = L·U` of an `n × n` matrix
over a field — L unit lower triangular, U upper triangular with nonzero diagonal, so L and U are THE factors
without row interchanges of B — and any pattern `cols` covering the nonzeros of B: every nonzero of `L(:,j)`
lies in the column-level structure `struct(j) = {j} ∪ {r > j : r ∈ reach(j)}` and every nonzero of `U(:,j)` in
`{j} ∪ {k < j : k ∈ reach(j)}`, where `reach(j)` is the closure of the rows of `B(:,j)` under "a reached
row `k < j` adds the rows of `struct(k)`".  This is the heart of the soundness of symbolic factorization:
the update of column `j` by column `k` happens only if `U(k,j) ≠ 0`, i.e. only for reached `k`, and then
adds at most the rows of `struct(k)`. -/
theorem column_struct_contains_numeric {K : Type} [Field K] (n : Nat) (B L U : Nat → Nat → K) (cols : Nat → List Nat)
    (hcols : ∀ i < n, ∀ j < n, B i j ≠ 0 → i ∈ cols j)
    (hB : ∀ i < n, ∀ j < n, B i j = ∑ t ∈ Finset.range n, L i t * U t j)
    (hL1 : ∀ i < n, L i i = 1) (hL0 : ∀ i < n, ∀ t < n, i < t → L i t = 0)
    (hU0 : ∀ t < n, ∀ j < n, j < t → U t j = 0) (hUd : ∀ j < n, U j j ≠ 0) :
    ∀ j < n, (∀ i < n, L i j ≠ 0 → ColStruct cols j i) ∧ (∀ k < n, U k j ≠ 0 → ColUStruct cols j k) :=
  colStruct_contains_LU n B L U cols hcols hB hL1 hL0 hU0 hUd

/-- **C03 (the pruned search computes the column-level structure).**  `LStruct cols k r` / `UStruct cols j k`:
the off-diagonal parts of `ColStruct` / `ColUStruct`.  Let `p` cut the row list of any columns `k` at ANY
column `c` forming a symmetric pair with `k` (`k < c`, `c ∈ struct(L_k)`, `k ∈ struct(U(:,c))`) — what
[sdcz]pruneL does.  Then for every column `t` the rows met by the search of [sdcz]column_dfs on the
PRUNED lists (`HitsPruned`: the rows of `B(:,t)`, and the rows in the scanned part of the list of every
column reached from a pivotal row `s < t` of `B(:,t)` through scanned pivotal rows) are exactly
`reach(t) = ColReach cols t`; in particular the pivotal ones (`< t`) are the structure of `U(:,t)` and
the non-pivotal ones (`> t`) the structure of `L(:,t)`. -/
theorem column_struct_pruned_search (cols : Nat → List Nat) (p : Nat → Option Nat)
    (hp : ∀ k c, p k = some c → SymPair (LStruct cols) (UStruct cols) k c) (t r : Nat) :
    (ColReach cols t r ↔ HitsPruned (LStruct cols) p t (fun s => s ∈ cols t ∧ s < t) (fun r => r ∈ cols t) r) ∧
    (ColUStruct cols t r ↔ r = t ∨ (r < t ∧ HitsPruned (LStruct cols) p t (fun s => s ∈ cols t ∧ s < t) (fun r => r ∈ cols t) r)) ∧
    (ColStruct cols t r ↔ r = t ∨ (t < r ∧ HitsPruned (LStruct cols) p t (fun s => s ∈ cols t ∧ s < t) (fun r => r ∈ cols t) r)) := by
  have h := colReach_iff_prunedSearch cols p hp t r
  exact ⟨h, by unfold ColUStruct; rw [h], by unfold ColStruct; rw [h]⟩

/-- **C03 (the pruned search finds every numeric nonzero).**  Setting of `column_struct_contains_numeric`
and of `column_struct_pruned_search`: every nonzero of `U(:,t)` above the diagonal and every nonzero of
`L(:,t)` below it is met by the search for column `t` on the pruned lists. -/
theorem pruned_search_contains_numeric {K : Type} [Field K] (n : Nat) (B L U : Nat → Nat → K) (cols : Nat → List Nat)
    (hcols : ∀ i < n, ∀ j < n, B i j ≠ 0 → i ∈ cols j)
    (hB : ∀ i < n, ∀ j < n, B i j = ∑ t ∈ Finset.range n, L i t * U t j)
    (hL1 : ∀ i < n, L i i = 1) (hL0 : ∀ i < n, ∀ t < n, i < t → L i t = 0)
    (hU0 : ∀ t < n, ∀ j < n, j < t → U t j = 0) (hUd : ∀ j < n, U j j ≠ 0)
    (p : Nat → Option Nat) (hp : ∀ k c, p k = some c → SymPair (LStruct cols) (UStruct cols) k c) :
    ∀ t < n,
      (∀ k < t, U k t ≠ 0 → HitsPruned (LStruct cols) p t (fun s => s ∈ cols t ∧ s < t) (fun r => r ∈ cols t) k) ∧
      (∀ i < n, t < i → L i t ≠ 0 → HitsPruned (LStruct cols) p t (fun s => s ∈ cols t ∧ s < t) (fun r => r ∈ cols t) i) := by
  intro t ht
  obtain ⟨h1, h2⟩ := colReach_contains_LU n B L U cols hcols hB hL1 hL0 hU0 hUd t ht
  exact ⟨fun k hk hne => (colReach_iff_prunedSearch cols p hp t k).mp (h1 k hk hne),
    fun i hi hti hne => (colReach_iff_prunedSearch cols p hp t i).mp (h2 i hi hti hne)⟩

/-- **C03 (soundness of the predicted structure, any exact factorization).**  Same setting; any `maxsuper`,
any `relaxEnd` with `RelaxOk`.  For every column `j`, with `s = supno[j]` its predicted supernode:
every nonzero `L(i,j)` has its row `i` in the row list of `s` at or after position `j - xsup[s]` (the part
of the shared list that column `j` stores: the rows `j..last(s)` and the rows below the supernode), and
every nonzero `U(k,j)` has its row `k` among the predicted U rows of column `j` or among the rows
`xsup[s] .. j` of the supernode's own dense block. -/
theorem symbNaive_contains_factors {K : Type} [Field K] (n maxsuper : Nat) (B L U : Nat → Nat → K)
    (cols : Nat → List Nat) (relaxEnd : Nat → Option Nat)
    (hcols : ∀ i < n, ∀ j < n, B i j ≠ 0 → i ∈ cols j)
    (hB : ∀ i < n, ∀ j < n, B i j = ∑ t ∈ Finset.range n, L i t * U t j)
    (hL1 : ∀ i < n, L i i = 1) (hL0 : ∀ i < n, ∀ t < n, i < t → L i t = 0)
    (hU0 : ∀ t < n, ∀ j < n, j < t → U t j = 0) (hUd : ∀ j < n, U j j ≠ 0)
    (hrelax : RelaxOk n cols relaxEnd) :
    let o := symbNaive n maxsuper cols relaxEnd
    ∀ j < n,
      (∀ i < n, L i j ≠ 0 → i ∈ (o.rows[o.supno[j]!]!).drop (j - o.xsup[o.supno[j]!]!)) ∧
      (∀ k < n, U k j ≠ 0 → k ∈ o.ucols[j]! ∨ (o.xsup[o.supno[j]!]! ≤ k ∧ k ≤ j)) := by
  intro o j hj
  obtain ⟨h1, h2⟩ := colStruct_contains_LU n B L U cols hcols hB hL1 hL0 hU0 hUd j hj
  obtain ⟨g1, g2⟩ := symbNaive_contains_colStruct n maxsuper cols relaxEnd hrelax j hj
  exact ⟨fun i hi hne => g1 i (h1 i hi hne), fun k hk hne => g2 k (h2 k hk hne)⟩

/-- **C03 (soundness of the predicted structure, numeric model).**  Let the numeric model `LU.luFactor`
(exact arithmetic over a field, any threshold `0 ≤ u ≤ 1` — `u = 0` is `DiagPivotThresh = 0` —, any
candidate order, any reuse state) factor a square matrix successfully, choosing the diagonal pivots: the
rows are already in pivot numbering, `piv k = k`.  Then for any pattern `cols` covering the nonzeros of the
matrix, any `maxsuper`, any `relaxEnd` with `RelaxOk`: every nonzero of the computed column `L(:,j)` lies in
the part of the predicted row list of `j`'s supernode that column `j` stores, and every nonzero of the
computed `U(0..j, j)` lies in the predicted U rows of column `j` or in the supernode's own block. -/
theorem symbNaive_contains_numeric {K : Type} [Field K] [Mag K Rat] (laws : LU.MagLaws K) (P : LU.Params K Rat)
    (hu0 : 0 ≤ P.u) (hu1 : P.u ≤ 1) (hcol : ∀ j, (P.col j).size = P.m) (hsq : P.m = P.n) (b : Bool)
    (hinfo : (LU.luFactor P b).info = 0) (hpiv : ∀ k < P.n, (LU.luFactor P b).piv.getD k 0 = k)
    (maxsuper : Nat) (cols : Nat → List Nat) (relaxEnd : Nat → Option Nat)
    (hcols : ∀ i < P.n, ∀ j < P.n, (P.col j).get i ≠ 0 → i ∈ cols j)
    (hrelax : RelaxOk P.n cols relaxEnd) :
    let o := symbNaive P.n maxsuper cols relaxEnd
    ∀ j < P.n,
      (∀ i, ((LU.luFactor P b).L.getD j #[]).get i ≠ 0 → i ∈ (o.rows[o.supno[j]!]!).drop (j - o.xsup[o.supno[j]!]!)) ∧
      (∀ k, ((LU.luFactor P b).U.getD j #[]).getD k 0 ≠ 0 → k ∈ o.ucols[j]! ∨ (o.xsup[o.supno[j]!]! ≤ k ∧ k ≤ j)) := by
  intro o j hj
  rw [LU.luFactor_eq_run] at hinfo hpiv ⊢
  have inv := LU.run_inv laws P hu0 hu1 hcol b P.n hinfo
  obtain ⟨h1, h2⟩ := LU.inv_colStruct P _ P.n hsq inv hpiv cols hcols j hj
  obtain ⟨g1, g2⟩ := symbNaive_contains_colStruct P.n maxsuper cols relaxEnd hrelax j hj
  exact ⟨fun i hne => g1 i (h1 i hne), fun k hne => g2 k (h2 k hne)⟩

/-! non-vacuity: a 4x4 matrix with fill-in, diagonal pivots (`u = 0`, the diagonal is preferred)

        4 1 . 1                                   L(3,1) = -1/15 although B(3,1) = 0   (fill in L)
    B = 1 4 . .     columns 0,1 and 2,3 form      U(1,3) = -1/4  although B(1,3) = 0   (fill in U)
        . . 4 1     T2 supernodes
        1 . 1 4                                                                                     -/
def fillCols : Nat → LU.Vec Rat
  | 0 => #[4, 1, 0, 1]
  | 1 => #[1, 4, 0, 0]
  | 2 => #[0, 0, 4, 1]
  | _ => #[1, 0, 1, 4]

def fillP : LU.Params Rat Rat :=
  { m := 4, n := 4, col := fillCols, u := 0, order := fun _ => [0, 1, 2, 3], oldPiv := fun _ => 0, diagRow := fun j => j }

/-- the pattern of the matrix -/
def fillPat : Nat → List Nat := fun j => (List.range 4).filter fun i => (fillCols j).get i != 0

example : (List.range 4).map fillPat = [[0, 1, 3], [0, 1], [2, 3], [0, 2, 3]] := by decide +kernel
example : (LU.luFactor fillP false).L.getD 1 #[] = #[0, 1, 0, -1/15] := by decide +kernel
example : (LU.luFactor fillP false).U.getD 3 #[] = #[1, -1/4, 1, 209/60] := by decide +kernel
/-- the column-level structure (Stage 1), computed: `struct(1) = {1, 3}`, `reach(3) = {0, 2, 3, 1}` -/
example : colStructL fillPat 1 = [1, 3] ∧ colReachL fillPat 3 = [0, 2, 3, 1] := by decide +kernel
example : (symbNaive 4 2 fillPat (fun _ => none)).xsup = [0, 2, 4] ∧ (symbNaive 4 2 fillPat (fun _ => none)).supno = [0, 0, 1, 1] ∧
    (symbNaive 4 2 fillPat (fun _ => none)).rows = [[0, 1, 3], [2, 3]] ∧
    (symbNaive 4 2 fillPat (fun _ => none)).ucols = [[], [], [], [0, 1]] := by decide +kernel

/-- all hypotheses of `symbNaive_contains_numeric` hold for this matrix (no relaxed supernode) … -/
theorem fill_contains :
    let o := symbNaive 4 2 fillPat (fun _ => none)
    ∀ j < 4,
      (∀ i, ((LU.luFactor fillP false).L.getD j #[]).get i ≠ 0 → i ∈ (o.rows[o.supno[j]!]!).drop (j - o.xsup[o.supno[j]!]!)) ∧
      (∀ k, ((LU.luFactor fillP false).U.getD j #[]).getD k 0 ≠ 0 → k ∈ o.ucols[j]! ∨ (o.xsup[o.supno[j]!]! ≤ k ∧ k ≤ j)) :=
  symbNaive_contains_numeric LU.magLaws_rat fillP (le_refl _) (by decide)
  (by intro j; match j with | 0 => rfl | 1 => rfl | 2 => rfl | (_ + 3) => rfl) rfl false
  (by decide +kernel) (by decide +kernel) 2 fillPat (fun _ => none) (by decide +kernel) (relaxOk_none _ _)

/-- … and the theorem places the fill entry `L(3,1) ≠ 0 = B(3,1)` in the stored part `[1, 3]` of the row
list `[0, 1, 3]` of supernode 0, and the fill entry `U(1,3) ≠ 0 = B(1,3)` in the predicted U column `[0, 1]` -/
example : (fillCols 1).get 3 = 0 ∧ ((LU.luFactor fillP false).L.getD 1 #[]).get 3 ≠ 0 ∧
    3 ∈ ((symbNaive 4 2 fillPat (fun _ => none)).rows[0]!).drop 1 :=
  ⟨by decide +kernel, by decide +kernel, (fill_contains 1 (by decide)).1 3 (by decide +kernel)⟩
example : (fillCols 3).get 1 = 0 ∧ ((LU.luFactor fillP false).U.getD 3 #[]).getD 1 0 ≠ 0 ∧
    1 ∈ (symbNaive 4 2 fillPat (fun _ => none)).ucols[3]! :=
  ⟨by decide +kernel, by decide +kernel,
   ((fill_contains 3 (by decide)).2 1 (by decide +kernel)).resolve_right (by decide +kernel)⟩

/-! non-vacuity of the pruning statements on `fillPat`: `(0, 1)` is a symmetric pair (`B(1,0) ≠ 0`,
`B(0,1) ≠ 0`); cutting column 0 at column 1 removes row 3 from its list, and the search for column 3
still meets row 3 — through the fill entry `3 ∈ struct(1)` -/
def fillCut : Nat → Option Nat
  | 0 => some 1
  | _ => none

theorem fillCut_sym : ∀ k c, fillCut k = some c → SymPair (LStruct fillPat) (UStruct fillPat) k c := by
  intro k c h
  match k with
  | 0 =>
    cases h
    exact ⟨by decide, ⟨by decide, ColReach.base (by decide +kernel)⟩, ⟨by decide, ColReach.base (by decide +kernel)⟩⟩
  | (_ + 1) => simp [fillCut] at h

/-- row 3 is in the full list of column 0 but not in the list scanned by the search for column 3 … -/
example : LStruct fillPat 0 3 ∧ ¬ PrunedStruct (LStruct fillPat) fillCut 3 0 3 :=
  ⟨⟨by decide, ColReach.base (by decide +kernel)⟩, fun h => absurd (h.2 1 rfl (by decide)) (by decide)⟩
/-- … the fill row 3 of column 1 is scanned, and the theorem gives the reach of column 3 on the cut lists -/
example : PrunedStruct (LStruct fillPat) fillCut 3 1 3 :=
  ⟨⟨by decide, ColReach.step (k := 0) (ColReach.base (by decide +kernel)) (by decide) (by decide) (ColReach.base (by decide +kernel))⟩,
    fun c h => by simp [fillCut] at h⟩
example (r : Nat) := column_struct_pruned_search fillPat fillCut fillCut_sym 3 r

/-- with a relaxed supernode `[0..1]` (`relax_end[0] = 1`; `RelaxOk` holds: nothing lies above row 0) the
hypotheses hold as well -/
example := symbNaive_contains_numeric LU.magLaws_rat fillP (le_refl _) (by decide)
  (by intro j; match j with | 0 => rfl | 1 => rfl | 2 => rfl | (_ + 3) => rfl) rfl false
  (by decide +kernel) (by decide +kernel) 2 fillPat (fun j => if j = 0 then some 1 else none) (by decide +kernel)
  (by
    intro j k h c hc _ r _
    by_cases hj : j = 0
    · omega
    · simp [hj] at h)

/-- `RelaxOk` cannot be dropped: declaring `[2..3]` a relaxed supernode although column 3 has an entry in
row 0 makes the prediction lose `U(0,3) = 1` (R1 gives the columns of a relaxed supernode no U part) -/
example : ¬ RelaxOk 4 fillPat (fun j => if j = 2 then some 3 else none) := by
  intro h
  have := h 2 3 rfl 3 (by decide) (by decide) 0 (by decide +kernel)
  omega
example :
    let o := symbNaive 4 2 fillPat (fun j => if j = 2 then some 3 else none)
    ((LU.luFactor fillP false).U.getD 3 #[]).getD 0 0 ≠ 0 ∧ 0 ∉ o.ucols[3]! ∧ ¬ o.xsup[o.supno[3]!]! ≤ 0 := by
  decide +kernel

end Slu.Symb

/-! ### `RelaxOk` from the column elimination tree

Lemmas/RelaxOk.lean proves, for ANY heap-ordered forest `et` on the columns such that two columns sharing a
row are ancestor and descendant (`ShareDesc`; true of the column elimination tree, `coletree_shareDesc`, and
stable under the relabelling by a postorder, `shareDesc_relabel`): the structural entries of every row of
the row-merge model of Gaussian elimination (`RowFill`; rows numbered by their pivot step) lie among the
ancestors of the row's first column (`rowFill_desc`), so a relaxed supernode that is a whole subtree has no
entry in a row pivotal before it (`relaxOk_of_subtrees`); and the nonzeros of `L\U` of any exact factorization
are structural entries (`rowFill_of_LU`).  Here: the instantiations.

Numbering.  `acol c` = rows of column `c` of `A·Pc` in ORIGINAL row numbering (the columns in the order
the factorization uses, i.e. after `sp_preorder`); `π` = `perm_r` (original row → pivot step); the pattern
handed to `symbNaive` is `fun c => (acol c).map π` — the shape of `Slu.Symb.permutedCols`.  Only injectivity
of `π` on the rows `< nr` is used.

Which hypotheses C10 establishes for the real inputs (`SymmetricMode = NO`):
  * `Heap n et`                                       `coletree_heap`, `spPreorder_perm` (last clause);
  * `et` postordered (`hpost`)                        `spPreorder_subtrees`;
  * every relaxed supernode is a whole subtree        `relaxSnode_ranges` (used inside `relaxEndOf_subtrees`);
  * `coletree` is THE column elimination tree         `coletree_eq_def` + `etreeOfGraph_parent_least` (used inside
                                                      `coletree_shareDesc`);
  * the tree `sp_preorder` returns is the relabelled
    `coletree` of the columns before postordering     `spPreorder_perm` (clauses 4, 5, 7; used inside `shareDesc_spPreorder`).
So `symbNaive_contains_factors_spPreorder` has NO hypothesis on the tree left: `p` is a permutation (C10 checks
`isPerm` on every run), the stored row indices are `< m`, `perm_r` is injective, `B = L·U` exactly with
nonzero pivots.  In `…_coletree` the tree is `coletree` of the very columns that are factored and "postordered"
is a hypothesis (`spPreorder_subtrees` is about the relabelled tree, which is the `…_spPreorder` form).

SymmetricMode (`relaxEndOf … true`, `heap_relax_snode`) is covered by the last section of this file
(`…_sym`): there `sp_preorder` keeps the column elimination tree as computed, heap ordered but not
postordered, and C10's `heapRelaxSnode_ranges` shows that the recorded supernodes are whole subtrees of it.
NOT covered: the identification of `permutedCols A perm_c perm_r` with
`fun c => ((sp_preorder view).col c).map perm_r` (inverse of `perm_c` computed by a loop) is by correspondence
only. -/
namespace Slu.Symb
open Slu Slu.Struct Slu.Order

/-- **what `relax_end` records** (`relaxEndOf … false`, i.e. `relax_snode.c`, on a postordered heap-ordered
forest): `relaxEnd j = some k` only if `j ≤ k < n` and the columns `j..k` are exactly the subtree of `k`
(`relaxSnode_ranges`; entries outside `0..n-1` are EMPTY) -/
theorem relaxEndOf_subtrees (n relax : Nat) (et : Array Nat) (h : Heap n et)
    (hpost : ∀ v < n, ∃ lo, ∀ u < n, Desc n et u v ↔ lo ≤ u ∧ u ≤ v) :
    ∀ j k, relaxEndOf n relax et false j = some k →
      j ≤ k ∧ k < n ∧ ∀ u, u < n → (Desc n et u k ↔ j ≤ u ∧ u ≤ k) := by
  obtain ⟨hsz, _, hr, _⟩ := relaxSnode_ranges n relax et h hpost
  intro j k hjk
  simp only [relaxEndOf, Bool.false_eq_true, if_false] at hjk
  by_cases hj : j < n
  · rcases hr j hj with e | ⟨e, he, h1, h2, h3, _⟩
    · rw [e] at hjk; simp at hjk
    · rw [he] at hjk
      simp at hjk
      subst hjk
      exact ⟨h1, h2, h3⟩
  · have : (relaxSnode n relax et).2.getD j (-1) = -1 := by
      simp [Array.getD_eq_getD_getElem?, hsz, hj]
    rw [this] at hjk; simp at hjk

/-- **C03 (`RelaxOk`, any tree with `ShareDesc`).**  `et` heap ordered and postordered, two columns of `cols`
that share a row related in `et`, every pivot row `t < n` structurally nonzero in column `t`
(`RowFill n cols t t`; `rowFill_diag_of_LU` derives it from `U(t,t) ≠ 0`): the relaxed supernodes
`relax_snode` finds in `et` satisfy `RelaxOk` for `cols`. -/
theorem relaxOk_of_etree (n relax : Nat) (cols : Nat → List Nat) (et : Array Nat) (h : Heap n et)
    (hs : ShareDesc n cols et)
    (hpost : ∀ v < n, ∃ lo, ∀ u < n, Desc n et u v ↔ lo ≤ u ∧ u ≤ v)
    (hpiv : ∀ t, t < n → RowFill n cols t t) :
    RelaxOk n cols (relaxEndOf n relax et false) :=
  relaxOk_of_subtrees h hs hpiv (relaxEndOf_subtrees n relax et h hpost)

/-- **C03 (`RelaxOk` from the column elimination tree).**  `acol` = columns of `A·Pc` (original row numbers
`< nr`), `π` injective on the rows (`perm_r`), `et = coletree nr n acol` postordered, pivot rows structurally
nonzero: the relaxed supernodes of `relax_snode` on `et` have no entry of `Pr·A·Pc` in a row pivotal before
their first column. -/
theorem relaxOk_of_coletree (nr n relax : Nat) (acol : Nat → List Nat) (π : Nat → Nat)
    (hrow : ∀ c, c < n → ∀ i ∈ acol c, i < nr)
    (hπ : ∀ i, i < nr → ∀ i', i' < nr → π i = π i' → i = i')
    (hpost : ∀ v < n, ∃ lo, ∀ u < n, Desc n (coletree nr n acol) u v ↔ lo ≤ u ∧ u ≤ v)
    (hpiv : ∀ t, t < n → RowFill n (fun c => (acol c).map π) t t) :
    RelaxOk n (fun c => (acol c).map π) (relaxEndOf n relax (coletree nr n acol) false) :=
  relaxOk_of_etree n relax _ _ (coletree_heap nr n acol).2
    ((coletree_shareDesc nr n acol hrow).map_rows nr hrow π hπ) hpost hpiv

/-- **the tree `sp_preorder` returns fits the columns it returns**: in `(spPreorder A p false).etree`, of two
columns of the permuted view `A·Pc` that share a row the later one is an ancestor of the earlier one.  (The
returned tree is the postorder relabelling of `coletree` of the columns before postordering; this is the
part of "it is the column elimination tree of `A·Pc`" that the row-merge argument needs.) -/
theorem shareDesc_spPreorder (A : Pat) (p : Array Nat) (hp : isPerm A.n p = true)
    (hrow : ∀ r ∈ A.rowind.toList, r < A.m) :
    ShareDesc A.n ((spPreorder A p false).view A).col (spPreorder A p false).etree := by
  obtain ⟨_, hperm, _, hpc, hcol, _, hrel, hheap'⟩ := spPreorder_perm A p false hp
  obtain ⟨_, hplt, _, hpsurj⟩ := (isPerm_iff A.n p).mp hp
  obtain ⟨_, hqlt, _, hqsurj⟩ := (isPerm_iff A.n _).mp hperm
  have hrow' : ∀ c, c < A.n → ∀ r ∈ (permView A p).col c, r < A.m := by
    intro c _ r hr
    apply hrow
    unfold View.col slice at hr
    exact List.mem_of_mem_drop (List.mem_of_mem_take hr)
  refine shareDesc_relabel (q := fun j => (postOf A p false).getD j 0)
    (coletree_shareDesc A.m A.n (permView A p).col hrow') hheap' ?_ ?_ hrel ?_
  · intro j hj; have := hqlt j hj; rwa [firstN_getD _ _ _ hj] at this
  · intro c hc
    obtain ⟨j, hj, e⟩ := hqsurj c hc
    rw [firstN_getD _ _ _ hj] at e
    exact ⟨j, hj, e⟩
  · intro j hj
    obtain ⟨i, hi, e⟩ := hpsurj j hj
    have h1 := hcol i hi
    rw [hpc i hi, e] at h1
    obtain ⟨hb, he⟩ := permView_colbeg A p hp i hi
    rw [e] at hb he
    show ((spPreorder A p false).view A).col ((postOf A p false).getD j 0) = (permView A p).col j
    rw [h1]
    have hri : (permView A p).rowind = A.rowind := rfl
    simp only [View.col, Pat.col]
    rw [hb, he, hri]

/-- **C03 (`RelaxOk`, real inputs).**  For every stored pattern `A` (row indices `< m`), every column
permutation `p`, every `relax`, every injective `π` (`perm_r`), `SymmetricMode = NO`: with the view and the
tree `sp_preorder` returns, `relax_end = relax_snode(etree)` satisfies `RelaxOk` for `Pr·A·Pc`, provided every
pivot row is structurally nonzero in its pivot column. -/
theorem relaxOk_of_spPreorder (A : Pat) (p : Array Nat) (hp : isPerm A.n p = true)
    (hrow : ∀ r ∈ A.rowind.toList, r < A.m) (relax : Nat) (π : Nat → Nat)
    (hπ : ∀ i, i < A.m → ∀ i', i' < A.m → π i = π i' → i = i')
    (hpiv : ∀ t, t < A.n → RowFill A.n (fun c => (((spPreorder A p false).view A).col c).map π) t t) :
    RelaxOk A.n (fun c => (((spPreorder A p false).view A).col c).map π)
      (relaxEndOf A.n relax (spPreorder A p false).etree false) := by
  have hrow' : ∀ c, c < A.n → ∀ r ∈ ((spPreorder A p false).view A).col c, r < A.m := by
    intro c _ r hr
    apply hrow
    unfold View.col slice at hr
    exact List.mem_of_mem_drop (List.mem_of_mem_take hr)
  exact relaxOk_of_etree A.n relax _ _ (spPreorder_perm A p false hp).2.2.2.2.2.2.2
    ((shareDesc_spPreorder A p hp hrow).map_rows A.m hrow' π hπ) (spPreorder_subtrees A p hp) hpiv

/-- `symbNaive_contains_factors` with `RelaxOk` derived: any heap-ordered postordered `et` with `ShareDesc` -/
theorem symbNaive_contains_factors_etree {K : Type} [Field K] (n maxsuper relax : Nat) (B L U : Nat → Nat → K)
    (cols : Nat → List Nat) (et : Array Nat)
    (hcols : ∀ i < n, ∀ j < n, B i j ≠ 0 → i ∈ cols j)
    (hB : ∀ i < n, ∀ j < n, B i j = ∑ t ∈ Finset.range n, L i t * U t j)
    (hL1 : ∀ i < n, L i i = 1) (hL0 : ∀ i < n, ∀ t < n, i < t → L i t = 0)
    (hU0 : ∀ t < n, ∀ j < n, j < t → U t j = 0) (hUd : ∀ j < n, U j j ≠ 0)
    (hheap : Heap n et) (hshare : ShareDesc n cols et)
    (hpost : ∀ v < n, ∃ lo, ∀ u < n, Desc n et u v ↔ lo ≤ u ∧ u ≤ v) :
    let o := symbNaive n maxsuper cols (relaxEndOf n relax et false)
    ∀ j < n,
      (∀ i < n, L i j ≠ 0 → i ∈ (o.rows[o.supno[j]!]!).drop (j - o.xsup[o.supno[j]!]!)) ∧
      (∀ k < n, U k j ≠ 0 → k ∈ o.ucols[j]! ∨ (o.xsup[o.supno[j]!]! ≤ k ∧ k ≤ j)) :=
  symbNaive_contains_factors n maxsuper B L U cols _ hcols hB hL1 hL0 hU0 hUd
    (relaxOk_of_etree n relax cols et hheap hshare hpost
      (rowFill_diag_of_LU n B L U cols hcols hB hL1 hL0 hU0 hUd))

/-- **C03 (soundness of the predicted structure, column elimination tree).**  `symbNaive_contains_factors`
WITHOUT the hypothesis `RelaxOk`: `B = Pr·A·Pc = L·U` exactly over a field (L unit lower, U upper,
`U(j,j) ≠ 0`), `acol` the columns of `A·Pc` in original row numbers `< nr`, `π = perm_r` injective,
`relax_end` computed by `relax_snode` (`relaxEndOf … false`) from `et = coletree nr n acol`, `et` postordered
(`hpost`).  Then every nonzero of `L(:,j)` lies in the part of the predicted row list of `j`'s supernode
that column `j` stores, and every nonzero of `U(:,j)` in the predicted U rows of column `j` or in the
supernode's own block — for every `maxsuper` and every `relax`. -/
theorem symbNaive_contains_factors_coletree {K : Type} [Field K] (nr n maxsuper relax : Nat) (B L U : Nat → Nat → K)
    (acol : Nat → List Nat) (π : Nat → Nat)
    (hrow : ∀ c, c < n → ∀ i ∈ acol c, i < nr)
    (hπ : ∀ i, i < nr → ∀ i', i' < nr → π i = π i' → i = i')
    (hcols : ∀ i < n, ∀ j < n, B i j ≠ 0 → i ∈ (acol j).map π)
    (hB : ∀ i < n, ∀ j < n, B i j = ∑ t ∈ Finset.range n, L i t * U t j)
    (hL1 : ∀ i < n, L i i = 1) (hL0 : ∀ i < n, ∀ t < n, i < t → L i t = 0)
    (hU0 : ∀ t < n, ∀ j < n, j < t → U t j = 0) (hUd : ∀ j < n, U j j ≠ 0)
    (hpost : ∀ v < n, ∃ lo, ∀ u < n, Desc n (coletree nr n acol) u v ↔ lo ≤ u ∧ u ≤ v) :
    let o := symbNaive n maxsuper (fun c => (acol c).map π) (relaxEndOf n relax (coletree nr n acol) false)
    ∀ j < n,
      (∀ i < n, L i j ≠ 0 → i ∈ (o.rows[o.supno[j]!]!).drop (j - o.xsup[o.supno[j]!]!)) ∧
      (∀ k < n, U k j ≠ 0 → k ∈ o.ucols[j]! ∨ (o.xsup[o.supno[j]!]! ≤ k ∧ k ≤ j)) :=
  symbNaive_contains_factors_etree n maxsuper relax B L U _ _ hcols hB hL1 hL0 hU0 hUd
    (coletree_heap nr n acol).2 ((coletree_shareDesc nr n acol hrow).map_rows nr hrow π hπ) hpost

/-- **C03 (soundness of the predicted structure, real inputs of the symbolic phase).**  The same with the
tree and the column view `sp_preorder` returns for ANY pattern `A` and ANY column permutation `p`
(`SymmetricMode = NO`): no hypothesis about the tree is left — heap order, postorder, "is the column
elimination tree" and "relaxed supernodes are whole subtrees" are theorems of C10. -/
theorem symbNaive_contains_factors_spPreorder {K : Type} [Field K] (A : Pat) (p : Array Nat) (maxsuper relax : Nat)
    (B L U : Nat → Nat → K) (π : Nat → Nat)
    (hp : isPerm A.n p = true) (hrow : ∀ r ∈ A.rowind.toList, r < A.m)
    (hπ : ∀ i, i < A.m → ∀ i', i' < A.m → π i = π i' → i = i')
    (hcols : ∀ i < A.n, ∀ j < A.n, B i j ≠ 0 → i ∈ (((spPreorder A p false).view A).col j).map π)
    (hB : ∀ i < A.n, ∀ j < A.n, B i j = ∑ t ∈ Finset.range A.n, L i t * U t j)
    (hL1 : ∀ i < A.n, L i i = 1) (hL0 : ∀ i < A.n, ∀ t < A.n, i < t → L i t = 0)
    (hU0 : ∀ t < A.n, ∀ j < A.n, j < t → U t j = 0) (hUd : ∀ j < A.n, U j j ≠ 0) :
    let o := symbNaive A.n maxsuper (fun c => (((spPreorder A p false).view A).col c).map π)
      (relaxEndOf A.n relax (spPreorder A p false).etree false)
    ∀ j < A.n,
      (∀ i < A.n, L i j ≠ 0 → i ∈ (o.rows[o.supno[j]!]!).drop (j - o.xsup[o.supno[j]!]!)) ∧
      (∀ k < A.n, U k j ≠ 0 → k ∈ o.ucols[j]! ∨ (o.xsup[o.supno[j]!]! ≤ k ∧ k ≤ j)) := by
  have hrow' : ∀ c, c < A.n → ∀ r ∈ ((spPreorder A p false).view A).col c, r < A.m := by
    intro c _ r hr
    apply hrow
    unfold View.col slice at hr
    exact List.mem_of_mem_drop (List.mem_of_mem_take hr)
  exact symbNaive_contains_factors_etree A.n maxsuper relax B L U _ _ hcols hB hL1 hL0 hU0 hUd
    (spPreorder_perm A p false hp).2.2.2.2.2.2.2
    ((shareDesc_spPreorder A p hp hrow).map_rows A.m hrow' π hπ) (spPreorder_subtrees A p hp)

/-- **C03 (soundness of the predicted structure, numeric model, column elimination tree).**
`symbNaive_contains_numeric` without `RelaxOk`: rows already in pivot numbering (`piv k = k`), `cols` any
pattern with row indices `< m` covering the nonzeros of the matrix, `relax_end` from `relax_snode` on
`coletree m n cols`, postordered. -/
theorem symbNaive_contains_numeric_coletree {K : Type} [Field K] [Mag K Rat] (laws : LU.MagLaws K) (P : LU.Params K Rat)
    (hu0 : 0 ≤ P.u) (hu1 : P.u ≤ 1) (hcol : ∀ j, (P.col j).size = P.m) (hsq : P.m = P.n) (b : Bool)
    (hinfo : (LU.luFactor P b).info = 0) (hpiv : ∀ k < P.n, (LU.luFactor P b).piv.getD k 0 = k)
    (maxsuper relax : Nat) (cols : Nat → List Nat)
    (hcols : ∀ i < P.n, ∀ j < P.n, (P.col j).get i ≠ 0 → i ∈ cols j)
    (hrow : ∀ c, c < P.n → ∀ i ∈ cols c, i < P.m)
    (hpost : ∀ v < P.n, ∃ lo, ∀ u < P.n, Desc P.n (coletree P.m P.n cols) u v ↔ lo ≤ u ∧ u ≤ v) :
    let o := symbNaive P.n maxsuper cols (relaxEndOf P.n relax (coletree P.m P.n cols) false)
    ∀ j < P.n,
      (∀ i, ((LU.luFactor P b).L.getD j #[]).get i ≠ 0 → i ∈ (o.rows[o.supno[j]!]!).drop (j - o.xsup[o.supno[j]!]!)) ∧
      (∀ k, ((LU.luFactor P b).U.getD j #[]).getD k 0 ≠ 0 → k ∈ o.ucols[j]! ∨ (o.xsup[o.supno[j]!]! ≤ k ∧ k ≤ j)) := by
  refine symbNaive_contains_numeric laws P hu0 hu1 hcol hsq b hinfo hpiv maxsuper cols _ hcols ?_
  have hinfo' := hinfo
  have hpiv' := hpiv
  rw [LU.luFactor_eq_run] at hinfo' hpiv'
  have inv := LU.run_inv laws P hu0 hu1 hcol b P.n hinfo'
  obtain ⟨hL1, hL0⟩ := LU.inv_entL P _ P.n inv hpiv'
  obtain ⟨hU0, hUd⟩ := LU.inv_entU P _ P.n inv
  exact relaxOk_of_etree P.n relax cols _ (coletree_heap P.m P.n cols).2
    (coletree_shareDesc P.m P.n cols hrow) hpost
    (rowFill_diag_of_LU P.n (fun i j => (P.col j).get i) (LU.entL _) (LU.entU _) cols hcols
      (LU.inv_product P _ P.n hsq inv) hL1 hL0 hU0 hUd)

/-! non-vacuity: a 5x5 matrix whose column elimination tree has two leaf subtrees `{0,1}`, `{2,3}` under the
root 4; `relax = 2` makes both relaxed supernodes of two columns.  `perm_r = (1 0 3 2 4)` is not the identity.

    pivot numbering                      original row numbers of the columns (`rxAcol`)
        1 1 . . .                        col 0: {0,1}   col 1: {0,1,4}   col 2: {2,3}   col 3: {2,3}   col 4: {0,2,4}
        1 2 . . 1
    B = . . 1 1 .   = L·U,  L = I + E(1,0) + E(3,2) + E(4,1),  U = I + E(0,1) + E(1,4) + E(2,3) + E(3,4)
        . . 1 2 1
        . 1 . . 2                                                                                      -/
def rxAcol : Nat → List Nat
  | 0 => [0, 1]
  | 1 => [0, 1, 4]
  | 2 => [2, 3]
  | 3 => [2, 3]
  | _ => [0, 2, 4]

def rxPi : Nat → Nat := fun i => [1, 0, 3, 2, 4].getD i i

def rxMat (rows : List (List Rat)) : Nat → Nat → Rat := fun i j => (rows.getD i []).getD j 0
def rxB := rxMat [[1,1,0,0,0],[1,2,0,0,1],[0,0,1,1,0],[0,0,1,2,1],[0,1,0,0,2]]
def rxL := rxMat [[1,0,0,0,0],[1,1,0,0,0],[0,0,1,0,0],[0,0,1,1,0],[0,1,0,0,1]]
def rxU := rxMat [[1,1,0,0,0],[0,1,0,0,1],[0,0,1,1,0],[0,0,0,1,1],[0,0,0,0,1]]

/-- the tree, and the two relaxed supernodes `[0..1]`, `[2..3]` -/
example : coletree 5 5 rxAcol = #[1, 4, 3, 4, 5] := by decide +kernel
example : (List.range 5).map (relaxEndOf 5 2 (coletree 5 5 rxAcol) false) = [some 1, none, some 3, none, none] := by
  decide +kernel

/-- the tree is postordered: the subtrees are `0..0`, `0..1`, `2..2`, `2..3`, `0..4` -/
theorem rx_post : ∀ v < 5, ∃ lo, ∀ u < 5, Desc 5 (coletree 5 5 rxAcol) u v ↔ lo ≤ u ∧ u ≤ v := by
  intro v hv
  refine ⟨[0, 0, 2, 2, 0].getD v 0, fun u hu => ?_⟩
  rw [desc_iff_mem_order (coletree_heap 5 5 rxAcol).2 (Nat.le_of_lt hv)]
  revert v u
  decide +kernel

/-- every hypothesis of `symbNaive_contains_factors_coletree` holds for this matrix … -/
theorem rx_contains :
    let o := symbNaive 5 3 (fun c => (rxAcol c).map rxPi) (relaxEndOf 5 2 (coletree 5 5 rxAcol) false)
    ∀ j < 5,
      (∀ i < 5, rxL i j ≠ 0 → i ∈ (o.rows[o.supno[j]!]!).drop (j - o.xsup[o.supno[j]!]!)) ∧
      (∀ k < 5, rxU k j ≠ 0 → k ∈ o.ucols[j]! ∨ (o.xsup[o.supno[j]!]! ≤ k ∧ k ≤ j)) :=
  symbNaive_contains_factors_coletree 5 5 3 2 rxB rxL rxU rxAcol rxPi (by decide) (by decide) (by decide +kernel)
    (by decide +kernel) (by decide +kernel) (by decide +kernel) (by decide +kernel) (by decide +kernel) rx_post

/-- … the prediction has the two relaxed supernodes and the singleton `{4}`, and so does `RelaxOk` (derived,
not assumed; it says e.g. that columns 2, 3 have no entry in the rows 0, 1) -/
example :
    let o := symbNaive 5 3 (fun c => (rxAcol c).map rxPi) (relaxEndOf 5 2 (coletree 5 5 rxAcol) false)
    o.xsup = [0, 2, 4, 5] ∧ o.rows = [[0, 1, 4], [2, 3], [4]] ∧ o.ucols = [[], [], [], [], [0, 1, 2, 3]] := by
  decide +kernel
example : RelaxOk 5 (fun c => (rxAcol c).map rxPi) (relaxEndOf 5 2 (coletree 5 5 rxAcol) false) :=
  relaxOk_of_coletree 5 5 2 rxAcol rxPi (by decide) (by decide) rx_post
    (rowFill_diag_of_LU 5 rxB rxL rxU _ (by decide +kernel) (by decide +kernel) (by decide +kernel)
      (by decide +kernel) (by decide +kernel) (by decide +kernel))

/-- the same through `sp_preorder`: `rxA` stores the five columns in the order 4,0,1,2,3 and `p = (4 0 1 2 3)`
puts them back; every hypothesis of `symbNaive_contains_factors_spPreorder` is decided, none is about the tree -/
def rxA : Pat := { m := 5, n := 5, colptr := #[0, 3, 5, 8, 10, 12], rowind := #[0, 2, 4, 0, 1, 0, 1, 4, 2, 3, 2, 3] }

example : (spPreorder rxA #[4, 0, 1, 2, 3] false).etree = #[1, 4, 3, 4, 5] ∧
    (spPreorder rxA #[4, 0, 1, 2, 3] false).permc = #[4, 0, 1, 2, 3] := by decide +kernel

example :
    let o := symbNaive 5 3 (fun c => (((spPreorder rxA #[4, 0, 1, 2, 3] false).view rxA).col c).map rxPi)
      (relaxEndOf 5 2 (spPreorder rxA #[4, 0, 1, 2, 3] false).etree false)
    ∀ j < 5,
      (∀ i < 5, rxL i j ≠ 0 → i ∈ (o.rows[o.supno[j]!]!).drop (j - o.xsup[o.supno[j]!]!)) ∧
      (∀ k < 5, rxU k j ≠ 0 → k ∈ o.ucols[j]! ∨ (o.xsup[o.supno[j]!]! ≤ k ∧ k ≤ j)) :=
  symbNaive_contains_factors_spPreorder rxA #[4, 0, 1, 2, 3] 3 2 rxB rxL rxU rxPi (by decide) (by decide) (by decide)
    (by decide +kernel) (by decide +kernel) (by decide +kernel) (by decide +kernel) (by decide +kernel) (by decide +kernel)

/-- the hypothesis "the tree is the column elimination tree of the factored columns" cannot be dropped: with
the rows of column 3 moved to `{0,3}` the SAME tree `#[1,4,3,4,5]` (heap ordered, postordered, same relaxed
supernodes) no longer has `ShareDesc` — columns 0 and 3 share row 0 but 3 is not an ancestor of 0 — and
`RelaxOk` fails: column 3 of the supernode `[2..3]` has an entry in pivot row 1 -/
def rxBad : Nat → List Nat
  | 3 => [0, 3]
  | c => rxAcol c
example : ¬ RelaxOk 5 (fun c => (rxBad c).map rxPi) (relaxEndOf 5 2 (coletree 5 5 rxAcol) false) := by
  intro h
  have := h 2 3 (by decide +kernel) 3 (by decide) (by decide) 1 (by decide)
  omega
example : ¬ ShareDesc 5 rxBad (coletree 5 5 rxAcol) := by
  intro h
  have hd := h 0 3 (by decide) (by decide) ⟨0, by decide, by decide⟩
  rw [desc_iff_mem_order (coletree_heap 5 5 rxAcol).2 (by decide)] at hd
  revert hd
  decide +kernel

/-! ### SymmetricMode: `heap_relax_snode`

With `options.SymmetricMode = YES`, `sp_preorder` does not postorder: it returns the column elimination tree of
`A·Pc` exactly as `sp_coletree` computes it (`spPreorder A p true`; the model is compared with sp_preorder.c on
every run and `spPreorder_perm` covers both settings) and `relax_end` comes from `heap_relax_snode`
(`relaxEndOf … true`).  The tree is still the COLUMN elimination tree of the factored columns — it is the
column ORDERING that SymmetricMode takes from `A + Aᵀ` (`get_perm_c`, MMD_AT_PLUS_A), not the tree — so
`ShareDesc` holds without any relabelling (`coletree_shareDesc`), and `heapRelaxSnode_ranges` (C10: on ANY
heap-ordered forest every recorded supernode is exactly a subtree) replaces `relaxSnode_ranges` +
`spPreorder_subtrees`.  `relaxOk_of_subtrees` never needed a postordered tree.  Hence the `_sym` theorems
below hold for EVERY pattern, every row permutation and every `relax`, with no symmetry hypothesis.

What would NOT hold is the same with the elimination tree of `A + Aᵀ` (`sp_symetree` of `at_plus_a`) in place
of the column elimination tree: that tree bounds the structure only when the pivots stay on the diagonal.
`relaxOk_symetree_fails` is a 3×3 pattern with an exact factorization under a row interchange in which a
relaxed supernode that is a whole subtree of the `A + Aᵀ` tree has an entry above itself;
`relaxOk_of_entryDesc` / `relaxOk_of_symetree_diag` is the version that does hold: rows in their original
numbering (pivots on the diagonal), any pattern — structurally symmetric or not — whose entries above the
diagonal are edges of the graph the tree was computed from. -/

/-- **what `relax_end` records in SymmetricMode** (`relaxEndOf … true`, i.e. heap_relax_snode.c, on ANY
heap-ordered forest): `relaxEnd j = some k` only if `j ≤ k < n` and the columns `j..k` are exactly the subtree
of `k` (`heapRelaxSnode_ranges`) -/
theorem relaxEndOf_subtrees_sym (n relax : Nat) (et : Array Nat) (h : Heap n et) :
    ∀ j k, relaxEndOf n relax et true j = some k →
      j ≤ k ∧ k < n ∧ ∀ u, u < n → (Desc n et u k ↔ j ≤ u ∧ u ≤ k) := by
  obtain ⟨hsz, hr, _⟩ := heapRelaxSnode_ranges n relax et h
  intro j k hjk
  simp only [relaxEndOf, if_true] at hjk
  by_cases hj : j < n
  · rcases hr j hj with e | ⟨e, he, h1, h2, h3, _⟩
    · rw [e] at hjk; simp at hjk
    · rw [he] at hjk
      simp at hjk
      subst hjk
      exact ⟨h1, h2, h3⟩
  · have : (heapRelaxSnode n relax et).2.getD j (-1) = -1 := by
      simp [Array.getD_eq_getD_getElem?, hsz, hj]
    rw [this] at hjk; simp at hjk

/-- **C03 (`RelaxOk`, SymmetricMode, any tree with `ShareDesc`).**  `et` heap ordered — NOT necessarily
postordered — two columns of `cols` that share a row related in `et`, every pivot row structurally nonzero in
its pivot column: the relaxed supernodes `heap_relax_snode` finds in `et` satisfy `RelaxOk` for `cols`. -/
theorem relaxOk_of_etree_sym (n relax : Nat) (cols : Nat → List Nat) (et : Array Nat) (h : Heap n et)
    (hs : ShareDesc n cols et) (hpiv : ∀ t, t < n → RowFill n cols t t) :
    RelaxOk n cols (relaxEndOf n relax et true) :=
  relaxOk_of_subtrees h hs hpiv (relaxEndOf_subtrees_sym n relax et h)

/-- **C03 (`RelaxOk` from the column elimination tree, SymmetricMode).**  As `relaxOk_of_coletree`, for
`heap_relax_snode`, without the hypothesis that the tree is postordered. -/
theorem relaxOk_of_coletree_sym (nr n relax : Nat) (acol : Nat → List Nat) (π : Nat → Nat)
    (hrow : ∀ c, c < n → ∀ i ∈ acol c, i < nr)
    (hπ : ∀ i, i < nr → ∀ i', i' < nr → π i = π i' → i = i')
    (hpiv : ∀ t, t < n → RowFill n (fun c => (acol c).map π) t t) :
    RelaxOk n (fun c => (acol c).map π) (relaxEndOf n relax (coletree nr n acol) true) :=
  relaxOk_of_etree_sym n relax _ _ (coletree_heap nr n acol).2
    ((coletree_shareDesc nr n acol hrow).map_rows nr hrow π hπ) hpiv

/-- in SymmetricMode `sp_preorder` returns the permuted view and its column elimination tree unchanged -/
theorem spPreorder_sym_view (A : Pat) (p : Array Nat) :
    (spPreorder A p true).view A = permView A p ∧
    (spPreorder A p true).etree = coletree A.m A.n (permView A p).col := ⟨rfl, rfl⟩

/-- **the tree `sp_preorder` returns in SymmetricMode fits the columns it returns** (no relabelling) -/
theorem shareDesc_spPreorder_sym (A : Pat) (p : Array Nat) (hrow : ∀ r ∈ A.rowind.toList, r < A.m) :
    ShareDesc A.n ((spPreorder A p true).view A).col (spPreorder A p true).etree := by
  rw [(spPreorder_sym_view A p).1, (spPreorder_sym_view A p).2]
  apply coletree_shareDesc
  intro c _ r hr
  apply hrow
  unfold View.col slice at hr
  exact List.mem_of_mem_drop (List.mem_of_mem_take hr)

/-- **C03 (`RelaxOk`, real inputs, SymmetricMode).**  For every stored pattern `A` (row indices `< m`), every
column ordering `p` (not even required to be a permutation), every `relax`, every injective `π` (`perm_r`):
with the view and the tree `sp_preorder` returns in SymmetricMode, `relax_end = heap_relax_snode(etree)`
satisfies `RelaxOk` for `Pr·A·Pc`, provided every pivot row is structurally nonzero in its pivot column. -/
theorem relaxOk_of_spPreorder_sym (A : Pat) (p : Array Nat)
    (hrow : ∀ r ∈ A.rowind.toList, r < A.m) (relax : Nat) (π : Nat → Nat)
    (hπ : ∀ i, i < A.m → ∀ i', i' < A.m → π i = π i' → i = i')
    (hpiv : ∀ t, t < A.n → RowFill A.n (fun c => (((spPreorder A p true).view A).col c).map π) t t) :
    RelaxOk A.n (fun c => (((spPreorder A p true).view A).col c).map π)
      (relaxEndOf A.n relax (spPreorder A p true).etree true) := by
  have hrow' : ∀ c, c < A.n → ∀ r ∈ ((spPreorder A p true).view A).col c, r < A.m := by
    intro c _ r hr
    apply hrow
    unfold View.col slice at hr
    exact List.mem_of_mem_drop (List.mem_of_mem_take hr)
  have hheap : Heap A.n (spPreorder A p true).etree := by
    rw [(spPreorder_sym_view A p).2]; exact (coletree_heap _ _ _).2
  exact relaxOk_of_etree_sym A.n relax _ _ hheap
    ((shareDesc_spPreorder_sym A p hrow).map_rows A.m hrow' π hπ) hpiv

/-- `symbNaive_contains_factors` with `RelaxOk` derived, SymmetricMode: any heap-ordered `et` with `ShareDesc`,
no postorder hypothesis -/
theorem symbNaive_contains_factors_etree_sym {K : Type} [Field K] (n maxsuper relax : Nat) (B L U : Nat → Nat → K)
    (cols : Nat → List Nat) (et : Array Nat)
    (hcols : ∀ i < n, ∀ j < n, B i j ≠ 0 → i ∈ cols j)
    (hB : ∀ i < n, ∀ j < n, B i j = ∑ t ∈ Finset.range n, L i t * U t j)
    (hL1 : ∀ i < n, L i i = 1) (hL0 : ∀ i < n, ∀ t < n, i < t → L i t = 0)
    (hU0 : ∀ t < n, ∀ j < n, j < t → U t j = 0) (hUd : ∀ j < n, U j j ≠ 0)
    (hheap : Heap n et) (hshare : ShareDesc n cols et) :
    let o := symbNaive n maxsuper cols (relaxEndOf n relax et true)
    ∀ j < n,
      (∀ i < n, L i j ≠ 0 → i ∈ (o.rows[o.supno[j]!]!).drop (j - o.xsup[o.supno[j]!]!)) ∧
      (∀ k < n, U k j ≠ 0 → k ∈ o.ucols[j]! ∨ (o.xsup[o.supno[j]!]! ≤ k ∧ k ≤ j)) :=
  symbNaive_contains_factors n maxsuper B L U cols _ hcols hB hL1 hL0 hU0 hUd
    (relaxOk_of_etree_sym n relax cols et hheap hshare
      (rowFill_diag_of_LU n B L U cols hcols hB hL1 hL0 hU0 hUd))

/-- **C03 (soundness of the predicted structure, real inputs of the symbolic phase, SymmetricMode).**
`symbNaive_contains_factors_spPreorder` for `SymmetricMode = YES`: the tree and the column view are what
`sp_preorder` returns without postordering, `relax_end` is computed by `heap_relax_snode`.  ANY pattern `A`
(no structural symmetry assumed), ANY column ordering, ANY injective row permutation `π` (the pivots need not
be on the diagonal), `B = Pr·A·Pc = L·U` exactly with nonzero pivots: every nonzero of `L(:,j)` and `U(:,j)`
lies in the predicted structure.  No hypothesis about the tree is left. -/
theorem symbNaive_contains_factors_spPreorder_sym {K : Type} [Field K] (A : Pat) (p : Array Nat)
    (maxsuper relax : Nat) (B L U : Nat → Nat → K) (π : Nat → Nat)
    (hrow : ∀ r ∈ A.rowind.toList, r < A.m)
    (hπ : ∀ i, i < A.m → ∀ i', i' < A.m → π i = π i' → i = i')
    (hcols : ∀ i < A.n, ∀ j < A.n, B i j ≠ 0 → i ∈ (((spPreorder A p true).view A).col j).map π)
    (hB : ∀ i < A.n, ∀ j < A.n, B i j = ∑ t ∈ Finset.range A.n, L i t * U t j)
    (hL1 : ∀ i < A.n, L i i = 1) (hL0 : ∀ i < A.n, ∀ t < A.n, i < t → L i t = 0)
    (hU0 : ∀ t < A.n, ∀ j < A.n, j < t → U t j = 0) (hUd : ∀ j < A.n, U j j ≠ 0) :
    let o := symbNaive A.n maxsuper (fun c => (((spPreorder A p true).view A).col c).map π)
      (relaxEndOf A.n relax (spPreorder A p true).etree true)
    ∀ j < A.n,
      (∀ i < A.n, L i j ≠ 0 → i ∈ (o.rows[o.supno[j]!]!).drop (j - o.xsup[o.supno[j]!]!)) ∧
      (∀ k < A.n, U k j ≠ 0 → k ∈ o.ucols[j]! ∨ (o.xsup[o.supno[j]!]! ≤ k ∧ k ≤ j)) := by
  have hrow' : ∀ c, c < A.n → ∀ r ∈ ((spPreorder A p true).view A).col c, r < A.m := by
    intro c _ r hr
    apply hrow
    unfold View.col slice at hr
    exact List.mem_of_mem_drop (List.mem_of_mem_take hr)
  have hheap : Heap A.n (spPreorder A p true).etree := by
    rw [(spPreorder_sym_view A p).2]; exact (coletree_heap _ _ _).2
  exact symbNaive_contains_factors_etree_sym A.n maxsuper relax B L U _ _ hcols hB hL1 hL0 hU0 hUd hheap
    ((shareDesc_spPreorder_sym A p hrow).map_rows A.m hrow' π hπ)

/-! non-vacuity (SymmetricMode): the matrix `rxB` with rows and columns 1,2,3 rotated (old 2,3,1), so that the
factors stay triangular: `syB = syL·syU`; `perm_r = (1 0 3 2 4)` as before.  Columns of `A·Pc` in original row
numbers: {1,2}, {0,3}, {0,3}, {1,2,4}, {2,3,4}.  Their column elimination tree `[3,2,4,4,5]` (0→3→4, 1→2→4) is
heap ordered and NOT postordered: the subtree of 3 is `{0,3}`.  `relax = 2`: the subtree `{1,2}` of 2 passes the
contiguity test and becomes the relaxed supernode `[1..2]`; the subtree `{0,3}` of 3 fails it, its leaf 0 is
recorded alone.  `syA` stores the five columns in the order 4,0,1,2,3 and `p = (4 0 1 2 3)` puts them back. -/
def syA : Pat := { m := 5, n := 5, colptr := #[0, 3, 5, 7, 9, 12], rowind := #[2, 3, 4, 1, 2, 0, 3, 0, 3, 1, 2, 4] }
def syB := rxMat [[1,0,0,1,0],[0,1,1,0,0],[0,1,2,0,1],[1,0,0,2,1],[0,0,0,1,2]]
def syL := rxMat [[1,0,0,0,0],[0,1,0,0,0],[0,1,1,0,0],[1,0,0,1,0],[0,0,0,1,1]]
def syU := rxMat [[1,0,0,1,0],[0,1,1,0,0],[0,0,1,0,1],[0,0,0,1,1],[0,0,0,0,1]]

example : (spPreorder syA #[4, 0, 1, 2, 3] true).etree = #[3, 2, 4, 4, 5] := by decide +kernel
example : (List.range 5).map (relaxEndOf 5 2 (spPreorder syA #[4, 0, 1, 2, 3] true).etree true) =
    [some 0, some 2, none, none, none] := by decide +kernel
/-- the tree is not postordered: 1 and 2 lie between 0 and 3 and are no descendants of 3 -/
example : ¬ ∀ v < 5, ∃ lo, ∀ u < 5, Desc 5 (spPreorder syA #[4, 0, 1, 2, 3] true).etree u v ↔ lo ≤ u ∧ u ≤ v := by
  intro hp
  obtain ⟨lo, hlo⟩ := hp 3 (by decide)
  have hheap : Heap 5 (spPreorder syA #[4, 0, 1, 2, 3] true).etree := (coletree_heap _ _ _).2
  have e3 : (spPreorder syA #[4, 0, 1, 2, 3] true).etree.getD 0 0 = 3 := by decide +kernel
  have h1 : Desc 5 (spPreorder syA #[4, 0, 1, 2, 3] true).etree 0 3 :=
    Desc.step (by decide) (by rw [e3]; exact Desc.refl _)
  have h2 := (hlo 2 (by decide)).mpr ⟨by have := ((hlo 0 (by decide)).mp h1).1; omega, by decide⟩
  rw [desc_iff_mem_order hheap (by decide)] at h2
  revert h2
  decide +kernel

/-- every hypothesis of `symbNaive_contains_factors_spPreorder_sym` is decided, none is about the tree … -/
example :
    let o := symbNaive 5 3 (fun c => (((spPreorder syA #[4, 0, 1, 2, 3] true).view syA).col c).map rxPi)
      (relaxEndOf 5 2 (spPreorder syA #[4, 0, 1, 2, 3] true).etree true)
    ∀ j < 5,
      (∀ i < 5, syL i j ≠ 0 → i ∈ (o.rows[o.supno[j]!]!).drop (j - o.xsup[o.supno[j]!]!)) ∧
      (∀ k < 5, syU k j ≠ 0 → k ∈ o.ucols[j]! ∨ (o.xsup[o.supno[j]!]! ≤ k ∧ k ≤ j)) :=
  symbNaive_contains_factors_spPreorder_sym syA #[4, 0, 1, 2, 3] 3 2 syB syL syU rxPi (by decide) (by decide)
    (by decide +kernel) (by decide +kernel) (by decide +kernel) (by decide +kernel) (by decide +kernel) (by decide +kernel)

/-- … and the prediction does contain the relaxed supernode `[1..2]` -/
example :
    let o := symbNaive 5 3 (fun c => (((spPreorder syA #[4, 0, 1, 2, 3] true).view syA).col c).map rxPi)
      (relaxEndOf 5 2 (spPreorder syA #[4, 0, 1, 2, 3] true).etree true)
    o.xsup = [0, 1, 3, 5] ∧ o.rows = [[0, 3], [1, 2], [3, 4]] ∧ o.ucols = [[], [], [], [0], [1, 2]] := by
  decide +kernel

/-! #### the elimination tree of `A + Aᵀ` instead of the column elimination tree

`exS`: columns {2}, {1,2}, {0,2} (original rows).  `A + Aᵀ` has the edges 0–2, 1–2, its elimination tree is
`[2,2,3]` (two leaves 0, 1 under the root 2) and with `relax = 1` heap_relax_snode records the two leaves as
supernodes `[0..0]`, `[1..1]` — each a whole subtree.  With the row permutation `perm_r = (2 1 0)` (row 2 is
the pivot row of column 0), `B = Pr·A = [[1,1,1],[0,1,0],[0,0,1]]` is unit upper triangular, so `B = I·B` is an
exact factorization with nonzero pivots.  Column 1 of the supernode `[1..1]` has the entry `B(0,1)` ABOVE the
supernode: `RelaxOk` is false.  (The column elimination tree of the same columns is the chain `[1,2,3]`, all
three columns share row 2, and there `[1..1]` is not recorded: `RelaxOk` holds, as `relaxOk_of_coletree_sym`
says.) -/
def exS : Pat := { m := 3, n := 3, colptr := #[0, 1, 3, 5], rowind := #[2, 1, 2, 0, 2] }
def exSPi : Nat → Nat := fun i => [2, 1, 0].getD i i

example : symetree 3 (atPlusA exS).col = #[2, 2, 3] ∧ coletree 3 3 exS.col = #[1, 2, 3] := by decide +kernel
example : (List.range 3).map (relaxEndOf 3 1 (symetree 3 (atPlusA exS).col) true) = [some 0, some 1, none] ∧
    (List.range 3).map (relaxEndOf 3 1 (coletree 3 3 exS.col) true) = [some 0, none, none] := by decide +kernel
/-- the supernode `[1..1]` IS a whole subtree of the tree of `A + Aᵀ` -/
example : ∀ u, u < 3 → (Desc 3 (symetree 3 (atPlusA exS).col) u 1 ↔ 1 ≤ u ∧ u ≤ 1) :=
  (relaxEndOf_subtrees_sym 3 1 _ (symetree_heap 3 _).2 1 1 (by decide +kernel)).2.2
/-- every pivot row of `B = Pr·A` is structurally nonzero in its pivot column (the diagonal of `B` is stored) -/
example : ∀ t, t < 3 → RowFill 3 (fun c => (exS.col c).map exSPi) t t := by
  intro t ht
  refine RowFill.orig ht ?_
  revert t
  decide
/-- **a whole subtree of the `A + Aᵀ` tree with an entry above itself**: column 1 has an entry in pivot row 0 -/
theorem relaxOk_symetree_fails :
    ¬ RelaxOk 3 (fun c => (exS.col c).map exSPi) (relaxEndOf 3 1 (symetree 3 (atPlusA exS).col) true) := by
  intro h
  have := h 1 1 (by decide +kernel) 1 (by decide) (by decide) 0 (by decide)
  omega
/-- with the column elimination tree of the same columns `RelaxOk` holds (derived, not evaluated) -/
example : RelaxOk 3 (fun c => (exS.col c).map exSPi) (relaxEndOf 3 1 (coletree 3 3 exS.col) true) :=
  relaxOk_of_coletree_sym 3 3 1 exS.col exSPi (by decide) (by decide)
    (fun t ht => RowFill.orig ht (by revert t; decide))

/-- **what does hold for the tree of `A + Aᵀ`: pivots on the diagonal.**  For EVERY pattern `A` (structurally
symmetric or not), rows in their own numbering (no row interchange), every `relax`: the supernodes that
heap_relax_snode records in the elimination tree of `A + Aᵀ` (`sp_symetree` of `at_plus_a`) have no entry
above themselves. -/
theorem relaxOk_of_symetree_diag (A : Pat) (relax : Nat) :
    RelaxOk A.n A.col (relaxEndOf A.n relax (symetree A.n (atPlusA A).col) true) := by
  obtain ⟨_, _, _, _, _, _, hmem⟩ := atPlusA_spec A
  refine relaxOk_of_entryDesc (entryDesc_symetree A.n (atPlusA A).col A.col ?_ ?_)
    (relaxEndOf_subtrees_sym A.n relax _ (symetree_heap A.n _).2)
  · intro i j hi hj hij
    obtain ⟨h1, h2⟩ := (hmem j hj i).mp hij
    refine (hmem i hi j).mpr ⟨fun e => h1 e.symm, ?_⟩
    rcases h2 with h2 | ⟨_, h2⟩
    · exact Or.inr ⟨hj, h2⟩
    · exact Or.inl h2
  · intro c hc r hr hrc
    exact (hmem c hc r).mpr ⟨by omega, Or.inl hr⟩

/-- hence, with pivots on the diagonal (`A = L·U` exactly, no row interchange), the prediction made with the
relaxed supernodes of the `A + Aᵀ` tree contains the factors — any pattern -/
theorem symbNaive_contains_factors_symetree_diag {K : Type} [Field K] (A : Pat) (maxsuper relax : Nat)
    (B L U : Nat → Nat → K)
    (hcols : ∀ i < A.n, ∀ j < A.n, B i j ≠ 0 → i ∈ A.col j)
    (hB : ∀ i < A.n, ∀ j < A.n, B i j = ∑ t ∈ Finset.range A.n, L i t * U t j)
    (hL1 : ∀ i < A.n, L i i = 1) (hL0 : ∀ i < A.n, ∀ t < A.n, i < t → L i t = 0)
    (hU0 : ∀ t < A.n, ∀ j < A.n, j < t → U t j = 0) (hUd : ∀ j < A.n, U j j ≠ 0) :
    let o := symbNaive A.n maxsuper A.col (relaxEndOf A.n relax (symetree A.n (atPlusA A).col) true)
    ∀ j < A.n,
      (∀ i < A.n, L i j ≠ 0 → i ∈ (o.rows[o.supno[j]!]!).drop (j - o.xsup[o.supno[j]!]!)) ∧
      (∀ k < A.n, U k j ≠ 0 → k ∈ o.ucols[j]! ∨ (o.xsup[o.supno[j]!]! ≤ k ∧ k ≤ j)) :=
  symbNaive_contains_factors A.n maxsuper B L U A.col _ hcols hB hL1 hL0 hU0 hUd (relaxOk_of_symetree_diag A relax)

/-- non-vacuity: on `exS` itself (unsymmetric) without the row interchange the statement applies -/
example : RelaxOk 3 exS.col (relaxEndOf 3 1 (symetree 3 (atPlusA exS).col) true) := relaxOk_of_symetree_diag exS 1

end Slu.Symb

/-! ## Array-level routines of the symbolic factorization (Slu/Model/SymbArrays.lean; family `symbarr`)

The three routines below are compared with the C code by DIRECT calls (family `symbarr`); the theorems hold for
all array contents satisfying the explicit decidable well-formedness predicates. -/
namespace Slu.SymbArr
open Slu Slu.Struct

/-- **dsnode_dfs.c**: the subscripts of the relaxed supernode `jcol..kcol` (first copy, `lsub[xlsub[jcol] ..)`) are
the rows of its columns in first-seen order; no duplicates. -/
theorem snodeDfs_nodup {jcol kcol : Nat} {asub xaB xaE : Array Nat} {marker : Array Int} {lsub xlsub xprune : Array Nat}
    (xsup : Array Nat) (supno : Array Int) (h : SnodeWf jcol kcol asub xaB xaE marker lsub xlsub xprune) :
    let o := snodeDfs jcol kcol asub xaB xaE xprune marker xsup supno lsub xlsub
    let len := (markerFilter (snodeRows jcol kcol asub xaB xaE) []).length
    (segList o.lsub (xlsub.getD jcol 0) len).Nodup := by
  intro o len
  have := (snodeDfs_main xsup supno h).1
  show (segList o.lsub (xlsub.getD jcol 0) (markerFilter (snodeRows jcol kcol asub xaB xaE) []).length).Nodup
  rw [this]; exact markerFilter_nodup _ _ List.nodup_nil

/-- **dsnode_dfs.c**: the stored list is the UNION of the row sets of columns `jcol..kcol`; when the supernode has more
than one column the second copy (`lsub[xlsub[kcol] .. xlsub[kcol+1])`, the one pruning works on) is identical to the
first; `xlsub`/`xprune` delimit exactly these lists; `nzlmax` is respected (nothing outside is written). -/
theorem snodeDfs_union {jcol kcol : Nat} {asub xaB xaE : Array Nat} {marker : Array Int} {lsub xlsub xprune : Array Nat}
    (xsup : Array Nat) (supno : Array Int) (h : SnodeWf jcol kcol asub xaB xaE marker lsub xlsub xprune) :
    let o := snodeDfs jcol kcol asub xaB xaE xprune marker xsup supno lsub xlsub
    let first := xlsub.getD jcol 0
    let len := (markerFilter (snodeRows jcol kcol asub xaB xaE) []).length
    let stop := first + (if jcol < kcol then 2 else 1) * len
    (∀ r, r ∈ segList o.lsub first len ↔ ∃ i, jcol ≤ i ∧ i ≤ kcol ∧ r ∈ colRows asub xaB xaE i) ∧
    (jcol < kcol → segList o.lsub (first + len) len = segList o.lsub first len) ∧
    (jcol < kcol → ∀ i, jcol < i → i ≤ kcol → o.xlsub.getD i 0 = first + len) ∧
    o.xlsub.getD (kcol+1) 0 = stop ∧ o.xprune.getD kcol 0 = stop ∧ stop ≤ lsub.size ∧ o.lsub.size = lsub.size ∧
    (∀ k, k < first ∨ stop ≤ k → o.lsub.getD k 0 = lsub.getD k 0) := by
  intro o first len stop
  obtain ⟨m1, m2, m3, m4, m5, m6, m7, _, _, _⟩ := snodeDfs_main xsup supno h
  refine ⟨?_, fun hh => by rw [m2 hh, m1], fun _ => m7, m5, m6, h.cap, m3, m4⟩
  intro r
  rw [m1, markerFilter_complete]
  simp only [List.not_mem_nil, false_or, snodeRows, List.mem_flatMap, List.mem_range'_1]
  constructor
  · rintro ⟨i, ⟨h1, h2⟩, h3⟩; exact ⟨i, h1, by omega, h3⟩
  · rintro ⟨i, h1, h2, h3⟩; exact ⟨i, ⟨h1, by omega⟩, h3⟩

/-- the marker array afterwards: `marker[r] = kcol` exactly on the rows of the supernode, untouched elsewhere -/
theorem snodeDfs_marker {jcol kcol : Nat} {asub xaB xaE : Array Nat} {marker : Array Int} {lsub xlsub xprune : Array Nat}
    (xsup : Array Nat) (supno : Array Int) (h : SnodeWf jcol kcol asub xaB xaE marker lsub xlsub xprune) :
    let o := snodeDfs jcol kcol asub xaB xaE xprune marker xsup supno lsub xlsub
    let U := markerFilter (snodeRows jcol kcol asub xaB xaE) []
    (∀ r, r < marker.size → (o.marker.getD r EMPTY = (kcol : Int) ↔ r ∈ U)) ∧
    (∀ r, r ∉ U → o.marker.getD r EMPTY = marker.getD r EMPTY) := by
  intro o U
  obtain ⟨_, _, _, _, _, _, _, _, m9, m10⟩ := snodeDfs_main xsup supno h
  exact ⟨m9, m10⟩

/-- a relaxed supernode of three columns (1..3) with overlapping rows, stored out of order in `asub` -/
example : SnodeWf 1 3 #[5,2, 0,4, 2,4,1, 1,3,5] #[2,0,4,7] #[4,2,7,10] #[-1,0,-1,0,-1,-1]
    #[9,9,9, 0,0,0,0,0, 0,0,0,0,0, 0] #[0,3,77,77,77] #[3,77,77,77] := by decide
example : (snodeDfs 1 3 #[5,2, 0,4, 2,4,1, 1,3,5] #[2,0,4,7] #[4,2,7,10] #[3,77,77,77] #[-1,0,-1,0,-1,-1] #[0,1,77,77,77] #[0,0,-1,-1,-1]
    #[9,9,9, 0,0,0,0,0, 0,0,0,0,0, 0] #[0,3,77,77,77]).lsub.toList = [9,9,9, 5,2,4,1,3, 5,2,4,1,3, 0] := by decide

/-- **dpruneL.c, one turn of the loop over `segrep`, ANY current state**: the subscripts are permuted by ONE
permutation `σ` that maps the segment `[xlsub[irep], xlsub[irep+1])` to itself and is the identity elsewhere (so the
pruned segment is a permutation of the original and nothing outside it changes); when the supernode has a single
column the values `lusup[xlusup[irep] + ·]` are permuted by THE SAME `σ` (each pair `(lsub[k], lusup[k])` is preserved),
otherwise `lusup` is untouched. -/
theorem pruneL_step_perm {K : Type} (z : K) (a : PruneArgs) (st : PruneSt K) (i : Nat)
    (h : PruneWf a st.lsub.size st.lusup.size st.xprune.size (a.segrep.getD i 0)) :
    let irep := a.segrep.getD i 0
    let lo := a.xlsub.getD irep 0
    let hi := a.xlsub.getD (irep+1) 0
    let xlu := a.xlusup.getD irep 0
    let o := pruneStep z a st i
    o.lsub.size = st.lsub.size ∧ o.lusup.size = st.lusup.size ∧ o.xprune.size = st.xprune.size ∧
    ∃ σ : Equiv.Perm ℕ, (∀ k, k < lo ∨ hi ≤ k → σ k = k) ∧ (∀ k, lo ≤ k → k < hi → lo ≤ σ k ∧ σ k < hi) ∧
      (∀ k, o.lsub.getD k 0 = st.lsub.getD (σ k) 0) ∧
      (movnumOf a irep = true → ∀ k, lo ≤ k → k < hi → o.lusup.getD (xlu + (k - lo)) z = st.lusup.getD (xlu + (σ k - lo)) z) ∧
      (movnumOf a irep = false → o.lusup = st.lusup) ∧
      (∀ q, q < xlu ∨ xlu + (hi - lo) ≤ q → o.lusup.getD q z = st.lusup.getD q z) := by
  intro irep lo hi xlu o
  show (pruneStep z a st i).lsub.size = _ ∧ (pruneStep z a st i).lusup.size = _ ∧ (pruneStep z a st i).xprune.size = _ ∧
    ∃ σ : Equiv.Perm ℕ, _ ∧ _ ∧ (∀ k, (pruneStep z a st i).lsub.getD k 0 = _) ∧
      (_ → ∀ k, _ → _ → (pruneStep z a st i).lusup.getD _ z = _) ∧ (_ → (pruneStep z a st i).lusup = _) ∧
      (∀ q, _ → (pruneStep z a st i).lusup.getD q z = _)
  rw [pruneStep_eq]
  by_cases hp : prunes a st irep = true
  · rw [if_pos hp]
    obtain ⟨hok, hx, _⟩ := pruneOne_ok z a st irep h
    obtain ⟨σ, s1, s2, s3, s4⟩ := hok.perm
    exact ⟨hok.size_ls, hok.size_lu, hx, σ, s1, s2, s3, s4, hok.lu_same,
      fun q hq => hok.lu_frame q (by rcases hq with hq | hq; exact Or.inl (by omega); exact Or.inr hq)⟩
  · rw [if_neg hp]
    exact ⟨rfl, rfl, rfl, Equiv.refl _, fun _ _ => rfl, fun k h1 h2 => ⟨h1, h2⟩, fun _ => rfl, fun _ _ _ _ => rfl, fun _ => rfl, fun _ _ => rfl⟩

/-- **dpruneL.c, one turn, the cut**: when the turn partitions `irep` (`prunes`: the skip tests pass, not pruned yet,
pivot row present), afterwards `xprune[irep] = p` with `xlsub[irep] ≤ p ≤ xlsub[irep+1]`, EVERY entry of
`[xlsub[irep], p)` is a pivoted row and EVERY entry of `[p, xlsub[irep+1])` is not; a leading run of pivoted rows
(the diagonal block) stays in place; no other `xprune` entry changes.  Otherwise the state is unchanged.
The partition loop is run with fuel `hi - lo`; `pruneL_partition_terminates` shows the fuel is not what ends it. -/
theorem pruneL_step_cut {K : Type} (z : K) (a : PruneArgs) (st : PruneSt K) (i : Nat)
    (h : PruneWf a st.lsub.size st.lusup.size st.xprune.size (a.segrep.getD i 0)) :
    let irep := a.segrep.getD i 0
    let lo := a.xlsub.getD irep 0
    let hi := a.xlsub.getD (irep+1) 0
    let o := pruneStep z a st i
    (prunes a st irep = false → o = st) ∧
    (prunes a st irep = true →
      lo ≤ o.xprune.getD irep 0 ∧ o.xprune.getD irep 0 ≤ hi ∧
      (∀ k, lo ≤ k → k < o.xprune.getD irep 0 → pivoted a.permR (o.lsub.getD k 0) = true) ∧
      (∀ k, o.xprune.getD irep 0 ≤ k → k < hi → pivoted a.permR (o.lsub.getD k 0) = false) ∧
      (∀ e, (∀ k, lo ≤ k → k < e → pivoted a.permR (st.lsub.getD k 0) = true) → ∀ k, k < e → o.lsub.getD k 0 = st.lsub.getD k 0) ∧
      (∀ j, j ≠ irep → o.xprune.getD j 0 = st.xprune.getD j 0)) := by
  intro irep lo hi o
  show (_ → pruneStep z a st i = st) ∧ (_ → _ ≤ (pruneStep z a st i).xprune.getD irep 0 ∧ (pruneStep z a st i).xprune.getD irep 0 ≤ _ ∧
    (∀ k, _ → k < (pruneStep z a st i).xprune.getD irep 0 → pivoted a.permR ((pruneStep z a st i).lsub.getD k 0) = true) ∧
    (∀ k, (pruneStep z a st i).xprune.getD irep 0 ≤ k → _ → pivoted a.permR ((pruneStep z a st i).lsub.getD k 0) = false) ∧
    (∀ e, _ → ∀ k, _ → (pruneStep z a st i).lsub.getD k 0 = _) ∧
    (∀ j, _ → (pruneStep z a st i).xprune.getD j 0 = _))
  rw [pruneStep_eq]
  refine ⟨fun hp => by rw [hp]; rfl, fun hp => ?_⟩
  rw [if_pos hp]
  obtain ⟨hok, _, hx⟩ := pruneOne_ok z a st irep h
  refine ⟨hok.lo_le, hok.le_hi, hok.front, hok.back, ?_, hx⟩
  intro e he k hk
  exact (partLoop_lead z a.permR (movnumOf a irep) (a.xlusup.getD irep 0) lo (hi - lo) lo hi st.lsub st.lusup e
    (le_refl _) (le_refl _) h.mono h.inb (fun hm => by have := h.lu hm; omega) he k hk).1

/-- **termination of the partition loop**: any larger fuel gives the same result, i.e. the `while (kmin <= kmax)`
loop of dpruneL.c:117-149 ends through its own test for all inputs (each turn shrinks `kmax - kmin`). -/
theorem pruneL_partition_terminates {K : Type} (z : K) (permR : Array Int) (movnum : Bool) (xlu xl lo hi g : Nat)
    (ls : Array Nat) (lu : Array K) :
    partLoop z permR movnum xlu xl (hi - lo + g) lo hi ls lu = partLoop z permR movnum xlu xl (hi - lo) lo hi ls lu :=
  partLoop_fuel_add z permR movnum xlu xl (hi - lo) g lo hi ls lu (le_refl _)

/-- the fold of `pruneStep` over any list of turns -/
theorem pruneL_fold_perm {K : Type} (z : K) (a : PruneArgs) : ∀ (is : List Nat) (st : PruneSt K),
    (∀ i ∈ is, PruneWf a st.lsub.size st.lusup.size st.xprune.size (a.segrep.getD i 0)) →
    let o := is.foldl (pruneStep z a) st
    o.lsub.size = st.lsub.size ∧ o.lusup.size = st.lusup.size ∧ o.xprune.size = st.xprune.size ∧
    ∃ σ : Equiv.Perm ℕ, (∀ k, o.lsub.getD k 0 = st.lsub.getD (σ k) 0) ∧
      (∀ k, (∀ i ∈ is, ¬ (a.xlsub.getD (a.segrep.getD i 0) 0 ≤ k ∧ k < a.xlsub.getD (a.segrep.getD i 0 + 1) 0)) → σ k = k) := by
  intro is
  induction is with
  | nil => intro st _; exact ⟨rfl, rfl, rfl, Equiv.refl _, fun _ => rfl, fun _ _ => rfl⟩
  | cons i is ih =>
    intro st hwf
    obtain ⟨z1, z2, z3, σ1, s1, _, s3, _⟩ := pruneL_step_perm z a st i (hwf i (List.mem_cons_self ..))
    have := ih (pruneStep z a st i) (by rw [z1, z2, z3]; exact fun j hj => hwf j (List.mem_cons_of_mem _ hj))
    obtain ⟨y1, y2, y3, σ2, t1, t2⟩ := this
    refine ⟨by rw [List.foldl_cons, y1, z1], by rw [List.foldl_cons, y2, z2], by rw [List.foldl_cons, y3, z3], σ2.trans σ1, ?_, ?_⟩
    · intro k; rw [List.foldl_cons, t1, s3]; rfl
    · intro k hk
      have h2 : σ2 k = k := t2 k (fun j hj => hk j (List.mem_cons_of_mem _ hj))
      have h1 : σ1 k = k := by
        apply s1
        have := hk i (List.mem_cons_self ..)
        omega
      simp [Equiv.trans_apply, h2, h1]

/-- **dpruneL.c, the whole call**: `lsub` afterwards is `lsub` before read through ONE permutation `σ` of the
positions, and `σ` is the identity on every position that lies in no segment `[xlsub[irep], xlsub[irep+1])` of a
listed representative: as a multiset `lsub` is unchanged and everything outside the processed segments is unchanged;
all sizes are kept.  (That `σ` maps each segment to itself is `pruneL_step_perm`, turn by turn.) -/
theorem pruneL_perm {K : Type} (z : K) (a : PruneArgs) (nseg : Nat) (st : PruneSt K)
    (hwf : ∀ i < nseg, PruneWf a st.lsub.size st.lusup.size st.xprune.size (a.segrep.getD i 0)) :
    let o := pruneL z a nseg st
    o.lsub.size = st.lsub.size ∧ o.lusup.size = st.lusup.size ∧ o.xprune.size = st.xprune.size ∧
    ∃ σ : Equiv.Perm ℕ, (∀ k, o.lsub.getD k 0 = st.lsub.getD (σ k) 0) ∧
      (∀ k, (∀ i < nseg, ¬ (a.xlsub.getD (a.segrep.getD i 0) 0 ≤ k ∧ k < a.xlsub.getD (a.segrep.getD i 0 + 1) 0)) → σ k = k) := by
  have := pruneL_fold_perm z a (List.range nseg) st (fun i hi => hwf i (List.mem_range.1 hi))
  obtain ⟨a1, a2, a3, σ, s1, s2⟩ := this
  exact ⟨a1, a2, a3, σ, s1, fun k hk => s2 k (fun i hi => hk i (List.mem_range.1 hi))⟩

/-- **link to `prune_preserves_reach` / `luFactor_pruned_dfs` (Lemmas/Prune.lean)**.  `rowOf` is the FINAL pivot
numbering; at the call the pivoted rows are exactly those numbered `≤ jcol`, and `pivrow` is number `jcol`.  When a
turn partitions `irep`, the rows left in `[xlsub[irep], xprune[irep])`, in pivot numbering, are exactly
`LU.pruneAdj p adj irep` for the cut `p irep = some jcol` of the full list `adj irep`, and `jcol ∈ adj irep` — the first
half of `LU.PruneOkAdj` / `Symb.PruneOk` (`struct irep jcol`: the pair is symmetric on the L side, checked by the
`do_prune` search).  What remains of `PruneOk` is the fill property of the pair, which `Symb.fillSym_colStruct` gives
for the symbolic structure whenever `irep` is in the U-structure of `jcol` (`irep ∈ segrep`, `repfnz[irep] ≠ EMPTY`:
the depth-first search's output, family `symb`/`lu` by correspondence). -/
theorem pruneL_cut_pruneAdj {K : Type} (z : K) (a : PruneArgs) (st : PruneSt K) (i : Nat) (rowOf : Nat → Nat)
    (h : PruneWf a st.lsub.size st.lusup.size st.xprune.size (a.segrep.getD i 0))
    (hpiv : ∀ r, pivoted a.permR r = true ↔ rowOf r ≤ a.jcol) (hpr : rowOf a.pivrow = a.jcol)
    (hp : prunes a st (a.segrep.getD i 0) = true) :
    let irep := a.segrep.getD i 0
    let lo := a.xlsub.getD irep 0
    let hi := a.xlsub.getD (irep+1) 0
    let o := pruneStep z a st i
    let adj : Nat → List Nat := fun _ => (segList st.lsub lo (hi - lo)).map rowOf
    let p : Nat → Option Nat := fun k => if k = irep then some a.jcol else none
    a.jcol ∈ adj irep ∧
    ∀ x, x ∈ (segList o.lsub lo (o.xprune.getD irep 0 - lo)).map rowOf ↔ x ∈ LU.pruneAdj p adj irep := by
  intro irep lo hi o adj p
  obtain ⟨_, hcut⟩ := pruneL_step_cut z a st i h
  obtain ⟨c1', c2', c3', c4', _, _⟩ := hcut hp
  obtain ⟨_, _, _, σ, s1', s2', s3', _⟩ := pruneL_step_perm z a st i h
  have c1 : lo ≤ o.xprune.getD irep 0 := c1'
  have c2 : o.xprune.getD irep 0 ≤ hi := c2'
  have c3 : ∀ k, lo ≤ k → k < o.xprune.getD irep 0 → pivoted a.permR (o.lsub.getD k 0) = true := c3'
  have c4 : ∀ k, o.xprune.getD irep 0 ≤ k → k < hi → pivoted a.permR (o.lsub.getD k 0) = false := c4'
  have s1 : ∀ k, k < lo ∨ hi ≤ k → σ k = k := s1'
  have s2 : ∀ k, lo ≤ k → k < hi → lo ≤ σ k ∧ σ k < hi := s2'
  have s3 : ∀ k, o.lsub.getD k 0 = st.lsub.getD (σ k) 0 := s3'
  clear c1' c2' c3' c4' s1' s2' s3'
  have hmemseg : ∀ (ls : Array Nat) (n : Nat) (x : Nat), x ∈ (segList ls lo n).map rowOf ↔ ∃ k, lo ≤ k ∧ k < lo + n ∧ rowOf (ls.getD k 0) = x := by
    intro ls n x
    simp only [segList, List.mem_map, List.mem_range]
    constructor
    · rintro ⟨r, ⟨t, ht, rfl⟩, rfl⟩; exact ⟨lo + t, by omega, by omega, rfl⟩
    · rintro ⟨k, h1, h2, rfl⟩; exact ⟨_, ⟨k - lo, by omega, rfl⟩, by rw [show lo + (k - lo) = k by omega]⟩
  constructor
  · -- the `do_prune` search found the pivot row
    have hd : doPrune a st.lsub st.xprune irep = true := by
      have : (eligible a irep && doPrune a st.lsub st.xprune irep) = true := hp
      exact (Bool.and_eq_true _ _ ▸ this).2
    unfold doPrune at hd
    rw [Bool.and_eq_true, List.any_eq_true] at hd
    obtain ⟨k, hk, hk2⟩ := hd.2
    rw [List.mem_range'_1] at hk
    show a.jcol ∈ (segList st.lsub lo (hi - lo)).map rowOf
    rw [hmemseg]
    refine ⟨k, hk.1, by have := hk.2; omega, ?_⟩
    have : st.lsub.getD k 0 = a.pivrow := by simpa using hk2
    rw [this, hpr]
  · intro x
    rw [LU.mem_pruneAdj]
    show x ∈ (segList o.lsub lo (o.xprune.getD irep 0 - lo)).map rowOf ↔
      x ∈ (segList st.lsub lo (hi - lo)).map rowOf ∧ ∀ c, (if irep = irep then some a.jcol else none) = some c → x ≤ c
    rw [hmemseg, hmemseg, if_pos rfl]
    constructor
    · rintro ⟨k, h1, h2, rfl⟩
      have hk2 : k < o.xprune.getD irep 0 := by omega
      have hr := s2 k h1 (by omega)
      refine ⟨⟨σ k, hr.1, by omega, by rw [← s3]⟩, ?_⟩
      intro c hc; cases hc
      exact (hpiv _).1 (c3 k h1 hk2)
    · rintro ⟨⟨k', h1, h2, rfl⟩, hle⟩
      have hle' := hle _ rfl
      have hk'hi : k' < hi := by omega
      -- k' = σ k with k in the segment
      have hin : lo ≤ σ.symm k' ∧ σ.symm k' < hi := by
        by_contra hcon
        have : σ (σ.symm k') = σ.symm k' := s1 _ (by omega)
        rw [Equiv.apply_symm_apply] at this
        rw [← this] at hcon; exact hcon ⟨h1, hk'hi⟩
      refine ⟨σ.symm k', hin.1, ?_, by rw [s3, Equiv.apply_symm_apply]⟩
      have hpv : pivoted a.permR (o.lsub.getD (σ.symm k') 0) = true := by
        rw [s3, Equiv.apply_symm_apply]; exact (hpiv _).2 hle'
      by_contra hcon
      have := c4 (σ.symm k') (by omega) hin.2
      rw [hpv] at this; exact Bool.noConfusion this

/-- a singleton supernode (column 0) whose list `[3,0,4,5,2]` is partitioned at column 3: rows 3,4,2 are pivoted -/
def exPruneArgs : PruneArgs := ⟨3, #[-1,2,1,0,3,-1], 4, #[0], #[0,-1,-1,-1], #[0,1,2,3,4], #[0,1,2,3,3], #[0,5,6,7,8], #[0,5,6,7,8]⟩
def exPruneSt : PruneSt Int := ⟨#[3,0,4,5,2, 2, 1, 4], #[10,11,12,13,14, 15, 16, 17], #[5,6,7,8]⟩
example : PruneWf exPruneArgs 8 8 4 0 := by decide
example : prunes exPruneArgs exPruneSt 0 = true := by decide
example : (pruneL (0 : Int) exPruneArgs 1 exPruneSt).lsub.toList = [3,2,4,5,0, 2, 1, 4] ∧
    (pruneL (0 : Int) exPruneArgs 1 exPruneSt).lusup.toList = [10,14,12,13,11, 15, 16, 17] ∧
    (pruneL (0 : Int) exPruneArgs 1 exPruneSt).xprune.toList = [3,6,7,8] := by decide

/-- **dcopy_to_ucol.c**: with `R = ucolAllRows a` (the rows `lsub[isub ..]` of the kept segments — other supernode
than `jcol`'s, `repfnz ≠ EMPTY` — concatenated in the order `segrep[nseg-1], …, segrep[0]`) and `nextu0 = xusub[jcol]`:
`usub[nextu0 + t] = perm_r[R[t]]`, `ucol[nextu0 + t]` = the value `dense` held for row `R[t]` (zero if that row was
gathered before: never when the segments are disjoint, `R.Nodup`), `dense` is zero on `R` afterwards and unchanged
elsewhere, `usub`/`ucol` are unchanged outside `[nextu0, nextu0 + |R|)`, `xusub[jcol+1] = nextu0 + |R|` and no other
`xusub` entry changes.  With `perm_r` injective on `R` the U column has no repeated row. -/
theorem copyToUcol_spec {K : Type} (z : K) (a : UcolArgs) (xusub : Array Nat) (usub : Array Int) (ucol dense : Array K)
    (h : UcolWf a xusub usub.size ucol.size dense.size) :
    let R := ucolAllRows a
    let nextu0 := xusub.getD a.jcol 0
    let o := copyToUcol z a xusub usub ucol dense
    o.1.nextu = nextu0 + R.length ∧ o.2.getD (a.jcol+1) 0 = nextu0 + R.length ∧
    (∀ k, k ≠ a.jcol + 1 → o.2.getD k 0 = xusub.getD k 0) ∧
    (∀ t, t < R.length → o.1.usub.getD (nextu0 + t) 0 = a.permR.getD (R.getD t 0) EMPTY) ∧
    (∀ t, t < R.length → o.1.ucol.getD (nextu0 + t) z = if R.getD t 0 ∈ R.take t then z else dense.getD (R.getD t 0) z) ∧
    (R.Nodup → ∀ t, t < R.length → o.1.ucol.getD (nextu0 + t) z = dense.getD (R.getD t 0) z) ∧
    (∀ r, o.1.dense.getD r z = if r ∈ R then z else dense.getD r z) ∧
    (∀ k, k < nextu0 ∨ nextu0 + R.length ≤ k → o.1.usub.getD k 0 = usub.getD k 0 ∧ o.1.ucol.getD k z = ucol.getD k z) ∧
    o.1.usub.size = usub.size ∧ o.1.ucol.size = ucol.size ∧ o.1.dense.size = dense.size ∧
    (R.Nodup → (∀ r ∈ R, ∀ r' ∈ R, a.permR.getD r EMPTY = a.permR.getD r' EMPTY → r = r') →
      ((List.range R.length).map (fun t => o.1.usub.getD (nextu0 + t) 0)).Nodup) ∧
    (∀ bound : Int, (∀ r ∈ R, 0 ≤ a.permR.getD r EMPTY ∧ a.permR.getD r EMPTY < bound) →
      ∀ t, t < R.length → 0 ≤ o.1.usub.getD (nextu0 + t) 0 ∧ o.1.usub.getD (nextu0 + t) 0 < bound) := by
  intro R nextu0 o
  obtain ⟨inv, x1, x2⟩ := copyToUcol_inv z a xusub usub ucol dense h
  have getD_mem : ∀ t, t < R.length → R.getD t 0 ∈ R := by
    intro t ht; simp [List.getD_eq_getElem?_getD, ht]
  refine ⟨inv.nextu, x1, x2, inv.usub, inv.ucol, ?_, inv.dense, inv.frame, inv.szU, inv.szC, inv.szD, ?_, ?_⟩
  · intro hnd t ht
    rw [inv.ucol t ht, if_neg]
    intro hmem
    obtain ⟨s, hs, hst⟩ := List.getElem_of_mem hmem
    have hs' : s < t := by have := hs; simp only [List.length_take] at this; omega
    have ht' : t < (ucolAllRows a).length := ht
    have : (ucolAllRows a)[s]'(by omega) = (ucolAllRows a)[t]'ht' := by
      rw [List.getElem_take] at hst; rw [hst]; simp [List.getD_eq_getElem?_getD, List.getElem?_eq_getElem ht']
    have := (List.Nodup.getElem_inj_iff hnd).1 this
    omega
  · intro hnd hinj
    rw [List.nodup_iff_injective_get]
    intro ⟨i, hi⟩ ⟨j, hj⟩ hij
    simp only [List.length_map, List.length_range] at hi hj
    simp only [List.get_eq_getElem, List.getElem_map, List.getElem_range] at hij
    rw [inv.usub i hi, inv.usub j hj] at hij
    have := hinj _ (getD_mem i hi) _ (getD_mem j hj) hij
    simp only [List.getD_eq_getElem?_getD, List.getElem?_eq_getElem hi, List.getElem?_eq_getElem hj, Option.getD_some] at this
    have := (List.Nodup.getElem_inj_iff hnd).1 this
    exact Fin.ext this
  · intro bound hb t ht
    rw [inv.usub t ht]; exact hb _ (getD_mem t ht)

/-- two segments (supernode 1 = columns 1..2, fragment of supernode 0), column 4 in its own supernode -/
def exUcolArgs : UcolArgs := ⟨4, 3, #[0, 3, 2], #[0, -1, 1, 3, -1], #[1, 3, 0, 2, -1, -1], #[0, 1, 3, 4, 5], #[0, 1, 1, 2, 3],
  #[2, 5, 0, 3, 4, 1, 4], #[0, 2, 5, 5, 7]⟩
example : UcolWf exUcolArgs #[0, 0, 1, 1, 2, 77] 7 7 6 := by decide
example : ucolAllRows exUcolArgs = [0, 3, 1, 2] := by decide
example : (copyToUcol (0 : Int) exUcolArgs #[0, 0, 1, 1, 2, 77] #[9, 9, 50, 51, 52, 53, 54] #[7, 7, 60, 61, 62, 63, 64] #[11, 12, 13, 14, 15, 16]).1.usub.toList
      = [9, 9, 1, 2, 3, 0, 54] ∧
    (copyToUcol (0 : Int) exUcolArgs #[0, 0, 1, 1, 2, 77] #[9, 9, 50, 51, 52, 53, 54] #[7, 7, 60, 61, 62, 63, 64] #[11, 12, 13, 14, 15, 16]).1.ucol.toList
      = [7, 7, 11, 14, 12, 13, 64] ∧
    (copyToUcol (0 : Int) exUcolArgs #[0, 0, 1, 1, 2, 77] #[9, 9, 50, 51, 52, 53, 54] #[7, 7, 60, 61, 62, 63, 64] #[11, 12, 13, 14, 15, 16]).1.dense.toList
      = [0, 0, 0, 0, 15, 16] ∧
    (copyToUcol (0 : Int) exUcolArgs #[0, 0, 1, 1, 2, 77] #[9, 9, 50, 51, 52, 53, 54] #[7, 7, 60, 61, 62, 63, 64] #[11, 12, 13, 14, 15, 16]).2.toList
      = [0, 0, 1, 1, 2, 6] := by decide

/-- **dsnode_dfs.c, supernode bookkeeping**: `supno[jcol..kcol+1]` all receive the new supernode number
`nsuper = supno[jcol] + 1`, `xsup[nsuper+1] = kcol+1`, nothing else in `supno`/`xsup` changes. -/
theorem snodeDfs_supno (jcol kcol : Nat) (asub xaB xaE xprune : Array Nat) (marker : Array Int)
    (xsup : Array Nat) (supno : Array Int) (lsub xlsub : Array Nat) (hle : jcol ≤ kcol) :
    let o := snodeDfs jcol kcol asub xaB xaE xprune marker xsup supno lsub xlsub
    let nsuper : Int := supno.getD jcol 0 + 1
    (∀ i, jcol ≤ i → i ≤ kcol + 1 → i < supno.size → o.supno.getD i 0 = nsuper) ∧
    (∀ i, i < jcol ∨ kcol + 1 < i → o.supno.getD i 0 = supno.getD i 0) ∧
    ((nsuper + 1).toNat < xsup.size → o.xsup.getD (nsuper + 1).toNat 0 = kcol + 1) ∧
    (∀ s, s ≠ (nsuper + 1).toNat → o.xsup.getD s 0 = xsup.getD s 0) := by
  intro o nsuper
  obtain ⟨_, _, _, _, e5, e6⟩ := snodeDfs_unfold jcol kcol asub xaB xaE xprune marker xsup supno lsub xlsub
  have hs : (snodeLoop jcol kcol asub xaB xaE marker supno lsub xlsub).supno =
      (List.range' jcol (kcol + 1 - jcol)).foldl (fun s i => s.setIfInBounds i nsuper) (supno.setIfInBounds jcol nsuper) :=
    snodeCols_fold_supno kcol nsuper asub xaB xaE _ _
  have e5' : o.supno = _ := e5
  have e6' : o.xsup = _ := e6
  refine ⟨?_, ?_, ?_, ?_⟩
  · intro i h1 h2 h3
    rw [e5', getD_setIfInBounds]
    by_cases hk : i = kcol + 1
    · subst hk; rw [if_pos ⟨rfl, by rw [hs, foldl_setRange_size]; simpa using h3⟩]
    · rw [if_neg (fun hh => hk hh.1.symm), hs, foldl_setRange_getD, if_pos ⟨h1, by omega, by simpa using h3⟩]
  · intro i hi
    rw [e5', getD_setIfInBounds, if_neg (by omega), hs, foldl_setRange_getD, if_neg (by omega), getD_setIfInBounds, if_neg (by omega)]
  · intro hb; rw [e6', getD_setIfInBounds, if_pos ⟨rfl, hb⟩]
  · intro s hs'; rw [e6', getD_setIfInBounds, if_neg (fun hh => hs' hh.1.symm)]

/-- the list of column `c` is cut at `xprune[c]`: pivoted rows before, unpivoted rows from there on -/
def CutAt {K : Type} (a : PruneArgs) (st : PruneSt K) (c : Nat) : Prop :=
  a.xlsub.getD c 0 ≤ st.xprune.getD c 0 ∧ st.xprune.getD c 0 ≤ a.xlsub.getD (c+1) 0 ∧
  (∀ k, a.xlsub.getD c 0 ≤ k → k < st.xprune.getD c 0 → pivoted a.permR (st.lsub.getD k 0) = true) ∧
  (∀ k, st.xprune.getD c 0 ≤ k → k < a.xlsub.getD (c+1) 0 → pivoted a.permR (st.lsub.getD k 0) = false)

/-- a cut made earlier survives every later turn (the segments of different columns are disjoint) -/
theorem cutAt_step {K : Type} (z : K) (a : PruneArgs) (st : PruneSt K) (i c : Nat)
    (h : PruneWf a st.lsub.size st.lusup.size st.xprune.size (a.segrep.getD i 0))
    (hmono : ∀ i j, i ≤ j → j < a.xlsub.size → a.xlsub.getD i 0 ≤ a.xlsub.getD j 0)
    (hi : a.segrep.getD i 0 + 1 < a.xlsub.size) (hc : c + 1 < a.xlsub.size)
    (hcut : CutAt a st c) : CutAt a (pruneStep z a st i) c := by
  obtain ⟨n1, n2⟩ := pruneL_step_cut z a st i h
  by_cases hp : prunes a st (a.segrep.getD i 0) = true
  · obtain ⟨c1, c2, c3, c4, _, c6⟩ := n2 hp
    by_cases hci : c = a.segrep.getD i 0
    · subst hci; exact ⟨c1, c2, c3, c4⟩
    · obtain ⟨_, _, _, σ, s1, _, s3, _⟩ := pruneL_step_perm z a st i h
      obtain ⟨d1, d2, d3, d4⟩ := hcut
      have hx := c6 c hci
      have hfix : ∀ k, a.xlsub.getD c 0 ≤ k → k < a.xlsub.getD (c+1) 0 → (pruneStep z a st i).lsub.getD k 0 = st.lsub.getD k 0 := by
        intro k k1 k2
        rw [s3, s1 k]
        rcases Nat.lt_or_gt_of_ne hci with hlt | hgt
        · have := hmono (c+1) (a.segrep.getD i 0) (by omega) (by omega); left; omega
        · have := hmono (a.segrep.getD i 0 + 1) c (by omega) (by omega); right; omega
      refine ⟨by rw [hx]; exact d1, by rw [hx]; exact d2, ?_, ?_⟩
      · intro k k1 k2; rw [hx] at k2; rw [hfix k k1 (by omega)]; exact d3 k k1 k2
      · intro k k1 k2; rw [hx] at k1; rw [hfix k (by omega) k2]; exact d4 k k1 k2
  · have hp' : prunes a st (a.segrep.getD i 0) = false := by simpa using hp
    rw [n1 hp']; exact hcut

theorem cutAt_fold {K : Type} (z : K) (a : PruneArgs) (c : Nat)
    (hmono : ∀ i j, i ≤ j → j < a.xlsub.size → a.xlsub.getD i 0 ≤ a.xlsub.getD j 0) (hc : c + 1 < a.xlsub.size) :
    ∀ (is : List Nat) (st : PruneSt K),
      (∀ i ∈ is, PruneWf a st.lsub.size st.lusup.size st.xprune.size (a.segrep.getD i 0) ∧ a.segrep.getD i 0 + 1 < a.xlsub.size) →
      CutAt a st c → CutAt a (is.foldl (pruneStep z a) st) c := by
  intro is
  induction is with
  | nil => intro st _ h; exact h
  | cons i is ih =>
    intro st hwf hcut
    rw [List.foldl_cons]
    obtain ⟨z1, z2, z3, _⟩ := pruneL_step_perm z a st i (hwf i (List.mem_cons_self ..)).1
    apply ih
    · intro j hj; rw [z1, z2, z3]; exact hwf j (List.mem_cons_of_mem _ hj)
    · exact cutAt_step z a st i c (hwf i (List.mem_cons_self ..)).1 hmono (hwf i (List.mem_cons_self ..)).2 hc hcut

/-- **dpruneL.c, the whole call, the cut**: with `xlsub` monotone (so the lists of different columns are disjoint),
(1) every cut that holds before the call holds after it, and (2) if turn `i` partitions its representative (the tests
of dpruneL.c:82-105 pass in the state reached after turns `0..i-1`), then AFTER THE CALL the list of `segrep[i]` is cut
at `xprune[segrep[i]]`: every entry before it is a pivoted row, every entry from it on is not. -/
theorem pruneL_cut {K : Type} (z : K) (a : PruneArgs) (nseg : Nat) (st : PruneSt K)
    (hwf : ∀ i < nseg, PruneWf a st.lsub.size st.lusup.size st.xprune.size (a.segrep.getD i 0) ∧ a.segrep.getD i 0 + 1 < a.xlsub.size)
    (hmono : ∀ i j, i ≤ j → j < a.xlsub.size → a.xlsub.getD i 0 ≤ a.xlsub.getD j 0) :
    (∀ c, c + 1 < a.xlsub.size → CutAt a st c → CutAt a (pruneL z a nseg st) c) ∧
    (∀ i, i < nseg → prunes a ((List.range i).foldl (pruneStep z a) st) (a.segrep.getD i 0) = true →
      CutAt a (pruneL z a nseg st) (a.segrep.getD i 0)) := by
  constructor
  · intro c hc hcut
    exact cutAt_fold z a c hmono hc (List.range nseg) st (fun i hi => hwf i (List.mem_range.1 hi)) hcut
  · intro i hi hp
    have hsplit : List.range nseg = List.range i ++ (i :: List.range' (i+1) (nseg - (i+1))) := by
      rw [List.range_eq_range', List.range_eq_range', ← List.range'_succ]
      have := @List.range'_append_1 0 i (nseg - (i+1) + 1)
      rw [Nat.zero_add] at this
      rw [this]; congr 1; omega
    unfold pruneL
    rw [hsplit, List.foldl_append, List.foldl_cons]
    obtain ⟨y1, y2, y3, _⟩ := pruneL_fold_perm z a (List.range i) st (fun j hj => (hwf j (by have := List.mem_range.1 hj; omega)).1)
    have hwfi : PruneWf a ((List.range i).foldl (pruneStep z a) st).lsub.size ((List.range i).foldl (pruneStep z a) st).lusup.size
        ((List.range i).foldl (pruneStep z a) st).xprune.size (a.segrep.getD i 0) := by rw [y1, y2, y3]; exact (hwf i hi).1
    obtain ⟨_, n2⟩ := pruneL_step_cut z a _ i hwfi
    obtain ⟨c1, c2, c3, c4, _, _⟩ := n2 hp
    obtain ⟨w1, w2, w3, _⟩ := pruneL_step_perm z a _ i hwfi
    apply cutAt_fold z a _ hmono (hwf i hi).2
    · intro j hj
      rw [w1, w2, w3, y1, y2, y3]
      exact hwf j (by have := (List.mem_range'_1.1 hj).2; omega)
    · exact ⟨c1, c2, c3, c4⟩

/-- the hypotheses of `pruneL_cut` on the example state: monotone `xlsub`, turn 0 partitions column 0 -/
example : (∀ i < 1, PruneWf exPruneArgs exPruneSt.lsub.size exPruneSt.lusup.size exPruneSt.xprune.size (exPruneArgs.segrep.getD i 0) ∧
    exPruneArgs.segrep.getD i 0 + 1 < exPruneArgs.xlsub.size) ∧
    (∀ i < 5, ∀ j < 5, i ≤ j → exPruneArgs.xlsub.getD i 0 ≤ exPruneArgs.xlsub.getD j 0) := by decide

def kfnzOf (a : UcolArgs) (krep : Nat) : Nat := (a.repfnz.getD krep EMPTY).toNat
def fsupcOf (a : UcolArgs) (krep : Nat) : Nat := a.xsup.getD (a.supno.getD krep 0).toNat 0

/-- what `copyToUcol` needs of the L structure and of the search (decidable): for every kept segment `kfnz..krep`,
`kfnz` lies in the supernode of `krep`, the supernode's list starts with its own pivot rows in column order
(`perm_r[lsub[xlsub[fsupc] + (c - fsupc)]] = c`: what `[sdcz]pivotL` maintains), and `krep` is a column before the
supernode of `jcol` -/
def UcolLead (a : UcolArgs) : Prop :=
  ∀ ksub ∈ List.range a.nseg, ucolKeeps a (a.segrep.getD (a.nseg - 1 - ksub) 0) = true →
    fsupcOf a (a.segrep.getD (a.nseg - 1 - ksub) 0) ≤ kfnzOf a (a.segrep.getD (a.nseg - 1 - ksub) 0) ∧
    kfnzOf a (a.segrep.getD (a.nseg - 1 - ksub) 0) ≤ a.segrep.getD (a.nseg - 1 - ksub) 0 ∧
    a.segrep.getD (a.nseg - 1 - ksub) 0 < a.xsup.getD (a.supno.getD a.jcol 0).toNat 0 ∧
    ∀ c ∈ List.range' (kfnzOf a (a.segrep.getD (a.nseg - 1 - ksub) 0))
        (a.segrep.getD (a.nseg - 1 - ksub) 0 + 1 - kfnzOf a (a.segrep.getD (a.nseg - 1 - ksub) 0)),
      a.permR.getD (a.lsub.getD (a.xlsub.getD (fsupcOf a (a.segrep.getD (a.nseg - 1 - ksub) 0)) 0 +
        (c - fsupcOf a (a.segrep.getD (a.nseg - 1 - ksub) 0))) 0) EMPTY = (c : Int)

instance (a : UcolArgs) : Decidable (UcolLead a) := by unfold UcolLead; infer_instance

/-- **the C03 clause "U holds only rows strictly above each column's supernode", at the array level**: under
`UcolLead` every row index written to `usub` for column `jcol` is a column number `c` with
`0 ≤ c < xsup[supno[jcol]]` -/
theorem copyToUcol_above {K : Type} (z : K) (a : UcolArgs) (xusub : Array Nat) (usub : Array Int) (ucol dense : Array K)
    (h : UcolWf a xusub usub.size ucol.size dense.size) (hl : UcolLead a) :
    ∀ t, t < (ucolAllRows a).length →
      0 ≤ (copyToUcol z a xusub usub ucol dense).1.usub.getD (xusub.getD a.jcol 0 + t) 0 ∧
      (copyToUcol z a xusub usub ucol dense).1.usub.getD (xusub.getD a.jcol 0 + t) 0 < (a.xsup.getD (a.supno.getD a.jcol 0).toNat 0 : Int) := by
  have hs := copyToUcol_spec z a xusub usub ucol dense h
  obtain ⟨_, _, _, _, _, _, _, _, _, _, _, _, hb⟩ := hs
  apply hb
  intro r hr
  unfold ucolAllRows at hr
  rw [List.mem_flatMap] at hr
  obtain ⟨ksub, hk, hr⟩ := hr
  unfold ucolRows at hr
  by_cases hkeep : ucolKeeps a (a.segrep.getD (a.nseg - 1 - ksub) 0) = true
  · rw [if_pos hkeep] at hr
    obtain ⟨g1, g0, g2, g3⟩ := hl ksub hk hkeep
    simp only [segList, List.mem_map, List.mem_range] at hr
    obtain ⟨t, ht, rfl⟩ := hr
    have := g3 (kfnzOf a (a.segrep.getD (a.nseg - 1 - ksub) 0) + t) (by rw [List.mem_range'_1]; unfold kfnzOf at *; omega)
    have e : a.xlsub.getD (fsupcOf a (a.segrep.getD (a.nseg - 1 - ksub) 0)) 0 +
        (kfnzOf a (a.segrep.getD (a.nseg - 1 - ksub) 0) + t - fsupcOf a (a.segrep.getD (a.nseg - 1 - ksub) 0)) =
        a.xlsub.getD (a.xsup.getD (a.supno.getD (a.segrep.getD (a.nseg - 1 - ksub) 0) 0).toNat 0) 0 +
          (a.repfnz.getD (a.segrep.getD (a.nseg - 1 - ksub) 0) EMPTY).toNat -
          a.xsup.getD (a.supno.getD (a.segrep.getD (a.nseg - 1 - ksub) 0) 0).toNat 0 + t := by
      unfold kfnzOf fsupcOf at *; omega
    rw [e] at this
    rw [this]
    unfold kfnzOf at *
    constructor
    · exact Int.natCast_nonneg _
    · have : (a.repfnz.getD (a.segrep.getD (a.nseg - 1 - ksub) 0) EMPTY).toNat + t < a.xsup.getD (a.supno.getD a.jcol 0).toNat 0 := by omega
      exact_mod_cast this
  · rw [if_neg hkeep] at hr; simp at hr

example : UcolLead exUcolArgs := by decide

theorem pruneL_fold_segperm {K : Type} (z : K) (a : PruneArgs)
    (hmono : ∀ i j, i ≤ j → j < a.xlsub.size → a.xlsub.getD i 0 ≤ a.xlsub.getD j 0) : ∀ (is : List Nat) (st : PruneSt K),
    (∀ i ∈ is, PruneWf a st.lsub.size st.lusup.size st.xprune.size (a.segrep.getD i 0) ∧ a.segrep.getD i 0 + 1 < a.xlsub.size) →
    ∃ σ : Equiv.Perm ℕ, (∀ k, (is.foldl (pruneStep z a) st).lsub.getD k 0 = st.lsub.getD (σ k) 0) ∧
      (∀ c, c + 1 < a.xlsub.size → ∀ k, a.xlsub.getD c 0 ≤ k → k < a.xlsub.getD (c+1) 0 →
        a.xlsub.getD c 0 ≤ σ k ∧ σ k < a.xlsub.getD (c+1) 0) := by
  intro is
  induction is with
  | nil => intro st _; exact ⟨Equiv.refl _, fun _ => rfl, fun _ _ k h1 h2 => ⟨h1, h2⟩⟩
  | cons i is ih =>
    intro st hwf
    obtain ⟨z1, z2, z3, σ1, s1, s2, s3, _⟩ := pruneL_step_perm z a st i (hwf i (List.mem_cons_self ..)).1
    obtain ⟨σ2, t1, t2⟩ := ih (pruneStep z a st i) (by rw [z1, z2, z3]; exact fun j hj => hwf j (List.mem_cons_of_mem _ hj))
    have hi := (hwf i (List.mem_cons_self ..)).2
    refine ⟨σ2.trans σ1, fun k => by rw [List.foldl_cons, t1, s3]; rfl, ?_⟩
    intro c hc k k1 k2
    have h2 := t2 c hc k k1 k2
    simp only [Equiv.trans_apply]
    by_cases hci : c = a.segrep.getD i 0
    · subst hci; exact s2 _ h2.1 h2.2
    · have : σ1 (σ2 k) = σ2 k := by
        apply s1
        rcases Nat.lt_or_gt_of_ne hci with hlt | hgt
        · have := hmono (c+1) (a.segrep.getD i 0) (by omega) (by omega); left; omega
        · have := hmono (a.segrep.getD i 0 + 1) c (by omega) (by omega); right; omega
      rw [this]; exact h2

/-- **dpruneL.c, the whole call, per list**: with `xlsub` monotone the permutation of `pruneL_perm` maps the list
`[xlsub[c], xlsub[c+1])` of EVERY column `c` to itself — after the call each column's list is a permutation of what it
was before the call. -/
theorem pruneL_segperm {K : Type} (z : K) (a : PruneArgs) (nseg : Nat) (st : PruneSt K)
    (hwf : ∀ i < nseg, PruneWf a st.lsub.size st.lusup.size st.xprune.size (a.segrep.getD i 0) ∧ a.segrep.getD i 0 + 1 < a.xlsub.size)
    (hmono : ∀ i j, i ≤ j → j < a.xlsub.size → a.xlsub.getD i 0 ≤ a.xlsub.getD j 0) :
    ∃ σ : Equiv.Perm ℕ, (∀ k, (pruneL z a nseg st).lsub.getD k 0 = st.lsub.getD (σ k) 0) ∧
      (∀ c, c + 1 < a.xlsub.size → ∀ k, a.xlsub.getD c 0 ≤ k → k < a.xlsub.getD (c+1) 0 →
        a.xlsub.getD c 0 ≤ σ k ∧ σ k < a.xlsub.getD (c+1) 0) :=
  pruneL_fold_segperm z a hmono (List.range nseg) st (fun i hi => hwf i (List.mem_range.1 hi))
end Slu.SymbArr
