import Slu.Model.Readers
import SluProofs.Lemmas.ReadersSort
import SluProofs.Lemmas.ReadersCols
import SluProofs.Lemmas.ReadersText
import SluProofs.Lemmas.ReadersTriple
import SluProofs.Lemmas.ReadValues
/-
C16 — Matrix file readers return exactly the matrix in the file.

Theorems about the index/format logic of `Slu.Readers` (the model that the correspondence check runs
on the very bytes given to `[sdcz]readhb / readrb / readMM / readtriple`).  All statements hold for
every size and every input satisfying the stated hypotheses; each is followed by an `example`
showing that the hypotheses are satisfiable.  `Trip α` is a coordinate entry `(row, col, val)` with
an arbitrary value type (real, complex, single, double alike).

The last section (`namespace Values`) is about the VALUE block of Harwell-Boeing / Rutherford-Boeing
files: `Values.readValues` / `Values.readValuesCx` mirror `[sd]ReadValues` / `[cz]ReadValues` loop by
loop (line loop, field loop, field cut, D -> E, pair toggle carried across lines) with the libc
conversion `atof` as a parameter `conv`.  Proved for every `perline ≥ 1`, every width and every
count: a printed block is read back field by field (`read_print_values`, `read_print_values_raw`,
`read_print_values_no_D`), complex values are the pairs of consecutive fields whatever the parity of
`perline` (`read_print_values_cx`, `pairUp_getElem`), the reader that clears the toggle at each line
is wrong for `perline = 3` and right for even `perline` (`reset_per_line_differs`,
`reset_per_line_even`), the result depends on the text only through the fields, each cut at its own
end (`read_values_congr`, `field_isolated`), and `fgets` with the 100-byte buffer recovers the lines
of the block (`fgets_lines_of_printed_block`).  ASSUMED, not proved: what `atof` returns; the only
property of it used is that leading blanks are skipped (hypothesis `hconv`).
-/
namespace Slu.Readers

variable {α : Type}

/-! ### Coordinate entries -> compressed columns (dreadMM.c:183-207, dreadtriple.c:98-122) -/

/-- **C16 (counting sort).** For every `n` and every list of triplets whose column indices are in
range, the counting sort returns `n+1` column pointers with `colptr[0] = 0`, `colptr[n] = nz`,
`colptr[j] ≤ colptr[j+1]`, and the storage segment of column `j` holds exactly the triplets with
that column, in file order (duplicates kept, rows in any order). -/
theorem triplets_to_csc [Inhabited α] (n : Nat) (ts : List (Trip α)) (h : ∀ t ∈ ts, t.col < n) :
    (cscOfTriplets n ts).1.size = n + 1 ∧
    (cscOfTriplets n ts).2.size = ts.length ∧
    (cscOfTriplets n ts).1.getD 0 1 = 0 ∧
    (cscOfTriplets n ts).1.getD n 0 = ts.length ∧
    (∀ j, j < n → (cscOfTriplets n ts).1.getD j 0 ≤ (cscOfTriplets n ts).1.getD (j + 1) 0) ∧
    (∀ j, j < n → colSeg (cscOfTriplets n ts).1 (cscOfTriplets n ts).2 j = ts.filter (fun t => decide (t.col = j))) := by
  obtain ⟨h1, h2, h3, h4⟩ := cscOfTriplets_spec n ts h
  refine ⟨h1, h2, ?_, ?_, ?_, h4⟩
  · rw [Array.getD_eq_getD_getElem?, h3 0 (Nat.zero_le _), cntLt_zero]; rfl
  · rw [Array.getD_eq_getD_getElem?, h3 n (Nat.le_refl _), cntLt_all ts n h]; rfl
  · intro j hj
    rw [Array.getD_eq_getD_getElem?, Array.getD_eq_getD_getElem?, h3 j (by omega), h3 (j + 1) (by omega)]
    exact cntLt_mono ts (Nat.le_succ j)

/-- the pointer of column `j` is the number of triplets in earlier columns -/
theorem triplets_to_csc_pointer [Inhabited α] (n : Nat) (ts : List (Trip α)) (h : ∀ t ∈ ts, t.col < n)
    (j : Nat) (hj : j ≤ n) :
    (cscOfTriplets n ts).1.getD j 0 = ts.countP (fun t => decide (t.col < j)) := by
  obtain ⟨_, _, h3, _⟩ := cscOfTriplets_spec n ts h
  rw [Array.getD_eq_getD_getElem?, h3 j hj]; rfl

example : ∀ t ∈ [(⟨2, 1, 'a'⟩ : Trip Char), ⟨0, 0, 'b'⟩, ⟨1, 2, 'c'⟩, ⟨0, 1, 'd'⟩], t.col < 3 := by decide
example : (cscOfTriplets 3 [(⟨2, 1, 'a'⟩ : Trip Char), ⟨0, 0, 'b'⟩, ⟨1, 2, 'c'⟩, ⟨0, 1, 'd'⟩]).1 = #[0, 1, 3, 4] := by decide

/-! ### Symmetric expansion of Matrix Market files (dreadMM.c:159-176) -/

/-- **C16 (readMM expansion).** The expanded list contains an entry iff it is stored or is the mirror
image of a stored off-diagonal entry, and has `2*nnz - ndiag` entries, whether or not diagonal
entries are present (`ndiag` = number of stored diagonal entries). -/
theorem mmExpand_spec (ts : List (Trip α)) :
    (∀ t, t ∈ mmExpand ts ↔ t ∈ ts ∨ (t.row ≠ t.col ∧ t.swap ∈ ts)) ∧
    (mmExpand ts).length + ts.countP (fun t => decide (t.row = t.col)) = 2 * ts.length :=
  ⟨mem_mmExpand ts, mmExpand_length ts⟩

/-- the expansion keeps indices in range, so `triplets_to_csc` applies to it -/
theorem mmExpand_in_range (n : Nat) (ts : List (Trip α)) (h : ∀ t ∈ ts, t.row < n ∧ t.col < n) :
    ∀ t ∈ mmExpand ts, t.row < n ∧ t.col < n := by
  intro t ht
  rcases (mem_mmExpand ts t).mp ht with h1 | ⟨_, h2⟩
  · exact h t h1
  · have := h _ h2
    simp only [Trip.swap] at this
    exact ⟨this.2, this.1⟩

/-- **C16 (readMM, symmetric file).** Column `j` of the returned matrix is exactly the sub-list of the
expanded entries with that column; together with `mmExpand_spec` the result is `T + strict(T)ᵀ`. -/
theorem readMM_symmetric_columns [Inhabited α] (n : Nat) (ts : List (Trip α)) (h : ∀ t ∈ ts, t.row < n ∧ t.col < n)
    (j : Nat) (hj : j < n) :
    colSeg (cscOfTriplets n (mmExpand ts)).1 (cscOfTriplets n (mmExpand ts)).2 j =
      (mmExpand ts).filter (fun t => decide (t.col = j)) ∧
    (cscOfTriplets n (mmExpand ts)).1.getD n 0 + ts.countP (fun t => decide (t.row = t.col)) = 2 * ts.length := by
  have hr := fun t ht => (mmExpand_in_range n ts h t ht).2
  obtain ⟨_, _, _, h4, _, h6⟩ := triplets_to_csc n (mmExpand ts) hr
  exact ⟨h6 j hj, by rw [h4]; exact mmExpand_length ts⟩

-- a 3x3 symmetric file WITHOUT diagonal entries: (2,1), (3,1), (3,2)  -> 6 = 2*3 - 0 entries
example : ∀ t ∈ [(⟨1, 0, 'a'⟩ : Trip Char), ⟨2, 0, 'b'⟩, ⟨2, 1, 'c'⟩], t.row < 3 ∧ t.col < 3 := by decide
example : (mmExpand [(⟨1, 0, 'a'⟩ : Trip Char), ⟨2, 0, 'b'⟩, ⟨2, 1, 'c'⟩]).length = 6 := by decide

/-! ### `FormFullA` of the Harwell-Boeing / Rutherford-Boeing readers (dreadhb.c:192-288) -/

/-- **C16 (FormFullA).** For a stored triangle `es` (entries in storage order, indices in range) the
result has one list per column; column `j` consists of the mirror images of the off-diagonal entries
of row `j` (in storage order: this is column `j` of the transpose built by counting sort) followed by
the stored column `j`; an entry occurs in the result iff it is stored or is the mirror image of a
stored off-diagonal entry (`A = T + strict(T)ᵀ`); the number of entries is `2*nnz - ndiag`. -/
theorem formFull_spec [Inhabited α] (n : Nat) (es : List (Trip α))
    (hrow : ∀ e ∈ es, e.row < n) (hcol : ∀ e ∈ es, e.col < n) :
    (formFull n es).length = n ∧
    (formFull n es = (List.range n).map fun j =>
      (es.filter (fun e => decide (e.row = j) && decide (e.row ≠ e.col))).map Trip.swap ++
        es.filter (fun e => decide (e.col = j))) ∧
    (∀ t, t ∈ (formFull n es).flatten ↔ t ∈ es ∨ (t.row ≠ t.col ∧ t.swap ∈ es)) ∧
    (formFull n es).flatten.length + es.countP (fun e => decide (e.row = e.col)) = 2 * es.length :=
  ⟨formFull_length n es, formFull_cols n es hrow, mem_formFull n es hrow hcol, formFull_count n es hrow hcol⟩

/-- **C16 (FormFullA, returned arrays).** The arrays handed back (`a_colptr`, `a_rowind/a_val` as the
entry array) have `n+1` pointers starting at 0, `colptr[n] = 2*nnz - ndiag` (the count of the full
matrix, not `2*nnz - n`), and the storage segment of column `j` is the column list of `formFull_spec`. -/
theorem formFull_arrays [Inhabited α] (n : Nat) (es : List (Trip α))
    (hrow : ∀ e ∈ es, e.row < n) (hcol : ∀ e ∈ es, e.col < n) :
    (cscOfCols (formFull n es)).1.size = n + 1 ∧
    (cscOfCols (formFull n es)).1.getD 0 1 = 0 ∧
    (cscOfCols (formFull n es)).1.getD n 0 + es.countP (fun e => decide (e.row = e.col)) = 2 * es.length ∧
    (cscOfCols (formFull n es)).2.size + es.countP (fun e => decide (e.row = e.col)) = 2 * es.length ∧
    (∀ j, j < n → colSeg (cscOfCols (formFull n es)).1 (cscOfCols (formFull n es)).2 j =
      (es.filter (fun e => decide (e.row = j) && decide (e.row ≠ e.col))).map Trip.swap ++
        es.filter (fun e => decide (e.col = j))) := by
  obtain ⟨h1, h2, h3⟩ := cscOfCols_inv (formFull n es)
  have hlen := formFull_length n es
  have hcount := formFull_count n es hrow hcol
  refine ⟨by rw [h1, hlen], ?_, ?_, ?_, ?_⟩
  · rw [Array.getD_eq_getD_getElem?, h3 0 (Nat.zero_le _)]; simp
  · have htk : (formFull n es).take n = formFull n es := List.take_of_length_le (by omega)
    rw [Array.getD_eq_getD_getElem?, h3 n (by omega), htk]; exact hcount
  · rw [← Array.length_toList, h2]; exact hcount
  · intro j hj
    rw [cscOfCols_colSeg _ j (by omega)]
    have := formFull_cols n es hrow
    simp only [this, List.getElem_map, List.getElem_range]

example : ∀ e ∈ [(⟨1, 0, 'a'⟩ : Trip Char), ⟨2, 0, 'b'⟩, ⟨2, 1, 'c'⟩], e.row < 3 := by decide
example : (formFull 3 [(⟨1, 0, 'a'⟩ : Trip Char), ⟨2, 0, 'b'⟩, ⟨2, 1, 'c'⟩]).flatten.length = 6 := by decide

/-! ### Fortran edit descriptors (dreadhb.c:101-139) -/

/-- **C16 (`(kIw)`).** For every repeat count and width, with anything before the parenthesis (no
`(` in it) and anything after the descriptor, the parser returns `(k, w)`. -/
theorem parse_int_format (k w : Nat) (pre post : List Char) (hpre : ∀ c ∈ pre, c ≠ '(') :
    parseIntFormat (pre ++ renderIntFmt k w ++ post) = some (k, w) :=
  parseIntFormat_render k w pre post hpre

/-- **C16 (`(kEw.d)`, `(kDw.d)`, `(kFw.d)`, `(sPkEw.d)`, `(sP,kEw.d)`).** For every count, width,
number of decimals, every exponent letter in either case, and an optional scale factor `sP` (any
sign) with or without the comma, the parser returns count `k`, width `w`, the scale factor and
the letter. -/
theorem parse_float_format (scale : Option (Int × Bool)) (k w d : Nat) (letter : Char) (hl : isEDF letter = true)
    (pre post : List Char) (hpre : ∀ c ∈ pre, c ≠ '(') :
    parseFloatFormat (pre ++ renderFloatFmt scale k letter w d ++ post) =
      some { count := k, width := w, scale := (match scale with | some (s, _) => s | none => 0), letter := letter } :=
  parseFloatFormat_render scale k w d letter hl pre post hpre

example : renderFloatFmt (some (1, true)) 4 'E' 20 12 = "(1P,4E20.12)".toList := by
  simp [renderFloatFmt, natDigits_ge, natDigits_lt]
example : renderIntFmt 16 5 = "(16I5)".toList := by
  simp [renderIntFmt, natDigits_ge, natDigits_lt]
example : isEDF 'd' = true ∧ ∀ c ∈ "title ".toList, c ≠ '(' := by decide
example : parseFloatFormat "(1P,4E20.12)        ".toList =
    some { count := 4, width := 20, scale := 1, letter := 'E' } := by decide

/-! ### Fixed-width integer blocks (dreadhb.c:141-160) -/

/-- **C16 (round trip of pointer / index blocks).** Printing any list of naturals with `(kIw)` —
`k` right-justified fields of width `w` per line, the last line possibly shorter, no separator
required — and reading it back with `ReadVector` returns the list converted to 0-based, provided each
number fits its field and a line fits the reader's 100-character buffer. -/
theorem read_print_ints (k w : Nat) (xs : List Nat) (hk : 0 < k) (hw : 0 < w) (hkw : k * w + 1 < 100)
    (hfit : ∀ x ∈ xs, (natDigits x).length ≤ w) :
    readVector k w xs.length (printInts k w xs) = some (xs.map (fun x : Nat => (x : Int) - 1), []) :=
  readVector_printInts k w xs hk hw hkw hfit

-- 16 fields of width 5 per line (the layout of EXAMPLE/g20.rua): 16*5+1 < 100; every number below 10^5 fits
example : readVector 3 4 5 (printInts 3 4 [1, 22, 333, 4444, 5]) = some ([0, 21, 332, 4443, 4], []) :=
  readVector_printInts_of_lt 3 4 [1, 22, 333, 4444, 5] (by decide) (by decide) (by decide) (by decide)

/-! ### A whole file: SuperLU's triplet format (dreadtriple.c:27-128) -/

/-- **C16 (round trip of a triplet file).** For every `n` and every list of in-range entries with
natural-number values — any order, duplicates allowed — the text `n nnz` followed by one line
`row+1 col+1 value` per entry is read back (header, 1-based conversion, zero-base heuristic, bound
check, counting sort) as the compressed-column form of exactly those entries: by `triplets_to_csc`,
monotone pointers with `colptr[n] = nnz` and column `j` holding the file's entries of column `j` in
file order with their values. -/
theorem read_print_triple (n : Nat) (ts : List (Trip Nat)) (h : ∀ t ∈ ts, t.row < n ∧ t.col < n) :
    readTriple false (printTriple n ts) =
      .ok (resultOfCsc n n (cscOfTriplets n (ts.map tripRat)).1 (cscOfTriplets n (ts.map tripRat)).2) :=
  readTriple_printTriple n ts h

example : ∀ t ∈ [(⟨2, 1, 7⟩ : Trip Nat), ⟨0, 0, 12⟩, ⟨1, 2, 0⟩, ⟨2, 1, 5⟩], t.row < 3 ∧ t.col < 3 := by decide

/-! ### The value block: fields, `D` exponents, complex pairs across lines
(`[sd]ReadValues` dreadhb.c:162-183, `[cz]ReadValues` zreadhb.c:162-193; same text in `*readrb.c`)

`Values.readValues` / `Values.readValuesCx` follow the C loops statement by statement; `conv` is
`atof` (libc, trusted).  A field text is a `List Char`, a text line what `fgets` delivers. -/
namespace Values

/-- **C16 (value block, real).** For EVERY number `perline ≥ 1` of fields per line, every field
width, every list of field texts that fit their field, and every announced count `n` not exceeding the
number of fields present: printing the fields right-justified, `perline` to a line (the last line
possibly shorter), and reading the block back with `dReadValues` returns the first `n` fields, each
converted after its Fortran exponent letter `D`/`d` was replaced by `E` — no hypothesis on `conv`
other than what `atof` does with the padding: leading blanks are skipped. -/
theorem read_print_values (perline persize : Nat) (conv : List Char → α) (n : Nat) (fields : List (List Char))
    (hp : 0 < perline) (hfit : ∀ f ∈ fields, f.length ≤ persize) (hn : n ≤ fields.length)
    (hconv : ∀ (k : Nat) (s : List Char), conv (List.replicate k ' ' ++ s) = conv s) :
    readValues perline persize conv n (printFields perline persize fields) =
      (fields.map fun f => conv (dToE f)).take n := by
  rw [readValues_printFields perline persize conv n fields hp hfit hn]
  congr 1
  apply List.map_congr_left
  intro f _
  rw [dToE_pad, hconv]

/-- the same without any hypothesis on `conv`: the text handed to `atof` is exactly the padded field
with `D`/`d` replaced -/
theorem read_print_values_raw (perline persize : Nat) (conv : List Char → α) (n : Nat) (fields : List (List Char))
    (hp : 0 < perline) (hfit : ∀ f ∈ fields, f.length ≤ persize) (hn : n ≤ fields.length) :
    readValues perline persize conv n (printFields perline persize fields) =
      (fields.map fun f => conv (dToE (pad persize f))).take n :=
  readValues_printFields perline persize conv n fields hp hfit hn

/-- fields written with `E` (or without exponent letter) reach `atof` unchanged -/
theorem read_print_values_no_D (perline persize : Nat) (conv : List Char → α) (n : Nat) (fields : List (List Char))
    (hp : 0 < perline) (hfit : ∀ f ∈ fields, f.length ≤ persize) (hn : n ≤ fields.length)
    (hconv : ∀ (k : Nat) (s : List Char), conv (List.replicate k ' ' ++ s) = conv s)
    (hD : ∀ f ∈ fields, ∀ c ∈ f, c ≠ 'D' ∧ c ≠ 'd') :
    readValues perline persize conv n (printFields perline persize fields) = (fields.map conv).take n := by
  rw [read_print_values perline persize conv n fields hp hfit hn hconv]
  congr 1
  apply List.map_congr_left
  intro f hf
  rw [dToE_id f (hD f hf)]

/-- **C16 (value block, complex).** For EVERY `perline ≥ 1`, odd or even, the complex reader returns
the first `n` pairs (real, imaginary) of consecutive fields: fields `2i` and `2i+1` form value `i`
wherever the line breaks fall, in particular when the two halves sit on different lines. -/
theorem read_print_values_cx (perline persize : Nat) (conv : List Char → α) (n : Nat) (fields : List (List Char))
    (hp : 0 < perline) (hfit : ∀ f ∈ fields, f.length ≤ persize) (hn : 2 * n ≤ fields.length)
    (hconv : ∀ (k : Nat) (s : List Char), conv (List.replicate k ' ' ++ s) = conv s) :
    readValuesCx perline persize conv n (printFields perline persize fields) =
      (pairUp (fields.map fun f => conv (dToE f))).take n := by
  rw [readValuesCx_printFields perline persize conv n fields hp hfit hn]
  congr 2
  apply List.map_congr_left
  intro f _
  rw [dToE_pad, hconv]

/-- `pairUp` is what it should be: value `i` is (field `2i`, field `2i+1`) -/
theorem pairUp_getElem (l : List α) (i : Nat) (h : 2 * i + 1 < l.length) :
    (pairUp l)[i]? = some (l[2 * i]'(by omega), l[2 * i + 1]) := by
  induction l using pairs_induction generalizing i with
  | h0 => simp at h
  | h1 a => simp at h
  | h2 a b l ih =>
    cases i with
    | zero => simp [pairUp_cons_cons]
    | succ i =>
      rw [pairUp_cons_cons, List.getElem?_cons_succ, ih i (by simp at h; omega)]
      simp [show 2 * (i + 1) = 2 * i + 1 + 1 by omega]

/-- **C16 (the toggle must survive the line break — negative result).** The variant that clears the
toggle at every line returns something else as soon as `perline` is odd: with 3 fields per line the
real part `3` of the second number of `1 2 3 / 4` is forgotten and `4` is taken for a real part,
paired with whatever lies behind the end of the line. -/
theorem reset_per_line_differs :
    readValuesCx 3 2 id 2 [" 1 2 3\n".toList, " 4\n".toList] = [(" 1".toList, " 2".toList), (" 3".toList, " 4".toList)] ∧
    readValuesCxResetPerLine 3 2 id 2 [" 1 2 3\n".toList, " 4\n".toList] = [(" 1".toList, " 2".toList), (" 4".toList, "\n".toList)] ∧
    readValuesCxResetPerLine 3 2 id 2 [" 1 2 3\n".toList, " 4\n".toList] ≠ readValuesCx 3 2 id 2 [" 1 2 3\n".toList, " 4\n".toList] := by
  decide

/-- ... and is indistinguishable from the right reader for every even `perline` (why files written
with the usual 2 or 4 values per line do not show the defect) -/
theorem reset_per_line_even (perline persize : Nat) (conv : List Char → α) (n : Nat) (lines : List (List Char))
    (k : Nat) (hk : perline = 2 * k) :
    readValuesCxResetPerLine perline persize conv n lines = readValuesCx perline persize conv n lines := by
  rw [readValuesCxResetPerLine, readValuesCx, scanLinesReset_eq perline persize conv n k hk]

/-- **C16 (field isolation).** The readers depend on the text only through the `perline` fields
`buf[j*persize .. (j+1)*persize)` of each line: two blocks whose lines agree field by field are read
alike, whatever follows the last field of a line ... -/
theorem read_values_congr (perline persize : Nat) (conv : List Char → α) (n : Nat) (lines lines' : List (List Char))
    (hlen : lines.length = lines'.length)
    (h : ∀ (i : Nat) (h1 : i < lines.length) (h2 : i < lines'.length) (j : Nat), j < perline →
      field lines[i] j persize = field lines'[i] j persize) :
    readValues perline persize conv n lines = readValues perline persize conv n lines' ∧
    readValuesCx perline persize conv n lines = readValuesCx perline persize conv n lines' := by
  rw [readValues_eq_gfold, readValues_eq_gfold, readValuesCx_eq_gfold, readValuesCx_eq_gfold,
    flatMap_lineFieldsAll_congr perline persize lines lines' hlen h]
  exact ⟨rfl, rfl⟩

/-- ... and field `j` of a line is cut at its own end: it does not depend on the text of field `j+1`
or of anything behind it (what a dropped terminator `buf[(j+1)*persize] = 0` breaks). -/
theorem field_isolated (pre f post post' : List Char) (j persize : Nat) (hpre : pre.length = j * persize)
    (hf : f.length = persize) :
    field (pre ++ f ++ post) j persize = f ∧ field (pre ++ f ++ post) j persize = field (pre ++ f ++ post') j persize := by
  rw [field_mid pre f post j persize hpre hf, field_mid pre f post' j persize hpre hf]
  exact ⟨rfl, rfl⟩

/-- **C16 (line splitting).** The block as a character stream — the concatenation of its lines — is
cut by `fgets(buf, 100, fp)` into exactly those lines whenever a full line fits the reader's
100-byte buffer (`perline * persize + 1 < 100`) and no field contains a newline; so the read-back
theorems above apply to `fgetsLines stream`, which is how the correspondence check runs the model. -/
theorem fgets_lines_of_printed_block (perline persize : Nat) (fields : List (List Char))
    (hfit : ∀ f ∈ fields, f.length ≤ persize) (hnl : ∀ f ∈ fields, ∀ c ∈ f, c ≠ '\n')
    (hbuf : perline * persize + 1 < 100) :
    fgetsLines (printFields perline persize fields).flatten = printFields perline persize fields :=
  fgetsLines_printFields perline persize fields hfit hnl hbuf

-- hypotheses are satisfiable: `atoi` skips leading blanks as `atof` does
example : ∀ (k : Nat) (s : List Char), atoi (List.replicate k ' ' ++ s) = atoi s := by
  intro k s; simp [atoi, scanInt_spaces]
-- a real block of 5 values, 3 per line, width 6: two lines, the last one short; a D exponent
example : printFields 3 6 ["1.5".toList, "-2D1".toList, "3".toList, "4e2".toList, "5".toList] =
    ["   1.5  -2D1     3\n".toList, "   4e2     5\n".toList] := by
  rw [printFields_of_ne_nil _ _ _ (by decide) (by decide), printFields_of_ne_nil _ _ _ (by decide) (by decide)]
  simp only [List.take, List.drop, printFields_nil]
  decide
example : ∀ f ∈ ["1.5".toList, "-2D1".toList, "3".toList, "4e2".toList, "5".toList], f.length ≤ 6 := by decide
example : readValues 3 6 id 5 ["   1.5  -2D1     3\n".toList, "   4e2     5\n".toList] =
    ["   1.5".toList, "  -2E1".toList, "     3".toList, "   4e2".toList, "     5".toList] := by decide
example : readValues 3 6 atoi 4 ["   1.5  -2D1     3\n".toList, "   4e2     5\n".toList] = [1, -2, 3, 4] := by decide
-- a complex block of 5 values = 10 fields, 3 per line: pairs 2, 3 and 5 straddle line ends
example : readValuesCx 3 3 atoi 5 [" 10 11 20\n".toList, " 21 30 31\n".toList, " 40 41 50\n".toList, " 51\n".toList] =
    [(10, 11), (20, 21), (30, 31), (40, 41), (50, 51)] := by decide
example : readValuesCxResetPerLine 3 3 atoi 5 [" 10 11 20\n".toList, " 21 30 31\n".toList, " 40 41 50\n".toList, " 51\n".toList] =
    [(10, 11), (21, 30), (40, 41), (51, 0)] := by decide

end Values

end Slu.Readers
