import Slu.Basic
import Slu.Proto
import Slu.Scalar
import Slu.Model.Equil
import Slu.Drv.Equil
