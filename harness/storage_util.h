/* Shared by fam_storage.c (C07) and fam_workspace.c (C08): one factorization under one storage
 * configuration, with a per-run watchdog, an allocator trace taken through hook H2 and exact-size
 * workspaces (ASan redzones right behind the last byte).  Everything here is `static`: each family
 * file gets its own copy. */
#ifndef SLU_VERIF_STORAGE_UTIL_H
#define SLU_VERIF_STORAGE_UTIL_H
#include "putil.h"
#include <signal.h>
#include <sys/time.h>
#include <unistd.h>

/* per-case switch: incomplete-factorization configurations use DROP_BASIC with ILU_FillFactor = cfg->fill */
static int g_ilu_basic;

typedef struct {
    int mode;       /* 0 = library allocation (lwork 0), 1 = caller workspace */
    int fill;       /* fill estimate given through H1 */
    long lwork;     /* bytes */
    int align4;     /* workspace address is 4 (mod 8) */
    long fault_k;   /* fail the k-th SUPERLU_MALLOC issued from <p>memory.c (0 = none) */
    int driver;     /* 0 = gstrf, 1 = gssvx, 2 = gsitrf (ILU) */
    int ref;        /* index of the configuration this one must agree with */
} scfg_t;

#define TR_W 8      /* jcol nzlumax nzumax nzlmax num_expansions used top1 top2 */
typedef struct {
    long info; int hang, aborted, have_LU;
    SuperMatrix L, U;
    int *perm_r; int m, n;
    long expansions, nzlumax, nzumax, nzlmax, used, top1, top2, size, mallocs, fired, nnzL, nnzU;
    float for_lu, total_needed; int have_mem;
    long *tr; int ntr;
    char *block;     /* what to free() for the workspace */
    char *work; long guard_bad;
    char abortmsg[96];
} srun_t;

/* the problem handed to every configuration: one matrix, one column order, one option set, one tuning set */
typedef struct {
    superlu_options_t opt;
    SuperMatrix *A;      /* original matrix (drivers) */
    SuperMatrix *AC;     /* column-permuted view (gstrf) */
    int *perm_c, *etree;
    int m, n; long annz;
    int tun[8];          /* H1 values; tun[6] (fill) is overridden per configuration */
} sprob_t;

/* ---- allocator trace through the pivot hook (H2) ---- */
extern void (*slu_verif_pivot_hook)(int phase, int dtype, int jcol, double u, int usepr, int pivrow, int diagind,
                                    int ncand, const int_t *rows, const void *vals, int info);
static GlobalLU_t *g_tr_glu; static long *g_tr; static int g_ntr, g_trcap;
static void st_trace_hook(int phase, int dtype, int jcol, double u, int usepr, int pivrow, int diagind,
                          int ncand, const int_t *rows, const void *vals, int info) {
    (void)dtype; (void)u; (void)usepr; (void)pivrow; (void)diagind; (void)ncand; (void)rows; (void)vals; (void)info;
    if (phase != 0 || !g_tr_glu || g_ntr >= g_trcap) return;
    long *t = g_tr + (size_t)g_ntr * TR_W; GlobalLU_t *G = g_tr_glu;
    t[0] = jcol; t[1] = (long)G->nzlumax; t[2] = (long)G->nzumax; t[3] = (long)G->nzlmax; t[4] = G->num_expansions;
    if (G->MemModel == USER) { t[5] = (long)G->stack.used; t[6] = (long)G->stack.top1; t[7] = (long)G->stack.top2; }
    else { t[5] = t[6] = t[7] = 0; }
    g_ntr++;
}

/* ---- watchdog: a run that does not return within the limit is a hang ----
 * Two limits per run: CPU time of this process (ITIMER_PROF; a loaded machine cannot produce a false
 * "hang") and a long wall-clock limit (ITIMER_REAL) for a run that blocks instead of spinning.
 * Default reaction (wd=exit): report the configuration on fd 2 and _exit(78); `check` records a crash
 * for the case ("SLU-ABORT watchdog ... (hang) <configuration>") and resumes with the next case.  This is
 * the only reaction that is safe whatever the library was doing (it may hold the stdio lock of stderr or
 * the allocation ledger's mutex when the signal arrives).  wd=jmp abandons the run with siglongjmp and
 * goes on with the case (for experiments only). */
#define ST_MAXHANG 3
static int g_case_hangs;
static int g_idx64_unaligned;   /* see st_ws_allowed */
static sigjmp_buf g_wd_jmp; static volatile sig_atomic_t g_wd_armed; static int g_wd_exit = 1, g_wd_exit_run; static char g_wd_what[160];
static void st_on_alarm(int sig) {
    if (g_wd_armed && !g_wd_exit && !g_wd_exit_run && sig == SIGPROF) { g_wd_armed = 0; siglongjmp(g_wd_jmp, 1); }
    if (!g_wd_armed) return;      /* stray signal after the run returned */
    static const char m1[] = "SLU-ABORT watchdog: no return within the time limit (hang) ";
    if (write(2, m1, sizeof m1 - 1) < 0) {}
    if (write(2, g_wd_what, strlen(g_wd_what)) < 0) {}
    if (write(2, "\n", 1) < 0) {}
    _exit(78);
}
static void st_wd_install(const ctx_t *c) {
    struct sigaction sa; memset(&sa, 0, sizeof sa); sa.sa_handler = st_on_alarm; sa.sa_flags = SA_NODEFER;
    sigaction(SIGPROF, &sa, NULL); sigaction(SIGALRM, &sa, NULL);
    g_wd_exit = strcmp(ctx_arg(c, "wd", "exit"), "jmp") != 0;
    g_idx64_unaligned = (int)ctx_argl(c, "idx64_unaligned", 0);
}
static void st_wd_arm(long ms) {
    struct itimerval it; memset(&it, 0, sizeof it); it.it_value.tv_sec = ms / 1000; it.it_value.tv_usec = (ms % 1000) * 1000;
    setitimer(ITIMER_PROF, &it, NULL);
    memset(&it, 0, sizeof it); it.it_value.tv_sec = 120 + ms / 10; setitimer(ITIMER_REAL, &it, NULL);
}
static void st_wd_disarm(void) {
    g_wd_armed = 0;
    struct itimerval it; memset(&it, 0, sizeof it); setitimer(ITIMER_PROF, &it, NULL); setitimer(ITIMER_REAL, &it, NULL);
}

/* The library prints diagnostics with printf ("Not enough memory to perform factorization.");
 * keep them out of the protocol stream: the protocol continues on a duplicate of fd 1, fd 1 itself
 * goes to /dev/null. */
#include <fcntl.h>
static void st_split_stdout(ctx_t *c) {
    static FILE *proto;
    if (proto) { c->out = proto; return; }
    fflush(stdout);
    int pfd = dup(1), nul = open("/dev/null", O_WRONLY);
    if (pfd < 0 || nul < 0) return;
    dup2(nul, 1); close(nul);
    proto = fdopen(pfd, "w"); static char pbuf[1 << 16]; setvbuf(proto, pbuf, _IOFBF, sizeof pbuf);
    c->out = proto;
}

/* workspace of exactly lwork bytes; for align4 the block is 4 bytes longer and work = block + 4 so that
 * the byte after the workspace is still the first byte of the redzone */
#define GUARD4 0x5aa5c33cu
static char *st_work_alloc(long lwork, int align4, char **block) {
    size_t sz = (size_t)lwork + (align4 ? 4 : 0);
    char *b = malloc(sz ? sz : 1); *block = b;
    if (align4) { uint32_t g = GUARD4; memcpy(b, &g, 4); }
    memset(b + (align4 ? 4 : 0), 0xEE, (size_t)lwork);
    return b + (align4 ? 4 : 0);
}
static long st_guard_bad(const char *block, int align4) {
    if (!align4 || !block) return 0;
    uint32_t g; memcpy(&g, block, 4); return g != GUARD4;
}

/* 64-bit index builds: the library does not align its int_t arrays inside a workspace (only the scalar arrays get
 * a DoubleAlign fix-up), so a workspace that is 4 (mod 8), and any workspace in single precision (LSUB follows
 * UCOL, whose byte length is then only a multiple of 4), gives misaligned int_t accesses (UBSan: "store to
 * misaligned address ... for type 'int_t'", reported as defect D11b).  Unless idx64_unaligned=1 is given these
 * configurations are left out in such builds so that the rest can be checked. */
static int st_ws_allowed(int align4, int scalar_bytes) {
    if (sizeof(int_t) <= 4 || g_idx64_unaligned) return 1;
    return !align4 && scalar_bytes >= 8;
}

/* FNV-1a over raw bytes (used to summarise factors in the exhaustive sweeps) */
static uint64_t st_fnv(uint64_t h, const void *p, size_t n) {
    const unsigned char *b = p; for (size_t i = 0; i < n; i++) { h ^= b[i]; h *= 1099511628211ULL; } return h;
}
static void out_longs(FILE *f, const char *name, long n, const long *v) {
    fprintf(f, "i %s %ld", name, n); for (long i = 0; i < n; i++) fprintf(f, " %ld", v[i]); fputc('\n', f);
}
static const char *pfx(char *buf, size_t sz, const char *prefix, const char *name) { snprintf(buf, sz, "%s%s", prefix, name); return buf; }
#endif
