/* Force-included (-include) into every SuperLU translation unit built by /verif/check.
 * SuperLU routes every allocation through USER_MALLOC / USER_FREE / USER_ABORT
 * (SRC/slu_util.h); the check defines those on the command line to the functions below,
 * which gives an allocation ledger, fault injection and a recoverable ABORT without
 * touching the repository. */
#ifndef SLU_VERIF_ALLOC_H
#define SLU_VERIF_ALLOC_H
#include <stddef.h>
#ifdef __cplusplus
extern "C" {
#endif
void *slu_verif_malloc(size_t size, const char *file, int line);
void  slu_verif_free(void *p, const char *file, int line);
void  slu_verif_abort(const char *msg);
#ifdef __cplusplus
}
#endif
#endif
