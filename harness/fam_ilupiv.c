// FAMILY(ilupiv, "C15 ilu_[sdcz]pivotL called directly on synthetic supernodes: the whole input space of the pivot routine")
#include "putil.h"
#include "ilu_events.h"
#define FAMILY_INC "fam_ilupiv.inc"
#include "all_prec.h"
void fam_ilupiv(ctx_t *c) {
    for (long i = c->start; i < c->start + c->count; i++) {
        rng_t r; case_rng(c, i, &r); char ty = pick_ty(c, i);
        DISPATCH_TY(ty, ilupiv_case, c, i, &r);
    }
}
