#include "common.h"
#include <stdarg.h>
#include <pthread.h>

/* ------------------------------------------------------------------ PRNG */
static uint64_t splitmix(uint64_t *x) {
    uint64_t z = (*x += 0x9e3779b97f4a7c15ULL);
    z = (z ^ (z >> 30)) * 0xbf58476d1ce4e5b9ULL;
    z = (z ^ (z >> 27)) * 0x94d049bb133111ebULL;
    return z ^ (z >> 31);
}
void rng_seed(rng_t *r, uint64_t seed) { for (int i = 0; i < 4; i++) r->s[i] = splitmix(&seed); }
static inline uint64_t rotl(uint64_t x, int k) { return (x << k) | (x >> (64 - k)); }
uint64_t rng_u64(rng_t *r) {
    uint64_t *s = r->s, result = rotl(s[1] * 5, 7) * 9, t = s[1] << 17;
    s[2] ^= s[0]; s[3] ^= s[1]; s[1] ^= s[2]; s[0] ^= s[3]; s[2] ^= t; s[3] = rotl(s[3], 45);
    return result;
}
int rng_int(rng_t *r, int lo, int hi) { if (hi <= lo) return lo; return lo + (int)(rng_u64(r) % (uint64_t)(hi - lo + 1)); }
double rng_unit(rng_t *r) { return (double)(rng_u64(r) >> 11) * (1.0 / 9007199254740992.0); }
int rng_chance(rng_t *r, double p) { return rng_unit(r) < p; }
void rng_perm(rng_t *r, int n, int *p) {
    for (int i = 0; i < n; i++) p[i] = i;
    for (int i = n - 1; i > 0; i--) { int j = rng_int(r, 0, i); int t = p[i]; p[i] = p[j]; p[j] = t; }
}

/* ------------------------------------------------------------------ ctx */
const char *ctx_arg(const ctx_t *c, const char *key, const char *dflt) {
    size_t kl = strlen(key);
    for (int i = 0; i < c->argc; i++)
        if (!strncmp(c->argv[i], key, kl) && c->argv[i][kl] == '=') return c->argv[i] + kl + 1;
    return dflt;
}
long ctx_argl(const ctx_t *c, const char *key, long dflt) {
    const char *v = ctx_arg(c, key, NULL); return v ? atol(v) : dflt;
}
void case_rng(const ctx_t *c, long idx, rng_t *r) {
    uint64_t h = c->seed * 0x9e3779b97f4a7c15ULL + 0x1234567ULL;
    for (const char *p = c->family; *p; p++) h = (h ^ (uint64_t)*p) * 0x100000001b3ULL;
    h ^= (uint64_t)idx * 0xd6e8feb86659fd93ULL;
    rng_seed(r, h);
}

/* ------------------------------------------------------------------ ledger */
typedef struct { void *p; size_t size; const char *file; int line; long seq; int harness; } blk_t;
static blk_t *tab; static size_t tabcap; static size_t tabn;
static long n_mallocs, n_double_free, n_foreign_free;
static int poison = -1;
static const char *fault_filter; static long fault_kth, fault_seen, fault_fired_n; static int fault_armed;
static const char *count_filter_s; static long count_matches;
static pthread_mutex_t led_mu = PTHREAD_MUTEX_INITIALIZER;
jmp_buf slu_abort_jmp; volatile int slu_abort_armed; char slu_abort_msg[512];
/* freed pointer ring for double-free detection (ASan would also catch a real one) */
#define FREED_N 4096
static void *freed_ring[FREED_N]; static size_t freed_pos;

static size_t hptr(void *p) { uint64_t x = (uint64_t)(uintptr_t)p; x ^= x >> 33; x *= 0xff51afd7ed558ccdULL; x ^= x >> 33; return (size_t)x; }
static void tab_grow(void) {
    size_t nc = tabcap ? tabcap * 2 : 1024; blk_t *nt = calloc(nc, sizeof(blk_t));
    for (size_t i = 0; i < tabcap; i++) if (tab[i].p) { size_t k = hptr(tab[i].p) & (nc - 1); while (nt[k].p) k = (k + 1) & (nc - 1); nt[k] = tab[i]; }
    free(tab); tab = nt; tabcap = nc;
}
static blk_t *tab_find(void *p) {
    if (!tabcap) return NULL;
    size_t k = hptr(p) & (tabcap - 1);
    while (tab[k].p) { if (tab[k].p == p) return &tab[k]; k = (k + 1) & (tabcap - 1); }
    return NULL;
}
static void tab_del(blk_t *b) {
    size_t i = (size_t)(b - tab); tab[i].p = NULL; tabn--;
    size_t j = (i + 1) & (tabcap - 1);
    while (tab[j].p) { blk_t t = tab[j]; tab[j].p = NULL; size_t k = hptr(t.p) & (tabcap - 1); while (tab[k].p) k = (k + 1) & (tabcap - 1); tab[k] = t; j = (j + 1) & (tabcap - 1); }
}
static int is_harness(const char *file) { return file && !strcmp(file, "harness"); }

void *slu_verif_malloc(size_t size, const char *file, int line) {
    pthread_mutex_lock(&led_mu);
    n_mallocs++;
    if (!is_harness(file)) {
        if (count_filter_s && strstr(file, count_filter_s)) count_matches++;
        if (fault_armed && (!fault_filter || strstr(file, fault_filter))) {
            fault_seen++;
            if (fault_seen == fault_kth) { fault_fired_n++; pthread_mutex_unlock(&led_mu); return NULL; }
        }
    }
    void *p = malloc(size ? size : 1);
    if (p) {
        if (poison >= 0) memset(p, poison, size);
        if ((tabn + 1) * 2 > tabcap) tab_grow();
        size_t k = hptr(p) & (tabcap - 1); while (tab[k].p) k = (k + 1) & (tabcap - 1);
        tab[k].p = p; tab[k].size = size; tab[k].file = file; tab[k].line = line; tab[k].seq = n_mallocs; tab[k].harness = is_harness(file);
        tabn++;
        for (size_t i = 0; i < FREED_N; i++) if (freed_ring[i] == p) freed_ring[i] = NULL;
    }
    pthread_mutex_unlock(&led_mu);
    return p;
}
void slu_verif_free(void *p, const char *file, int line) {
    (void)file; (void)line;
    pthread_mutex_lock(&led_mu);
    blk_t *b = tab_find(p);
    if (!b) {
        int dbl = 0; for (size_t i = 0; i < FREED_N; i++) if (p && freed_ring[i] == p) dbl = 1;
        if (dbl) { n_double_free++; pthread_mutex_unlock(&led_mu); return; } /* recorded, not performed */
        n_foreign_free++; pthread_mutex_unlock(&led_mu);
        if (p) free(p);   /* memory the ledger never saw (e.g. plain malloc by a caller) */
        return;
    }
    tab_del(b);
    freed_ring[freed_pos++ % FREED_N] = p;
    pthread_mutex_unlock(&led_mu);
    free(p);
}
void slu_verif_abort(const char *msg) {
    if (slu_abort_armed) { strncpy(slu_abort_msg, msg, sizeof slu_abort_msg - 1); slu_abort_armed = 0; longjmp(slu_abort_jmp, 1); }
    fprintf(stderr, "SLU-ABORT %s\n", msg); fflush(NULL); abort();
}
void led_reset(void) { n_mallocs = n_double_free = n_foreign_free = 0; fault_armed = 0; fault_fired_n = 0; count_filter_s = NULL; count_matches = 0; }
long led_live_blocks(int lib) { long c = 0; for (size_t i = 0; i < tabcap; i++) if (tab[i].p && !(lib && tab[i].harness)) c++; return c; }
long led_live_bytes(int lib) { long c = 0; for (size_t i = 0; i < tabcap; i++) if (tab[i].p && !(lib && tab[i].harness)) c += (long)tab[i].size; return c; }
long led_total_mallocs(void) { return n_mallocs; }
long led_double_frees(void) { return n_double_free; }
long led_foreign_frees(void) { return n_foreign_free; }
void led_dump(FILE *f, int lib) { for (size_t i = 0; i < tabcap; i++) if (tab[i].p && !(lib && tab[i].harness)) fprintf(f, "# live %s:%d size=%zu seq=%ld\n", tab[i].file, tab[i].line, tab[i].size, tab[i].seq); }
void led_poison(int byte) { poison = byte; }
void led_fault_arm(const char *s, long kth) { fault_filter = s; fault_kth = kth; fault_seen = 0; fault_fired_n = 0; fault_armed = 1; }
void led_fault_disarm(void) { fault_armed = 0; }
long led_fault_fired(void) { return fault_fired_n; }
void led_count_filter(const char *s) { count_filter_s = s; count_matches = 0; }
long led_match_count(void) { return count_matches; }

/* ------------------------------------------------------------------ tuning */
void set_tuning(int panel, int relax, int maxsuper, int rowblk, int colblk, int fill, int ilu_maxsuper) {
    slu_verif_ienv[1] = panel; slu_verif_ienv[2] = relax; slu_verif_ienv[3] = maxsuper; slu_verif_ienv[4] = rowblk;
    slu_verif_ienv[5] = colblk; slu_verif_ienv[6] = fill; slu_verif_ienv[7] = ilu_maxsuper;
}
void clear_tuning(void) { for (int i = 0; i < 8; i++) slu_verif_ienv[i] = 0; }
void rand_tuning(rng_t *r, int *t) {
    /* legal tuning parameters: panel >= 1, 1 <= relax <= maxsuper, blocks >= 1, fill >= 4 by default
       (smaller fill estimates are requested explicitly by the storage families) */
    t[0] = 0;
    if (rng_chance(r, 0.15)) { for (int i = 1; i < 8; i++) t[i] = 0; return; }   /* compiled-in defaults */
    t[3] = rng_int(r, 1, 8);            /* maxsuper */
    t[2] = rng_int(r, 1, t[3]);         /* relax <= maxsuper */
    t[1] = rng_int(r, 1, 8);            /* panel */
    t[4] = rng_int(r, 1, 4) * (rng_chance(r, 0.5) ? 1 : 50);
    t[5] = rng_int(r, 1, 4) * (rng_chance(r, 0.5) ? 1 : 25);
    t[6] = rng_int(r, 4, 30);
    t[7] = rng_int(r, t[2], 8);         /* ILU maxsuper >= relax */
}

/* ------------------------------------------------------------------ generators */
double gen_value(rng_t *r, int val) {
    switch (val) {
    case VAL_SMALLINT: { int v = rng_int(r, 1, 4); return rng_chance(r, 0.5) ? v : -v; }
    case VAL_DYADIC: { int v = rng_int(r, 1, 15); double x = ldexp((double)v, rng_int(r, -3, 3)); return rng_chance(r, 0.5) ? x : -x; }
    case VAL_SCALED: { double x = (0.5 + rng_unit(r)) * pow(10.0, rng_int(r, -12, 12)); return rng_chance(r, 0.5) ? x : -x; }
    case VAL_GENERIC: default: { double x = 2.0 * rng_unit(r) - 1.0; if (x == 0.0) x = 0.5; return x; }
    }
}
static int cmp_intt(const void *a, const void *b) { int_t x = *(const int_t *)a, y = *(const int_t *)b; return (x > y) - (x < y); }
void gmat_gen(rng_t *r, int m, int n, int pat, int val, int nonsing, int cplx, gmat_t *g) {
    static const char *pn[] = { "diag", "band", "arrow", "block", "random", "dense", "tridiag", "arrowtail" };
    static const char *vn[] = { "smallint", "dyadic", "generic", "scaled", "diagdom" };
    if (pat == PAT_ANY) pat = rng_int(r, 0, PAT_NUM - 1);
    if (val == VAL_ANY) val = rng_int(r, 0, VAL_NUM - 1);
    char *mk = calloc((size_t)m * n + 1, 1);
#define MK(i, j) mk[(size_t)(j) * m + (i)]
    int mn = m < n ? m : n;
    int bw, bs; double dens;
    switch (pat) {
    case PAT_DIAG: for (int i = 0; i < mn; i++) MK(i, i) = 1; break;
    case PAT_TRIDIAG: for (int j = 0; j < n; j++) for (int i = j - 1; i <= j + 1; i++) if (i >= 0 && i < m) MK(i, j) = 1; break;
    case PAT_BAND: bw = rng_int(r, 1, 3); for (int j = 0; j < n; j++) for (int i = j - bw; i <= j + bw; i++) if (i >= 0 && i < m && (i == j || rng_chance(r, 0.7))) MK(i, j) = 1; break;
    case PAT_ARROW: for (int i = 0; i < mn; i++) MK(i, i) = 1;
        { int k = rng_chance(r, 0.5) ? 0 : mn - 1; if (mn > 0) { for (int i = 0; i < m; i++) if (rng_chance(r, 0.8)) MK(i, k < n ? k : 0) = 1; for (int j = 0; j < n; j++) if (rng_chance(r, 0.8)) MK(k < m ? k : 0, j) = 1; } } break;
    case PAT_ARROWTAIL: { int n2 = mn >= 6 ? rng_int(r, 2, 5) : 0, n1 = mn - n2;
        for (int i = 0; i < mn; i++) MK(i, i) = 1;
        for (int i = 0; i < n1; i++) { MK(i, 0) = 1; MK(0, i) = 1; }
        for (int j = n1; j < mn; j++) for (int i = j - 1; i <= j + 1; i++) if (i >= n1 && i < mn) MK(i, j) = 1; } break;
    case PAT_BLOCK: bs = rng_int(r, 2, 4); for (int j = 0; j < n; j++) for (int i = 0; i < m; i++) if (i / bs == j / bs && rng_chance(r, 0.85)) MK(i, j) = 1;
        for (int k = 0; k < mn / 2; k++) MK(rng_int(r, 0, m - 1), rng_int(r, 0, n - 1)) = 1; break;
    case PAT_DENSE: for (int j = 0; j < n; j++) for (int i = 0; i < m; i++) if (rng_chance(r, 0.9)) MK(i, j) = 1; break;
    case PAT_RANDOM: default: dens = 0.05 + 0.5 * rng_unit(r) * rng_unit(r); for (int j = 0; j < n; j++) for (int i = 0; i < m; i++) if (rng_chance(r, dens)) MK(i, j) = 1; break;
    }
    if (nonsing == 3) { /* every row and every column holds at least one entry */
        for (int i = 0; i < m && n > 0; i++) { int any = 0; for (int j = 0; j < n; j++) any |= MK(i, j); if (!any) MK(i, rng_int(r, 0, n - 1)) = 1; }
        for (int j = 0; j < n && m > 0; j++) { int any = 0; for (int i = 0; i < m; i++) any |= MK(i, j); if (!any) MK(rng_int(r, 0, m - 1), j) = 1; } }
    if (nonsing == 2) { for (int i = 0; i < mn; i++) MK(i, i) = 1; }
    else if (nonsing == 1 && m == n) { int *p = malloc(sizeof(int) * (n + 1)); rng_perm(r, n, p); for (int j = 0; j < n; j++) MK(p[j], j) = 1; free(p); }
    long nnz = 0; for (size_t k = 0; k < (size_t)m * n; k++) nnz += mk[k];
    g->m = m; g->n = n; g->nnz = nnz; g->pat = pn[pat]; g->val = vn[val];
    g->colptr = HMALLOC(sizeof(int_t) * (n + 1)); g->rowind = HMALLOC(sizeof(int_t) * (nnz + 1));
    g->re = HMALLOC(sizeof(double) * (nnz + 1)); g->im = HMALLOC(sizeof(double) * (nnz + 1));
    long k = 0;
    for (int j = 0; j < n; j++) {
        g->colptr[j] = k;
        for (int i = 0; i < m; i++) if (MK(i, j)) {
            g->rowind[k] = i;
            if (val == VAL_DIAGDOM) { g->re[k] = (i == j) ? (double)(m + n) * (rng_chance(r, 0.5) ? 1 : -1) : gen_value(r, VAL_GENERIC); g->im[k] = cplx ? gen_value(r, VAL_GENERIC) : 0.0; }
            else { g->re[k] = gen_value(r, val); g->im[k] = cplx ? (rng_chance(r, 0.2) ? 0.0 : gen_value(r, val)) : 0.0;
                   if (cplx && rng_chance(r, 0.1)) g->re[k] = 0.0; if (g->re[k] == 0.0 && g->im[k] == 0.0) g->re[k] = 1.0; }
            k++;
        }
    }
    g->colptr[n] = k;
    free(mk);
#undef MK
}
void gmat_free(gmat_t *g) { if (g->colptr) HFREE(g->colptr); if (g->rowind) HFREE(g->rowind); if (g->re) HFREE(g->re); if (g->im) HFREE(g->im); memset(g, 0, sizeof *g); }
void gmat_transpose(const gmat_t *a, gmat_t *t) {
    t->m = a->n; t->n = a->m; t->nnz = a->nnz; t->pat = a->pat; t->val = a->val;
    t->colptr = HMALLOC(sizeof(int_t) * (t->n + 1)); t->rowind = HMALLOC(sizeof(int_t) * (a->nnz + 1));
    t->re = HMALLOC(sizeof(double) * (a->nnz + 1)); t->im = HMALLOC(sizeof(double) * (a->nnz + 1));
    for (int j = 0; j <= t->n; j++) t->colptr[j] = 0;
    for (long k = 0; k < a->nnz; k++) t->colptr[a->rowind[k] + 1]++;
    for (int j = 0; j < t->n; j++) t->colptr[j + 1] += t->colptr[j];
    int_t *nx = malloc(sizeof(int_t) * (t->n + 1)); memcpy(nx, t->colptr, sizeof(int_t) * (t->n + 1));
    for (int j = 0; j < a->n; j++) for (int_t k = a->colptr[j]; k < a->colptr[j + 1]; k++) { int_t q = nx[a->rowind[k]]++; t->rowind[q] = j; t->re[q] = a->re[k]; t->im[q] = a->im[k]; }
    free(nx); (void)cmp_intt;
}

/* ------------------------------------------------------------------ output */
void out_case(FILE *f, const char *fam, long id) { fprintf(f, "case %s %ld\n", fam, id); }
void out_end(FILE *f) { fprintf(f, "end\n"); fflush(f); }
void out_p(FILE *f, const char *key, const char *fmt, ...) { va_list ap; va_start(ap, fmt); fprintf(f, "p %s ", key); vfprintf(f, fmt, ap); fputc('\n', f); va_end(ap); }
void out_ints(FILE *f, const char *name, long n, const int *v) { fprintf(f, "i %s %ld", name, n); for (long i = 0; i < n; i++) fprintf(f, " %d", v[i]); fputc('\n', f); }
void out_intts(FILE *f, const char *name, long n, const int_t *v) { fprintf(f, "i %s %ld", name, n); for (long i = 0; i < n; i++) fprintf(f, " %lld", (long long)v[i]); fputc('\n', f); }
void out_f64(FILE *f, const char *name, long n, const double *v) { fprintf(f, "f %s %ld", name, n); for (long i = 0; i < n; i++) { uint64_t b; memcpy(&b, &v[i], 8); fprintf(f, " %016llx", (unsigned long long)b); } fputc('\n', f); }
void out_f32(FILE *f, const char *name, long n, const float *v) { fprintf(f, "g %s %ld", name, n); for (long i = 0; i < n; i++) { uint32_t b; memcpy(&b, &v[i], 4); fprintf(f, " %08x", b); } fputc('\n', f); }
void out_f64_1(FILE *f, const char *name, double v) { out_f64(f, name, 1, &v); }
void out_f32_1(FILE *f, const char *name, float v) { out_f32(f, name, 1, &v); }
void out_begin_marker(const char *fam, long id) { fprintf(stderr, "BEGIN %s %ld\n", fam, id); fflush(stderr); }
void out_begin_note(const char *fam, long id, const char *note) { fprintf(stderr, "BEGIN %s %ld %s\n", fam, id, note); fflush(stderr); }
