#include "ilu_events.h"
static iluevlog_t *cur;
static void hook(int phase, int dtype, int jcol, double u, int usepr, int pivrow, int diagind, int milu,
                 const void *drop_sum, double fill_tol, int ncand, const int_t *rows, const void *vals,
                 const int *marker, const int *swap, int n, int info) {
    iluevlog_t *lg = cur; if (!lg) return;
    if (phase == 2) { lg->dropnzp += ncand; lg->ncalls2++; return; }   /* ilu_?drop_row replaced ncand pivots (MILU compensation cancelled them) */
    int clamped = 0;
    if (ncand < 0) { ncand = 0; clamped = 1; }   /* after a zero pivot a supernode may hold fewer rows than columns (open finding) */
    if (phase == 0) {
        if (lg->n == lg->cap) {
            lg->cap = lg->cap ? 2 * lg->cap : 64; lg->ev = realloc(lg->ev, sizeof(iluev_t) * lg->cap);
            lg->ds = realloc(lg->ds, (size_t)lg->elsize * lg->cap);
        }
        if (lg->npool + ncand + 1 > lg->poolcap) {
            lg->poolcap = 2 * (lg->npool + ncand) + 64;
            lg->rows0 = realloc(lg->rows0, sizeof(int_t) * lg->poolcap); lg->rows1 = realloc(lg->rows1, sizeof(int_t) * lg->poolcap);
            lg->elig0 = realloc(lg->elig0, sizeof(int) * lg->poolcap);
            lg->vals0 = realloc(lg->vals0, (size_t)lg->elsize * lg->poolcap); lg->vals1 = realloc(lg->vals1, (size_t)lg->elsize * lg->poolcap);
        }
        iluev_t *e = &lg->ev[lg->n]; memset(e, 0, sizeof *e);
        memcpy(lg->ds + (size_t)lg->elsize * lg->n, drop_sum, (size_t)lg->elsize);
        lg->n++;
        e->jcol = jcol; e->dtype = dtype; e->usepr_in = usepr; e->oldrow = pivrow; e->diagind = diagind; e->milu = milu;
        e->ncand = ncand; e->n = n; e->u = u; e->fill_tol = fill_tol; e->off = lg->npool; e->clamped = clamped;
        e->pivrow = -99; e->info = -99;
        if (ncand > 0) {
            memcpy(lg->rows0 + lg->npool, rows, sizeof(int_t) * ncand); memcpy(lg->vals0 + (size_t)lg->elsize * lg->npool, vals, (size_t)lg->elsize * ncand);
            memcpy(lg->rows1 + lg->npool, rows, sizeof(int_t) * ncand); memcpy(lg->vals1 + (size_t)lg->elsize * lg->npool, vals, (size_t)lg->elsize * ncand);
            for (int k = 0; k < ncand; k++) {
                int_t r = rows[k];
                if (r < 0 || r >= n) { lg->elig0[lg->npool + k] = 2; e->badrow = 1; }
                else lg->elig0[lg->npool + k] = (marker[r] <= jcol);
            }
        }
        /* the free row of the zero-pivot fallback: first swap[icol], icol >= jcol, outside every later relaxed supernode */
        e->freerow = -1;
        for (int icol = jcol; icol < n; icol++) {
            int s = swap[icol];
            if (s < 0 || s >= n) { e->badrow = 1; break; }
            if (marker[s] <= jcol) { e->freerow = s; break; }
        }
        lg->npool += ncand;
    } else {
        if (lg->n == 0) { lg->overflow = 1; return; }
        iluev_t *e = &lg->ev[lg->n - 1];
        if (e->jcol != jcol || e->ncand != ncand || e->have_exit) { lg->overflow = 1; return; }
        e->pivrow = pivrow; e->usepr_out = usepr; e->info = info; e->have_exit = 1;
        if (info != 0) {   /* a return without any eligible candidate is the open zero-pivot-path finding: lets check attribute a later crash */
            int any = 0; for (int k = 0; k < ncand; k++) if (lg->elig0[e->off + k] == 1) any = 1;
            if (!any) { fprintf(stderr, "ZEROPIVOT col %d\n", jcol); fflush(stderr); }
        }
        if (ncand > 0) { memcpy(lg->rows1 + e->off, rows, sizeof(int_t) * ncand); memcpy(lg->vals1 + (size_t)lg->elsize * e->off, vals, (size_t)lg->elsize * ncand); }
    }
}
void iev_start(iluevlog_t *lg, int elsize) {
    if (lg->elsize != elsize) { free(lg->ev); free(lg->rows0); free(lg->rows1); free(lg->elig0); free(lg->vals0); free(lg->vals1); free(lg->ds); memset(lg, 0, sizeof *lg); }
    lg->n = 0; lg->npool = 0; lg->elsize = elsize; lg->overflow = 0; lg->dropnzp = 0; lg->ncalls2 = 0; cur = lg; slu_verif_ilu_pivot_hook = hook;
}
void iev_stop(void) { slu_verif_ilu_pivot_hook = 0; cur = NULL; }
void iev_free(iluevlog_t *lg) { free(lg->ev); free(lg->rows0); free(lg->rows1); free(lg->elig0); free(lg->vals0); free(lg->vals1); free(lg->ds); memset(lg, 0, sizeof *lg); }
void iev_emit(FILE *f, const iluevlog_t *lg, const char *pfx, int is_double, int is_complex) {
    char nm[64];
    int *hdr = malloc(sizeof(int) * ((size_t)IEV_NHDR * lg->n + 1)); double *us = malloc(sizeof(double) * (lg->n + 1)), *ft = malloc(sizeof(double) * (lg->n + 1));
    for (int k = 0; k < lg->n; k++) { const iluev_t *e = &lg->ev[k]; int *h = hdr + IEV_NHDR * k;
        h[0] = e->jcol; h[1] = e->usepr_in; h[2] = e->oldrow; h[3] = e->diagind; h[4] = e->milu; h[5] = e->ncand; h[6] = e->n; h[7] = e->freerow;
        h[8] = e->pivrow; h[9] = e->usepr_out; h[10] = e->info; h[11] = e->have_exit; h[12] = e->clamped; h[13] = e->badrow; h[14] = e->dtype; h[15] = 0;
        us[k] = e->u; ft[k] = e->fill_tol; }
    { int dz[2] = { lg->dropnzp, lg->ncalls2 }; snprintf(nm, sizeof nm, "%s.dropnzp", pfx); out_ints(f, nm, 2, dz); }
    snprintf(nm, sizeof nm, "%s.hdr", pfx); out_ints(f, nm, (long)IEV_NHDR * lg->n, hdr);
    snprintf(nm, sizeof nm, "%s.u", pfx); out_f64(f, nm, lg->n, us);
    snprintf(nm, sizeof nm, "%s.filltol", pfx); out_f64(f, nm, lg->n, ft);
    long nd = (long)lg->n * (is_complex ? 2 : 1);
    snprintf(nm, sizeof nm, "%s.ds", pfx); if (is_double) out_f64(f, nm, nd, (double *)lg->ds); else out_f32(f, nm, nd, (float *)lg->ds);
    snprintf(nm, sizeof nm, "%s.rows0", pfx); out_intts(f, nm, lg->npool, lg->rows0);
    snprintf(nm, sizeof nm, "%s.rows1", pfx); out_intts(f, nm, lg->npool, lg->rows1);
    snprintf(nm, sizeof nm, "%s.elig0", pfx); out_ints(f, nm, lg->npool, lg->elig0);
    long nv = lg->npool * (is_complex ? 2 : 1);
    snprintf(nm, sizeof nm, "%s.vals0", pfx); if (is_double) out_f64(f, nm, nv, (double *)lg->vals0); else out_f32(f, nm, nv, (float *)lg->vals0);
    snprintf(nm, sizeof nm, "%s.vals1", pfx); if (is_double) out_f64(f, nm, nv, (double *)lg->vals1); else out_f32(f, nm, nv, (float *)lg->vals1);
    free(hdr); free(us); free(ft);
}
