// FAMILY(lu, "C01-C04 [sdcz]gssv / gstrf+gstrs with pivot events: factors, permutations, solution, singular inputs")
#include "putil.h"
#include "events.h"
#define FAMILY_INC "fam_lu.inc"
#include "all_prec.h"
void fam_lu(ctx_t *c) {
    for (long i = c->start; i < c->start + c->count; i++) {
        rng_t r; case_rng(c, i, &r); char ty = pick_ty(c, i);
        DISPATCH_TY(ty, lu_case, c, i, &r);
    }
}
