// FAMILY(paneldfs, "C02 [sdcz]panel_dfs called directly on synthetic factorization states (panel of w columns, A as NCP view): every array it reads/writes vs the array-level model Slu.PanelDfs.panelDfs")
#include "putil.h"
#define FAMILY_INC "fam_paneldfs.inc"
#include "all_prec.h"
void fam_paneldfs(ctx_t *c) {
    for (long i = c->start; i < c->start + c->count; i++) {
        rng_t r; case_rng(c, i, &r); char ty = pick_ty(c, i);
        DISPATCH_TY(ty, paneldfs_case, c, i, &r);
    }
}
