// FAMILY(args, "C18 every single-argument corruption (and pairs) of a valid call: info, caller objects, ledger")
/* C18 — illegal arguments are rejected with the documented negative info.
 *
 * Case idx -> precision "dszc"[idx & 3], catalogue entry (idx >> 2) % NENT, everything else random from
 * the case generator.  One case = one call of one routine: a valid small call is built (with factors
 * from a preliminary valid call when the routine consumes factors), the entry's corruption is applied
 * to exactly one argument (in 30 % of the cases a second, different argument is corrupted too, which is
 * what makes the ORDER of the tests observable), every caller-owned object is snapshotted, the routine
 * is called with stdout captured (input_error prints there), and the block reports: the scalar facts
 * of the call under the names used by the generated `Args` record, info, the routine name and
 * parameter number printed by input_error, which objects changed, the ledger delta.
 * The harness does not judge anything: the Lean driver (Slu/Drv/Args.lean) does. */
#define _GNU_SOURCE
#include "putil.h"
#include <unistd.h>
#include <fcntl.h>
#include <sys/mman.h>

enum { R_GSSV, R_GSSVX, R_GSISX, R_GSTRS, R_GSRFS, R_GSCON, R_GSEQU, R_TRSV, R_GEMV, R_NUM };
static const char *routine_name[] = { "gssv", "gssvx", "gsisx", "gstrs", "gsrfs", "gscon", "gsequ", "sp_trsv", "sp_gemv" };
enum { O_A, O_L, O_U, O_B, O_X, O_OPT, O_TRANS, O_NORM, O_UPLO, O_TRANSC, O_DIAG, O_EQUED, O_LWORK, O_R, O_C, O_INCX, O_INCY };
enum { F_NONE, F_NROW, F_NCOL, F_NEG, F_NROWNEG, F_NCOLNEG, F_NCOLMIS, F_NCOLZERO, F_STYPE, F_DTYPE, F_MTYPE, F_LDA, F_FACT, F_TRANS, F_EQUIL };
/* kinds: a corruption the documentation says must be rejected; a valid control; a valid call with no
 * right-hand side; a documented-but-known-unscreened tag (sp_trsv, sp_gemv); documented lower-case
 * letters (valid, sp_gemv); a wrong B/X description while B->ncol = X->ncol = 0 (valid for gssvx) */
enum { K_CORRUPT, K_VALID, K_VALID_NRHS0, K_UNSCREENED, K_LOWER, K_NCOL0_TAGS };
static const char *kind_name[] = { "corrupt", "valid", "valid-nrhs0", "unscreened-tag", "lowercase", "ncol0-tags" };
typedef struct { int obj, fld, pos, alt; } site_t;
typedef struct { int routine, kind; site_t site[1]; } entry_t;

#define NCNR ((1 << SLU_NC) | (1 << SLU_NR))
#define NCNCP ((1 << SLU_NC) | (1 << SLU_NCP))
#define C_(r, o, f, p) { r, K_CORRUPT, { { o, f, p, 0 } } }
#define CA(r, o, f, p, alt) { r, K_CORRUPT, { { o, f, p, alt } } }
#define SQ(r, o, p) C_(r, o, F_NROW, p), C_(r, o, F_NCOL, p), C_(r, o, F_NEG, p)
#define TAGS(r, o, p) C_(r, o, F_STYPE, p), C_(r, o, F_DTYPE, p), C_(r, o, F_MTYPE, p)
#define FACTOR(r, o, p) SQ(r, o, p), TAGS(r, o, p)
#define DENSE(r, o, p) C_(r, o, F_LDA, p), TAGS(r, o, p)
#define V_(r) { r, K_VALID, { { 0, 0, 0, 0 } } }
#define XDRV(r) \
    C_(r, O_OPT, F_FACT, 1), C_(r, O_OPT, F_TRANS, 1), C_(r, O_OPT, F_EQUIL, 1), \
    SQ(r, O_A, 2), CA(r, O_A, F_STYPE, 2, NCNR), C_(r, O_A, F_DTYPE, 2), C_(r, O_A, F_MTYPE, 2), \
    C_(r, O_EQUED, F_NONE, 6), C_(r, O_R, F_NONE, 7), C_(r, O_C, F_NONE, 8), C_(r, O_LWORK, F_NONE, 12), \
    C_(r, O_B, F_NCOLNEG, 13), DENSE(r, O_B, 13), \
    C_(r, O_X, F_NCOLNEG, 14), C_(r, O_X, F_NCOLMIS, 14), C_(r, O_X, F_NCOLZERO, 14), C_(r, O_B, F_NCOLMIS, 14), DENSE(r, O_X, 14), \
    V_(r), V_(r), V_(r), { r, K_VALID_NRHS0, { { 0, 0, 0, 0 } } }

static const entry_t catalogue[] = {
    /* gssv (options, A, perm_c, perm_r, L, U, B, stat, info) */
    C_(R_GSSV, O_OPT, F_FACT, 1), SQ(R_GSSV, O_A, 2), CA(R_GSSV, O_A, F_STYPE, 2, NCNR), C_(R_GSSV, O_A, F_DTYPE, 2), C_(R_GSSV, O_A, F_MTYPE, 2),
    C_(R_GSSV, O_B, F_NCOLNEG, 7), DENSE(R_GSSV, O_B, 7), V_(R_GSSV), V_(R_GSSV), { R_GSSV, K_VALID_NRHS0, { { 0, 0, 0, 0 } } },
    /* gssvx, gsisx (options, A, perm_c, perm_r, etree, equed, R, C, L, U, work, lwork, B, X, ...) */
    XDRV(R_GSSVX), XDRV(R_GSISX),
    /* "If B->ncol = 0, only LU decomposition is performed": with no columns the description of B / X is not a
       precondition of gssvx (valid controls; gsisx examines it nevertheless, which C18 does not speak about) */
    { R_GSSVX, K_NCOL0_TAGS, { { O_B, F_STYPE, 0, 0 } } }, { R_GSSVX, K_NCOL0_TAGS, { { O_B, F_DTYPE, 0, 0 } } }, { R_GSSVX, K_NCOL0_TAGS, { { O_B, F_LDA, 0, 0 } } },
    { R_GSSVX, K_NCOL0_TAGS, { { O_X, F_STYPE, 0, 0 } } }, { R_GSSVX, K_NCOL0_TAGS, { { O_X, F_MTYPE, 0, 0 } } }, { R_GSSVX, K_NCOL0_TAGS, { { O_X, F_LDA, 0, 0 } } },
    /* gstrs (trans, L, U, perm_c, perm_r, B, stat, info) */
    C_(R_GSTRS, O_TRANS, F_NONE, 1), FACTOR(R_GSTRS, O_L, 2), FACTOR(R_GSTRS, O_U, 3), DENSE(R_GSTRS, O_B, 6), V_(R_GSTRS), V_(R_GSTRS),
    /* gsrfs (trans, A, L, U, perm_c, perm_r, equed, R, C, B, X, ferr, berr, stat, info) */
    C_(R_GSRFS, O_TRANS, F_NONE, 1), FACTOR(R_GSRFS, O_A, 2), FACTOR(R_GSRFS, O_L, 3), FACTOR(R_GSRFS, O_U, 4),
    DENSE(R_GSRFS, O_B, 10), DENSE(R_GSRFS, O_X, 11), V_(R_GSRFS), V_(R_GSRFS),
    /* gscon (norm, L, U, anorm, rcond, stat, info) */
    C_(R_GSCON, O_NORM, F_NONE, 1), FACTOR(R_GSCON, O_L, 2), FACTOR(R_GSCON, O_U, 3), V_(R_GSCON), V_(R_GSCON),
    /* gsequ (A, r, c, rowcnd, colcnd, amax, info) */
    C_(R_GSEQU, O_A, F_NROWNEG, 1), C_(R_GSEQU, O_A, F_NCOLNEG, 1), TAGS(R_GSEQU, O_A, 1), V_(R_GSEQU), V_(R_GSEQU),
    /* sp_trsv (uplo, trans, diag, L, U, x, stat, info) */
    C_(R_TRSV, O_UPLO, F_NONE, 1), C_(R_TRSV, O_TRANSC, F_NONE, 2), C_(R_TRSV, O_DIAG, F_NONE, 3), SQ(R_TRSV, O_L, 4), SQ(R_TRSV, O_U, 5),
    { R_TRSV, K_UNSCREENED, { { O_L, F_STYPE, 4, 0 } } }, { R_TRSV, K_UNSCREENED, { { O_L, F_DTYPE, 4, 0 } } }, { R_TRSV, K_UNSCREENED, { { O_L, F_MTYPE, 4, 0 } } },
    { R_TRSV, K_UNSCREENED, { { O_U, F_STYPE, 5, 0 } } }, { R_TRSV, K_UNSCREENED, { { O_U, F_DTYPE, 5, 0 } } }, { R_TRSV, K_UNSCREENED, { { O_U, F_MTYPE, 5, 0 } } },
    V_(R_TRSV), V_(R_TRSV),   /* upper-case flags only: the rejection of the documented lower-case ones is not C18's matter */
    /* sp_gemv (trans, alpha, A, x, incx, beta, y, incy) */
    C_(R_GEMV, O_TRANSC, F_NONE, 1), C_(R_GEMV, O_A, F_NROWNEG, 3), C_(R_GEMV, O_A, F_NCOLNEG, 3), C_(R_GEMV, O_INCX, F_NONE, 5), C_(R_GEMV, O_INCY, F_NONE, 8),
    { R_GEMV, K_UNSCREENED, { { O_A, F_STYPE, 3, NCNCP } } }, { R_GEMV, K_UNSCREENED, { { O_A, F_DTYPE, 3, 0 } } }, { R_GEMV, K_UNSCREENED, { { O_A, F_MTYPE, 3, 0 } } },
    { R_GEMV, K_LOWER, { { 0, 0, 0, 0 } } }, V_(R_GEMV), V_(R_GEMV),
};
#define NENT ((long)(sizeof catalogue / sizeof catalogue[0]))

static const entry_t *pick_entry(int routine, rng_t *r) {
    for (int tries = 0; tries < 64; tries++) { const entry_t *e = &catalogue[rng_int(r, 0, (int)NENT - 1)]; if (e->routine == routine) return e; }
    return NULL;
}

/* ------------------------------------------------------------------ snapshots of caller-owned objects */
#define SNAP_MAX 64
static struct { const char *name; void *p; size_t n; unsigned char *copy; } snaps[SNAP_MAX];
static int nsnap;
static void snap_reset(void) { for (int i = 0; i < nsnap; i++) free(snaps[i].copy); nsnap = 0; }
static void snap_add(const char *name, void *p, size_t n) {
    if (!p || nsnap >= SNAP_MAX) return;
    snaps[nsnap].name = name; snaps[nsnap].p = p; snaps[nsnap].n = n; snaps[nsnap].copy = NULL; nsnap++;
}
static void snap_take(void) { for (int i = 0; i < nsnap; i++) { snaps[i].copy = malloc(snaps[i].n + 1); memcpy(snaps[i].copy, snaps[i].p, snaps[i].n); } }
static void snap_diff(char *out, size_t cap) {
    out[0] = 0; size_t l = 0;
    for (int i = 0; i < nsnap; i++)
        if (memcmp(snaps[i].copy, snaps[i].p, snaps[i].n)) {
            int w = snprintf(out + l, cap - l, "%s%s", l ? "," : "", snaps[i].name); if (w > 0 && (size_t)w < cap - l) l += (size_t)w; }
}

/* ------------------------------------------------------------------ stdout capture (input_error uses printf) */
static int cap_fd = -1, saved_fd = -1;
static volatile int in_library;
static void cap_begin(void) {
    fflush(stdout);
    if (cap_fd < 0) cap_fd = memfd_create("c18cap", 0);
    if (ftruncate(cap_fd, 0)) {} lseek(cap_fd, 0, SEEK_SET);
    saved_fd = dup(1); dup2(cap_fd, 1);
}
static void cap_end(char *buf, size_t cap) {
    fflush(stdout); dup2(saved_fd, 1); close(saved_fd); saved_fd = -1;
    if (buf && cap) { off_t n = lseek(cap_fd, 0, SEEK_END); lseek(cap_fd, 0, SEEK_SET);
        if (n < 0) n = 0; if ((size_t)n >= cap) n = (off_t)cap - 1;
        ssize_t g = read(cap_fd, buf, (size_t)n); buf[g > 0 ? g : 0] = 0; }
}
static void on_exit_in_library(void) {
    if (in_library) { fprintf(stderr, "SLU-ABORT exit() called inside the library on the argument-error path\n"); fflush(stderr); _exit(78); }
}

#define FAMILY_INC "fam_args.inc"
#include "all_prec.h"

void fam_args(ctx_t *c) {
    static int reg; if (!reg) { atexit(on_exit_in_library); reg = 1; }
    const char *only = ctx_arg(c, "routine", "");
    for (long i = c->start; i < c->start + c->count; i++) {
        rng_t r; case_rng(c, i, &r); char ty = pick_ty(c, i);
        const entry_t *e = &catalogue[(i >> 2) % NENT];
        if (only[0] && strcmp(only, routine_name[e->routine])) {
            out_case(c->out, c->family, i); out_p(c->out, "ty", "%c", ty); out_p(c->out, "skip", "1"); out_end(c->out); continue; }
        DISPATCH_TY(ty, args_case, c, i, &r, e);
    }
}
