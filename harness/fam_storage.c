// FAMILY(storage, "C07 one matrix factored under many storage configurations (fill estimate, malloc vs workspace length/alignment, gstrf/gssvx)")
#include "storage_util.h"
#define FAMILY_INC "fam_storage.inc"
#include "all_prec.h"
void fam_storage(ctx_t *c) {
    st_wd_install(c); st_split_stdout(c);
    for (long i = c->start; i < c->start + c->count; i++) {
        rng_t r; case_rng(c, i, &r); char ty = pick_ty(c, i);
        DISPATCH_TY(ty, storage_case, c, i, &r);
    }
    clear_tuning(); fflush(c->out);
}
