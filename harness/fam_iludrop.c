// FAMILY(iludrop, "C15 [sd]qselect and ilu_[sd]drop_row called directly: the dropping rules of the incomplete LU against the model Slu.IluDrop / Slu.QSelect")
#include "putil.h"
#include "ilu_events.h"
/* drop_row: s, d, c, z; qselect: s, d (the complex files call [sd]qselect) */
#define PREC_S
#include "prec.h"
#include "fam_iludrop.inc"
#include "unprec.h"
#define PREC_D
#include "prec.h"
#include "fam_iludrop.inc"
#include "unprec.h"
#define PREC_C
#include "prec.h"
#include "fam_iludrop.inc"
#include "unprec.h"
#define PREC_Z
#include "prec.h"
#include "fam_iludrop.inc"
#include "unprec.h"
void fam_iludrop(ctx_t *c) {
    for (long i = c->start; i < c->start + c->count; i++) {
        rng_t r; case_rng(c, i, &r); char ty = pick_ty(c, i);
        int dbl = (ty == 'd' || ty == 'z');
        int kind = (i % 5) < 2;   /* 40% qselect, 60% drop_row */
        if (kind) { if (dbl) iludrop_qsel_d(c, i, &r); else iludrop_qsel_s(c, i, &r); }
        else { if (ty == 'z') iludrop_row_z(c, i, &r); else if (ty == 'c') iludrop_row_c(c, i, &r); else if (dbl) iludrop_row_d(c, i, &r); else iludrop_row_s(c, i, &r); }
    }
}
