// FAMILY(fparith, "trusted-base self test: Lean's Float/Float32 operations (the executed model's arithmetic) vs the C compiler's, bit for bit")
/* One case = 96 operations on operands drawn from the whole range (random bit patterns, subnormals,
 * huge, small integers, signed zeros, near-ties).  The driver recomputes every operation with
 * Float / Float32 and compares bit patterns (NaN canonicalised).  Operation 10 (a*b + b, two
 * roundings) detects FMA contraction on either side. */
#include "common.h"
#include <math.h>
#define NOPS 96
static double draw_d(rng_t *r) {
    for (;;) {
        double v; uint64_t u;
        switch (rng_int(r, 0, 6)) {
        case 0: v = (rng_unit(r) - 0.5) * 16.0; break;
        case 1: u = rng_u64(r); memcpy(&v, &u, 8); break;
        case 2: u = rng_u64(r) & 0x800fffffffffffffULL; memcpy(&v, &u, 8); break;                  /* subnormal / zero */
        case 3: v = ldexp(rng_unit(r) + 0.5, rng_int(r, 900, 1023)) * (rng_chance(r, 0.5) ? 1 : -1); break;
        case 4: v = (double)rng_int(r, -9, 9); break;
        case 5: v = rng_chance(r, 0.5) ? 0.0 : -0.0; break;
        default: v = 1.0 + ldexp((double)rng_int(r, -3, 3), -52 + rng_int(r, 0, 2)); break;        /* near 1: ties of the last place */
        }
        if (v == v && !isinf(v)) return v;
    }
}
static float draw_s(rng_t *r) {
    for (;;) {
        float v; uint32_t u;
        switch (rng_int(r, 0, 6)) {
        case 0: v = (float)((rng_unit(r) - 0.5) * 16.0); break;
        case 1: u = (uint32_t)rng_u64(r); memcpy(&v, &u, 4); break;
        case 2: u = (uint32_t)rng_u64(r) & 0x807fffffu; memcpy(&v, &u, 4); break;
        case 3: v = ldexpf((float)rng_unit(r) + 0.5f, rng_int(r, 100, 127)) * (rng_chance(r, 0.5) ? 1 : -1); break;
        case 4: v = (float)rng_int(r, -9, 9); break;
        case 5: v = rng_chance(r, 0.5) ? 0.0f : -0.0f; break;
        default: v = 1.0f + ldexpf((float)rng_int(r, -3, 3), -23 + rng_int(r, 0, 2)); break;
        }
        if (v == v && !isinf(v)) return v;
    }
}
void fam_fparith(ctx_t *c) {
    for (long idx = c->start; idx < c->start + c->count; idx++) {
        rng_t r; case_rng(c, idx, &r);
        int dbl = (idx % 2 == 0);
        int op[NOPS];
        out_begin_marker(c->family, idx);
        out_case(c->out, c->family, idx);
        out_p(c->out, "ty", "%c", dbl ? 'd' : 's');
        if (dbl) {
            volatile double a[NOPS], b[NOPS]; double res[NOPS], av[NOPS], bv[NOPS];
            for (int k = 0; k < NOPS; k++) {
                op[k] = rng_int(&r, 0, 10); a[k] = draw_d(&r); b[k] = rng_chance(&r, 0.1) ? a[k] : draw_d(&r);
                volatile double t;
                switch (op[k]) {
                case 0: t = a[k] + b[k]; break; case 1: t = a[k] - b[k]; break; case 2: t = a[k] * b[k]; break;
                case 3: t = a[k] / b[k]; break; case 4: t = sqrt(fabs(a[k])); break; case 5: t = fabs(a[k]); break;
                case 6: t = -a[k]; break; case 7: { volatile float f = (float)a[k]; t = (double)f; } break;
                case 8: t = (a[k] <= b[k]) ? 1.0 : 0.0; break; case 9: t = (a[k] < b[k]) ? 1.0 : 0.0; break;
                default: { volatile double m = a[k] * b[k]; t = m + b[k]; } break;
                }
                res[k] = t; av[k] = a[k]; bv[k] = b[k];
            }
            out_ints(c->out, "op", NOPS, op); out_f64(c->out, "a", NOPS, av); out_f64(c->out, "b", NOPS, bv); out_f64(c->out, "r", NOPS, res);
        } else {
            volatile float a[NOPS], b[NOPS]; float res[NOPS], av[NOPS], bv[NOPS];
            for (int k = 0; k < NOPS; k++) {
                op[k] = rng_int(&r, 0, 10); a[k] = draw_s(&r); b[k] = rng_chance(&r, 0.1) ? a[k] : draw_s(&r);
                volatile float t;
                switch (op[k]) {
                case 0: t = a[k] + b[k]; break; case 1: t = a[k] - b[k]; break; case 2: t = a[k] * b[k]; break;
                case 3: t = a[k] / b[k]; break; case 4: t = sqrtf(fabsf(a[k])); break; case 5: t = fabsf(a[k]); break;
                case 6: t = -a[k]; break; case 7: { volatile double d = (double)a[k] * 3.0; t = (float)d; } break;   /* widen, scale, narrow */
                case 8: t = (a[k] <= b[k]) ? 1.0f : 0.0f; break; case 9: t = (a[k] < b[k]) ? 1.0f : 0.0f; break;
                default: { volatile float m = a[k] * b[k]; t = m + b[k]; } break;
                }
                res[k] = t; av[k] = a[k]; bv[k] = b[k];
            }
            out_ints(c->out, "op", NOPS, op); out_f32(c->out, "a", NOPS, av); out_f32(c->out, "b", NOPS, bv); out_f32(c->out, "r", NOPS, res);
        }
        out_end(c->out);
    }
}
