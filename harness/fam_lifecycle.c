// FAMILY(lifecycle, "C19 random documented API lifecycles: ledger at every quiescent point, double frees, poison differential (LU drivers and pipeline; nonsingular + last-pivot-singular inputs)")
// FAMILY(lifecycle_sing, "C19 the same lifecycles on generally singular inputs (structurally singular, duplicate columns, exact cancellation): singular-input stream")
// FAMILY(lifecycle_ilu, "C19 all gsisx (ILU) lifecycles, default and aggressive dropping, nonsingular and singular inputs: ilu-risky stream")
/* One case = one lifecycle: create, (order), factor with a driver or the pipeline, optional size query
 * (lwork = -1), optional out-of-space attempt (small caller workspace, or a failed allocation injected
 * with led_fault_arm), then a random sequence of re-solves (FACTORED), re-factorizations with each Fact
 * mode, direct gstrs / gscon / gsrfs / QuerySpace calls, and finally the documented Destroy_* calls.
 * After every API call the number of live library blocks is recorded (quiescent point); at the end
 * led_live_blocks(1)/bytes must be 0 and led_double_frees() 0.  The whole lifecycle is run twice, with
 * fresh blocks filled 0xA5 and 0x5A: the observable outputs must be bit-identical (otherwise an
 * uninitialised value reached a result).  ASan + UBSan are active (variant asan).
 * The Lean driver replays the operation sequence through Slu.Ledger.step and compares the counts. */
#include "putil.h"

enum { ST_GSSV = 0, ST_GSSVX, ST_PIPE, ST_GSISX };
enum { OOS_NONE = 0, OOS_LWORK, OOS_FAULT };
enum { OUT_OK = 0, OUT_SING, OUT_OOS, OUT_QUERY };
enum { FACT_DOFACT = 0, FACT_SAMEPATTERN, FACT_SAMEROWPERM, FACT_FACTORED, WS_FLAG = 8 };
enum { OBJ_MAT = 0, OBJ_DENSE, OBJ_STAT, OBJ_AC, OBJ_L, OBJ_U };
enum { OP_CREATEMAT = 1, OP_CREATEDENSE, OP_STATINIT, OP_GETPERMC, OP_PREORDER, OP_GSTRF, OP_GSTRS, OP_GSRFS, OP_GSCON, OP_QUERYSPACE,
       OP_GSSV, OP_GSSVX, OP_DESTROY, OP_ABORT };

typedef struct {
    char ty; int n, nrhs, ldb, ldx; gmat_t g; double *bre, *bim;
    int style, nr, colperm, equil, trans, refine, cond, symm; double u;
    int query_first, oos_mode, lwork_small; long fault_k;
    int nsteps, steps[8];
    int singular;            /* 0 none, 1 last-pivot (empty last row, natural order), 2 general */
    int ilu_drop, ilu_milu, ilu_rowperm; double ilu_droptol, ilu_fill;
    int tune[8];
} plan_t;

#define MAXOPS 96
typedef struct { int code, h, a, b, out; long live; } oprec_t;
typedef struct { oprec_t ops[MAXOPS]; int nops; long base; int aborted, fault_fired; } trace_t;
static void lc_rec(trace_t *tr, int code, int h, int a, int b, int out) {
    if (tr->nops >= MAXOPS) return;
    oprec_t *r = &tr->ops[tr->nops++]; r->code = code; r->h = h; r->a = a; r->b = b; r->out = out; r->live = led_live_blocks(1) - tr->base;
}

#define OB_MAXSEC 160
typedef struct { unsigned char *p; size_t n, cap; const char *sec[OB_MAXSEC]; size_t secoff[OB_MAXSEC]; int nsec; } obuf_t;
static void ob_put(obuf_t *o, const char *tag, const void *src, size_t len) {
    if (o->nsec < OB_MAXSEC) { o->sec[o->nsec] = tag; o->secoff[o->nsec] = o->n; o->nsec++; }
    if (o->n + len + 8 > o->cap) { o->cap = (o->n + len + 8) * 2; o->p = realloc(o->p, o->cap); }
    if (len) memcpy(o->p + o->n, src, len);
    o->n += len;
}
static uint64_t ob_hash(const obuf_t *o) { uint64_t h = 1469598103934665603ULL; for (size_t i = 0; i < o->n; i++) { h ^= o->p[i]; h *= 1099511628211ULL; } return h; }
static long ob_diff(const obuf_t *a, const obuf_t *b, const char **sec) {
    size_t m = a->n < b->n ? a->n : b->n; long at = -1;
    for (size_t i = 0; i < m; i++) if (a->p[i] != b->p[i]) { at = (long)i; break; }
    if (at < 0 && a->n != b->n) at = (long)m;
    if (at < 0) return -1;
    *sec = "?"; for (int s = 0; s < a->nsec; s++) if (a->secoff[s] <= (size_t)at) *sec = a->sec[s];
    return at;
}

#define FAMILY_INC "fam_lifecycle.inc"
#include "all_prec.h"

/* remove every entry of row `row` */
static void gmat_drop_row(gmat_t *g, int row) {
    long w = 0;
    for (int j = 0; j < g->n; j++) {
        long beg = g->colptr[j], end = g->colptr[j + 1]; g->colptr[j] = w;
        for (long k = beg; k < end; k++) if (g->rowind[k] != row) { g->rowind[w] = g->rowind[k]; g->re[w] = g->re[k]; g->im[w] = g->im[k]; w++; }
    }
    g->colptr[g->n] = w; g->nnz = w;
}
/* make column dst an exact copy of column src (dense rewrite of the pattern) */
static void gmat_dup_col(gmat_t *g, int src, int dst) {
    int m = g->m, n = g->n; double *re = calloc((size_t)m * n + 1, sizeof(double)), *im = calloc((size_t)m * n + 1, sizeof(double)); char *mk = calloc((size_t)m * n + 1, 1);
    for (int j = 0; j < n; j++) for (long k = g->colptr[j]; k < g->colptr[j + 1]; k++) { size_t q = (size_t)j * m + g->rowind[k]; mk[q] = 1; re[q] = g->re[k]; im[q] = g->im[k]; }
    for (int i = 0; i < m; i++) { mk[(size_t)dst * m + i] = mk[(size_t)src * m + i]; re[(size_t)dst * m + i] = re[(size_t)src * m + i]; im[(size_t)dst * m + i] = im[(size_t)src * m + i]; }
    long nnz = 0; for (size_t q = 0; q < (size_t)m * n; q++) nnz += mk[q];
    HFREE(g->rowind); HFREE(g->re); HFREE(g->im);
    g->rowind = HMALLOC(sizeof(int_t) * (nnz + 1)); g->re = HMALLOC(sizeof(double) * (nnz + 1)); g->im = HMALLOC(sizeof(double) * (nnz + 1));
    long w = 0; for (int j = 0; j < n; j++) { g->colptr[j] = w; for (int i = 0; i < m; i++) if (mk[(size_t)j * m + i]) { g->rowind[w] = i; g->re[w] = re[(size_t)j * m + i]; g->im[w] = im[(size_t)j * m + i]; w++; } }
    g->colptr[n] = w; g->nnz = w; free(re); free(im); free(mk);
}

/* stream: 0 main, 1 singular-input, 2 ilu-risky */
static void plan_gen(rng_t *r, int thorough, char ty, int stream, plan_t *p) {
    memset(p, 0, sizeof *p);
    p->ty = ty; int cplx = (ty == 'c' || ty == 'z');
    /* every gsisx lifecycle lives in the ilu-risky stream (the zero-pivot path of ?gsitrf leaves subscripts -1 in L,
       an open finding, and can be reached with any option set); main and singular-input are LU only */
    p->style = stream == 2 ? ST_GSISX : rng_int(r, 0, 2);
    int risky = stream == 2 && rng_chance(r, 0.6);
    p->n = rng_int(r, 1, thorough ? 30 : 12); if (rng_chance(r, 0.15)) p->n = rng_int(r, 13, thorough ? 60 : 26);
    p->nrhs = rng_int(r, 0, 3); if (p->style == ST_GSISX && p->nrhs == 0) p->nrhs = 1;
    p->ldb = p->n + rng_int(r, 0, 2);
    p->nr = (p->style != ST_PIPE) && rng_chance(r, 0.3);
    p->colperm = rng_int(r, 0, 3); p->equil = rng_chance(r, 0.6); p->trans = rng_int(r, 0, 2); p->refine = rng_int(r, 0, 3); p->cond = rng_chance(r, 0.7);
    p->symm = rng_chance(r, 0.15) && p->colperm == 2;
    { static const double us[] = { 1.0, 1.0, 0.5, 0.1, 0.001, 0.0 }; p->u = us[rng_int(r, 0, 5)]; }
    rand_tuning(r, p->tune);
    int pat = PAT_ANY, val, nonsing = rng_chance(r, 0.5) ? 1 : 2;
    val = rng_chance(r, 0.5) ? VAL_GENERIC : (rng_chance(r, 0.5) ? VAL_DIAGDOM : VAL_SCALED);
    /* fill-heavy inputs so that the growable arrays really expand: arrow pointing the wrong way, natural order, small fill estimate */
    int heavy = rng_chance(r, 0.3) && p->tune[1] != 0;
    if (heavy) { pat = rng_chance(r, 0.6) ? (rng_chance(r, 0.5) ? PAT_ARROW : PAT_ARROWTAIL) : PAT_DENSE; p->colperm = 0; p->tune[6] = rng_int(r, 4, 6); if (p->n < 10) p->n = rng_int(r, 10, thorough ? 40 : 24); p->ldb = p->n + rng_int(r, 0, 2); val = VAL_DIAGDOM; nonsing = 2;
                 if (pat == PAT_ARROWTAIL) { p->tune[6] = rng_int(r, 1, 2); if (p->tune[2] < 1) p->tune[2] = rng_int(r, 1, 4); } }   /* several expansions of every array, then relaxed supernodes in the tail */
    if (p->style == ST_GSISX && !risky) { val = rng_chance(r, 0.5) ? VAL_GENERIC : VAL_DIAGDOM; nonsing = 2; }
    if (stream == 0 && rng_chance(r, 0.12) && p->style != ST_GSISX && p->n >= 2) { p->singular = 1; p->colperm = 0; p->nr = 0; p->u = 1.0; val = VAL_DIAGDOM; nonsing = 2; p->symm = 0; }
    if (stream == 1) { p->singular = 2; nonsing = rng_chance(r, 0.4) ? 0 : nonsing; if (rng_chance(r, 0.4)) val = VAL_SMALLINT; }
    if (risky && rng_chance(r, 0.4)) nonsing = rng_chance(r, 0.5) ? 0 : 1;
    p->ldx = p->n + (rng_chance(r, 0.5) ? 0 : rng_int(r, 1, 3));     /* X's leading dimension is independent of B's */
    gmat_gen(r, p->n, p->n, pat, val, nonsing, cplx, &p->g);
    if (p->singular == 1) gmat_drop_row(&p->g, p->n - 1);
    if (p->singular == 2 && p->n >= 2) { int k = rng_int(r, 0, 2);
        if (k == 0) gmat_drop_row(&p->g, rng_int(r, 0, p->n - 1));
        else if (k == 1) { int a = rng_int(r, 0, p->n - 1), b = rng_int(r, 0, p->n - 1); if (a != b) gmat_dup_col(&p->g, a, b); } }
    p->bre = malloc(sizeof(double) * ((size_t)p->n * (p->nrhs + 1) + 1)); p->bim = malloc(sizeof(double) * ((size_t)p->n * (p->nrhs + 1) + 1));
    for (size_t t = 0; t < (size_t)p->n * p->nrhs; t++) { p->bre[t] = gen_value(r, VAL_GENERIC); p->bim[t] = cplx ? gen_value(r, VAL_GENERIC) : 0.0; }
    p->query_first = (p->style == ST_GSSVX || p->style == ST_GSISX || p->style == ST_PIPE) && rng_chance(r, 0.35);
    if (p->style != ST_GSSV && rng_chance(r, 0.4)) {
        p->oos_mode = rng_chance(r, 0.35) ? OOS_LWORK : OOS_FAULT;
        /* a caller workspace clearly too small for the fixed-size arrays (about (13+2w) n ints + (w+1) n reals):
           the factorization must answer info > n; larger values sometimes succeed and exercise the workspace-owned L,U */
        p->lwork_small = rng_chance(r, 0.7) ? rng_int(r, 8, 40 * p->n) : rng_int(r, 400 * p->n, 4000 * p->n + 20000);
        p->fault_k = rng_int(r, 1, heavy ? 40 : 24);
        if (p->style == ST_GSISX && p->n % 3 == 0) p->oos_mode = OOS_FAULT;   /* (the ILU driver gets both kinds as well: work area too small / a refused allocation) */
    }
    p->nsteps = rng_int(r, 0, 5); for (int s = 0; s < 8; s++) p->steps[s] = rng_int(r, 0, 119);
    if (risky) { static const int rules[] = { DROP_BASIC | DROP_PROWS, DROP_BASIC | DROP_COLUMN, DROP_BASIC | DROP_AREA, DROP_BASIC | DROP_DYNAMIC, DROP_BASIC | DROP_INTERP | DROP_AREA, DROP_BASIC };
                       p->ilu_drop = rules[rng_int(r, 0, 5)]; p->ilu_fill = 1.0 + rng_int(r, 0, 9); }
    else { p->ilu_drop = rng_chance(r, 0.5) ? DROP_BASIC : (DROP_BASIC | DROP_AREA); p->ilu_fill = 10.0; }
    p->ilu_milu = rng_int(r, 0, 3); p->ilu_rowperm = rng_chance(r, 0.5); p->ilu_droptol = rng_chance(r, 0.3) ? 0.0 : 1e-4 * rng_int(r, 1, 100);
}
static void plan_free(plan_t *p) { gmat_free(&p->g); free(p->bre); free(p->bim); }
static void lc_run(const plan_t *p, trace_t *tr, obuf_t *o) { DISPATCH_TY(p->ty, lc_run, p, tr, o); }

static const char *style_names[] = { "gssv", "gssvx", "pipe", "gsisx" };

static void lifecycle_case(ctx_t *c, long idx, rng_t *r, int stream) {
    char ty = pick_ty(c, idx);
    plan_t p; plan_gen(r, c->thorough, ty, stream, &p);
    trace_t t1, t2; obuf_t o1, o2; memset(&t1, 0, sizeof t1); memset(&t2, 0, sizeof t2); memset(&o1, 0, sizeof o1); memset(&o2, 0, sizeof o2);
    /* BEGIN marker with the input class: `check` appends it to the message of a crash of this case */
    fprintf(stderr, "BEGIN %s %ld %s style=%s%s\n", c->family, idx, stream == 0 ? "main" : stream == 1 ? "singular-input" : "ilu-risky", style_names[p.style], p.singular ? " singular" : ""); fflush(stderr);
    if (getenv("LIFECYCLE_DEBUG")) fprintf(stderr, "PLAN style=%s ty=%c n=%d nnz=%ld pat=%s val=%s nr=%d colperm=%d equil=%d trans=%d refine=%d cond=%d u=%g singular=%d query=%d oos=%d lwork=%d fault_k=%ld nsteps=%d ilu(drop=0x%x fill=%g milu=%d mc64=%d tol=%g) tuning=%d,%d,%d,%d,%d,%d,%d\n",
        style_names[p.style], p.ty, p.n, p.g.nnz, p.g.pat, p.g.val, p.nr, p.colperm, p.equil, p.trans, p.refine, p.cond, p.u, p.singular, p.query_first, p.oos_mode, p.lwork_small, p.fault_k, p.nsteps,
        p.ilu_drop, p.ilu_fill, p.ilu_milu, p.ilu_rowperm, p.ilu_droptol, p.tune[1], p.tune[2], p.tune[3], p.tune[4], p.tune[5], p.tune[6], p.tune[7]);
    set_tuning(p.tune[1], p.tune[2], p.tune[3], p.tune[4], p.tune[5], p.tune[6], p.tune[7]);
    long dbl0 = led_double_frees();
    long seq0 = led_total_mallocs();     /* blocks of this lifecycle have seq > seq0 (earlier aborted lifecycles may have left blocks) */
    led_poison(0xA5); t1.base = led_live_blocks(1); lc_run(&p, &t1, &o1);
    long live_end = led_live_blocks(1) - t1.base, bytes_end = 0;
    /* allocation sites of what is still live (only meaningful when the lifecycle was not aborted) */
    char leak[600] = ""; if (live_end != 0 && !t1.aborted) {
        char *mem = NULL; size_t msz = 0; FILE *mf = open_memstream(&mem, &msz); led_dump(mf, 1); fclose(mf);
        size_t w = 0; for (char *ln = strtok(mem, "\n"); ln && w + 80 < sizeof leak; ln = strtok(NULL, "\n")) {
            const char *f = strstr(ln, "live "); if (!f) continue; f += 5;
            const char *sq = strstr(ln, "seq="); if (!sq || atol(sq + 4) <= seq0) continue;
            { const char *sz = strstr(ln, "size="); if (sz) bytes_end += atol(sz + 5); } const char *sl = strrchr(f, '/'); const char *sp = strchr(f, ' '); if (sl && sp && sl < sp) f = sl + 1;
            w += (size_t)snprintf(leak + w, sizeof leak - w, "%.*s;", (int)(strcspn(f, "\n")), f); }
        for (char *q = leak; *q; q++) if (*q == ' ') *q = ',';
        free(mem); }
    long dbl1 = led_double_frees() - dbl0;
    long base2 = led_live_blocks(1);
    led_poison(0x5A); t2.base = base2; lc_run(&p, &t2, &o2);
    long live_end2 = led_live_blocks(1) - base2;
    led_poison(-1); clear_tuning();
    out_case(c->out, c->family, idx);
    out_p(c->out, "ty", "%c", p.ty); out_p(c->out, "style", "%s", style_names[p.style]); out_p(c->out, "n", "%d", p.n);
    out_p(c->out, "stream", "%s", stream == 0 ? "main" : stream == 1 ? "singular-input" : "ilu-risky");
    out_p(c->out, "singular", "%d", p.singular); out_p(c->out, "nr", "%d", p.nr); out_p(c->out, "query", "%d", p.query_first); out_p(c->out, "oos", "%d", p.oos_mode);
    out_p(c->out, "aborted", "%d", t1.aborted); out_p(c->out, "fault_fired", "%d", t1.fault_fired);
    int *flat = malloc(sizeof(int) * 6 * (t1.nops + 1));
    for (int k = 0; k < t1.nops; k++) { oprec_t *q = &t1.ops[k]; flat[6 * k] = q->code; flat[6 * k + 1] = q->h; flat[6 * k + 2] = q->a; flat[6 * k + 3] = q->b; flat[6 * k + 4] = q->out; flat[6 * k + 5] = (int)q->live; }
    out_ints(c->out, "ops", 6L * t1.nops, flat);
    int same_trace = t1.nops == t2.nops; for (int k = 0; same_trace && k < t1.nops; k++) same_trace = t1.ops[k].code == t2.ops[k].code && t1.ops[k].out == t2.ops[k].out && t1.ops[k].live == t2.ops[k].live;
    out_p(c->out, "same_trace", "%d", same_trace);
    out_p(c->out, "live_end", "%ld", live_end); out_p(c->out, "bytes_end", "%ld", live_end ? bytes_end : 0L); out_p(c->out, "live_end2", "%ld", live_end2);
    out_p(c->out, "double_frees", "%ld", dbl1); out_p(c->out, "double_frees2", "%ld", led_double_frees() - dbl0 - dbl1);
    if (leak[0]) fprintf(c->out, "s leak %s\n", leak);
    uint64_t h1 = ob_hash(&o1), h2 = ob_hash(&o2); int hh[4] = { (int)(h1 >> 32), (int)(h1 & 0xffffffffu), (int)(h2 >> 32), (int)(h2 & 0xffffffffu) };
    out_ints(c->out, "dig", 4, hh); int ll[2] = { (int)o1.n, (int)o2.n }; out_ints(c->out, "diglen", 2, ll);
    const char *sec = "?"; long at = ob_diff(&o1, &o2, &sec);
    out_p(c->out, "ndiff", "%d", at >= 0);
    if (at >= 0) fprintf(c->out, "s diff section=%s offset=%ld\n", sec, at);
    out_end(c->out);
    free(flat); free(o1.p); free(o2.p); plan_free(&p);
}

void fam_lifecycle(ctx_t *c) { for (long i = c->start; i < c->start + c->count; i++) { rng_t r; case_rng(c, i, &r); lifecycle_case(c, i, &r, 0); } }
void fam_lifecycle_sing(ctx_t *c) { for (long i = c->start; i < c->start + c->count; i++) { rng_t r; case_rng(c, i, &r); lifecycle_case(c, i, &r, 1); } }
void fam_lifecycle_ilu(ctx_t *c) { for (long i = c->start; i < c->start + c->count; i++) { rng_t r; case_rng(c, i, &r); lifecycle_case(c, i, &r, 2); } }
