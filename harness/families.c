#include "common.h"
#define FAM(name, doc) void fam_##name(ctx_t *c);
#include "families.def"
#undef FAM
#define FAM(name, doc) { #name, fam_##name, doc },
const family_t families[] = {
#include "families.def"
    { NULL, NULL, NULL } };
