#include "events.h"
static evlog_t *cur;
static void hook(int phase, int dtype, int jcol, double u, int usepr, int pivrow, int diagind, int ncand,
                 const int_t *rows, const void *vals, int info) {
    evlog_t *lg = cur; if (!lg) return;
    if (ncand < 0) ncand = 0;   /* after a zero pivot a supernode may hold fewer rows than columns (open finding) */
    if (phase == 0) {
        if (lg->n == lg->cap) { lg->cap = lg->cap ? 2 * lg->cap : 64; lg->ev = realloc(lg->ev, sizeof(pivev_t) * lg->cap); }
        if (lg->npool + ncand + 1 > lg->poolcap) {
            lg->poolcap = 2 * (lg->npool + ncand) + 64;
            lg->rows0 = realloc(lg->rows0, sizeof(int_t) * lg->poolcap); lg->rows1 = realloc(lg->rows1, sizeof(int_t) * lg->poolcap);
            lg->vals0 = realloc(lg->vals0, (size_t)lg->elsize * lg->poolcap); lg->vals1 = realloc(lg->vals1, (size_t)lg->elsize * lg->poolcap);
        }
        pivev_t *e = &lg->ev[lg->n++]; memset(e, 0, sizeof *e);
        e->jcol = jcol; e->dtype = dtype; e->usepr_in = usepr; e->oldrow = pivrow; e->diagind = diagind; e->ncand = ncand; e->u = u; e->off = lg->npool;
        if (ncand > 0) {
        memcpy(lg->rows0 + lg->npool, rows, sizeof(int_t) * ncand); memcpy(lg->vals0 + (size_t)lg->elsize * lg->npool, vals, (size_t)lg->elsize * ncand);
        memcpy(lg->rows1 + lg->npool, rows, sizeof(int_t) * ncand); memcpy(lg->vals1 + (size_t)lg->elsize * lg->npool, vals, (size_t)lg->elsize * ncand); }
        lg->npool += ncand;
    } else {
        if (lg->n == 0) { lg->overflow = 1; return; }
        pivev_t *e = &lg->ev[lg->n - 1];
        if (e->jcol != jcol || e->ncand != ncand) { lg->overflow = 1; return; }
        e->pivrow = pivrow; e->usepr_out = usepr; e->info = info; e->have_exit = 1;
        if (info != 0) { fprintf(stderr, "ZEROPIVOT col %d\n", jcol); fflush(stderr); }  /* lets check attribute a later crash */
        if (ncand > 0) { memcpy(lg->rows1 + e->off, rows, sizeof(int_t) * ncand); memcpy(lg->vals1 + (size_t)lg->elsize * e->off, vals, (size_t)lg->elsize * ncand); }
    }
}
void ev_start(evlog_t *lg, int elsize) { lg->n = 0; lg->npool = 0; lg->elsize = elsize; lg->overflow = 0; cur = lg; slu_verif_pivot_hook = hook; }
void ev_stop(void) { slu_verif_pivot_hook = 0; cur = NULL; }
void ev_free(evlog_t *lg) { free(lg->ev); free(lg->rows0); free(lg->rows1); free(lg->vals0); free(lg->vals1); memset(lg, 0, sizeof *lg); }
void ev_emit(FILE *f, const evlog_t *lg, const char *pfx, int is_double, int is_complex) {
    char nm[64];
    int *hdr = malloc(sizeof(int) * (9 * lg->n + 1)); double *us = malloc(sizeof(double) * (lg->n + 1));
    for (int k = 0; k < lg->n; k++) { const pivev_t *e = &lg->ev[k]; int *h = hdr + 9 * k;
        h[0] = e->jcol; h[1] = e->usepr_in; h[2] = e->oldrow; h[3] = e->diagind; h[4] = e->ncand; h[5] = e->pivrow; h[6] = e->usepr_out; h[7] = e->info; h[8] = e->have_exit; us[k] = e->u; }
    snprintf(nm, sizeof nm, "%s.hdr", pfx); out_ints(f, nm, 9L * lg->n, hdr);
    snprintf(nm, sizeof nm, "%s.u", pfx); out_f64(f, nm, lg->n, us);
    snprintf(nm, sizeof nm, "%s.rows0", pfx); out_intts(f, nm, lg->npool, lg->rows0);
    snprintf(nm, sizeof nm, "%s.rows1", pfx); out_intts(f, nm, lg->npool, lg->rows1);
    long nv = lg->npool * (is_complex ? 2 : 1);
    snprintf(nm, sizeof nm, "%s.vals0", pfx); if (is_double) out_f64(f, nm, nv, (double *)lg->vals0); else out_f32(f, nm, nv, (float *)lg->vals0);
    snprintf(nm, sizeof nm, "%s.vals1", pfx); if (is_double) out_f64(f, nm, nv, (double *)lg->vals1); else out_f32(f, nm, nv, (float *)lg->vals1);
    free(hdr); free(us);
}
