// FAMILY(lacon, "C12 [sdcz]lacon2_ driven with an explicit dense operator, every reverse-communication state")
#include "putil.h"
#define FAMILY_INC "fam_lacon.inc"
#include "all_prec.h"
void fam_lacon(ctx_t *c) {
    for (long i = c->start; i < c->start + c->count; i++) {
        rng_t r; case_rng(c, i, &r); char ty = pick_ty(c, i);
        DISPATCH_TY(ty, lacon_case, c, i, &r);
    }
}
