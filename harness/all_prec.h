/* #define FAMILY_INC "fam_xxx.inc" then include this file: instantiates the body for s,d,c,z */
#define PREC_S
#include "prec.h"
#include FAMILY_INC
#include "unprec.h"
#define PREC_D
#include "prec.h"
#include FAMILY_INC
#include "unprec.h"
#define PREC_C
#include "prec.h"
#include FAMILY_INC
#include "unprec.h"
#define PREC_Z
#include "prec.h"
#include FAMILY_INC
#include "unprec.h"
