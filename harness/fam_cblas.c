// FAMILY(cblas, "C14 bundled reference BLAS (/repo/CBLAS, f2c): level-1 asum/iamax/copy/scal/axpy/dot(c)/swap/nrm2 and level-2 gemv/trsv called directly, every increment / unrolling residue / flag branch, bit comparison with the Lean mirrors")
/* One BLAS call per case, f2c calling convention, on exact-size HMALLOC'd buffers (ASan red zones
 * right behind the last element a conforming call may touch).  Inputs and the complete output
 * arrays are emitted as bit patterns, so the driver compares stride gaps, lda padding and read-only
 * operands too.  The asan variant links /repo/CBLAS/*.c (check with nm); the vendor variant must not
 * be registered for this family. */
#include "putil.h"
#include <math.h>
/* prototypes not in slu_?defs.h (CBLAS/*.c, f2c.h: integer = int, real = float) */
extern double dasum_(int *, double *, int *);   extern float sasum_(int *, float *, int *);
extern double dzasum_(int *, doublecomplex *, int *); extern float scasum_(int *, singlecomplex *, int *);
extern int idamax_(int *, double *, int *);     extern int isamax_(int *, float *, int *);
extern int izamax_(int *, doublecomplex *, int *); extern int icamax_(int *, singlecomplex *, int *);
extern int dscal_(int *, double *, double *, int *); extern int sscal_(int *, float *, float *, int *);
extern int zscal_(int *, doublecomplex *, doublecomplex *, int *); extern int cscal_(int *, singlecomplex *, singlecomplex *, int *);
extern double ddot_(int *, double *, int *, double *, int *); extern float sdot_(int *, float *, int *, float *, int *);
extern void zdotc_(doublecomplex *, int *, doublecomplex *, int *, doublecomplex *, int *);
extern void cdotc_(singlecomplex *, int *, singlecomplex *, int *, singlecomplex *, int *);
extern int dswap_(int *, double *, int *, double *, int *); extern int sswap_(int *, float *, int *, float *, int *);
extern int zswap_(int *, doublecomplex *, int *, doublecomplex *, int *); extern int cswap_(int *, singlecomplex *, int *, singlecomplex *, int *);
extern double dnrm2_(int *, double *, int *);   extern float snrm2_(int *, float *, int *);
extern double dznrm2_(int *, doublecomplex *, int *); extern float scnrm2_(int *, singlecomplex *, int *);

/* one real value of class vcls in the working precision's range (dbl: exponent range to use) */
static double cb_real(rng_t *r, int vcls, int dbl) {
    double u = rng_unit(r), s = rng_chance(r, 0.5) ? 1.0 : -1.0;
    switch (vcls) {
    case 0: return (rng_unit(r) + rng_unit(r) + rng_unit(r) + u - 2.0) * 1.7;            /* bell-shaped */
    case 1: return (double)rng_int(r, -4, 4);                                             /* exact arithmetic, ties */
    case 2: return s * ldexp(0.5 + u, rng_int(r, -40, 40));                               /* wide exponent range */
    case 3: return s * ldexp(0.5 + u, (dbl ? -1022 : -126) + rng_int(r, -5, 5));          /* around the denormal threshold */
    case 4: if (rng_chance(r, 0.4)) return rng_chance(r, 0.5) ? 0.0 : -0.0; return (u - 0.5) * 4.0;   /* signed zeros */
    case 5: { static const double t[] = { 1.0, -1.0, 2.0, -2.0, 0.5, -0.5, 2.0, -0.0 }; return t[rng_int(r, 0, 7)]; }  /* exact ties */
    default: if (rng_chance(r, 0.12)) return NAN; if (rng_chance(r, 0.06)) return s * INFINITY; return (u - 0.5) * 4.0;    /* nan stream */
    }
}
static const char *cb_vname[] = { "normal", "int", "wide", "denorm", "zeros", "ties", "nan" };

#define FAMILY_INC "fam_cblas.inc"
#include "all_prec.h"
void fam_cblas(ctx_t *c) {
    for (long i = c->start; i < c->start + c->count; i++) {
        rng_t r; case_rng(c, i, &r); char ty = pick_ty(c, i);
        DISPATCH_TY(ty, cblas_case, c, i, &r);
    }
}
