// FAMILY(bridge, "C20 c_fortran_[sdcz]gssv_: factor / solve* / free over 1-4 interleaved handles vs [sdcz]gssv")
#include "putil.h"
#include <unistd.h>
#include <fcntl.h>
/* the bridge printf()s statistics on every factor request: keep the protocol stream clean */
static int brg_quiet_begin(void) {
    fflush(stdout);
    int saved = dup(1), dn = open("/dev/null", O_WRONLY);
    if (saved < 0 || dn < 0) { perror("bridge: redirect"); exit(3); }
    dup2(dn, 1); close(dn);
    return saved;
}
static void brg_quiet_end(int saved) { fflush(stdout); dup2(saved, 1); close(saved); }
typedef long long brg_fptr;
void c_fortran_sgssv_(int *, int *, int_t *, int *, float *, int_t *, int_t *, float *, int *, brg_fptr *, int_t *);
void c_fortran_dgssv_(int *, int *, int_t *, int *, double *, int_t *, int_t *, double *, int *, brg_fptr *, int_t *);
void c_fortran_cgssv_(int *, int *, int_t *, int *, singlecomplex *, int_t *, int_t *, singlecomplex *, int *, brg_fptr *, int_t *);
void c_fortran_zgssv_(int *, int *, int_t *, int *, doublecomplex *, int_t *, int_t *, doublecomplex *, int *, brg_fptr *, int_t *);
/* all legal histories of length <= 4 over two handles (ops: 0 factor, 1 solve, 2 free; a handle is
 * created at most once, solved/freed only while live), each closed by freeing what is still live */
#define BRG_EXH_LEN 4
static int brg_exh_n = -1; static unsigned char brg_exh_tab[512][BRG_EXH_LEN + 3][2]; static int brg_exh_len[512];
static void brg_exh_dfs(int depth, int *st, unsigned char seq[][2]) {
    /* record the sequence built so far (closed by frees) */
    int n = brg_exh_n++;
    int len = depth; for (int t = 0; t < depth; t++) { brg_exh_tab[n][t][0] = seq[t][0]; brg_exh_tab[n][t][1] = seq[t][1]; }
    for (int h = 0; h < 2; h++) if (st[h] == 1) { brg_exh_tab[n][len][0] = 2; brg_exh_tab[n][len][1] = (unsigned char)h; len++; }
    brg_exh_len[n] = len;
    if (depth == BRG_EXH_LEN) return;
    for (int h = 0; h < 2; h++) for (int k = 0; k < 3; k++) {
        if ((k == 0 && st[h] != 0) || (k != 0 && st[h] != 1)) continue;
        int old = st[h]; st[h] = k == 0 ? 1 : (k == 2 ? 2 : 1);
        seq[depth][0] = (unsigned char)k; seq[depth][1] = (unsigned char)h;
        brg_exh_dfs(depth + 1, st, seq);
        st[h] = old;
    }
}
static long brg_exh_count(void) {
    if (brg_exh_n < 0) { int st[2] = { 0, 0 }; unsigned char seq[BRG_EXH_LEN + 1][2]; brg_exh_n = 0; brg_exh_dfs(0, st, seq); }
    return brg_exh_n;
}
static int brg_exh_get(long i, int *opk, int *oph) {
    for (int t = 0; t < brg_exh_len[i]; t++) { opk[t] = brg_exh_tab[i][t][0]; oph[t] = brg_exh_tab[i][t][1]; }
    return brg_exh_len[i];
}
#define BRG_MAXH 4
#define BRG_MAXOPS 32
#define FAMILY_INC "fam_bridge.inc"
#include "all_prec.h"
void fam_bridge(ctx_t *c) {
    for (long i = c->start; i < c->start + c->count; i++) {
        rng_t r; case_rng(c, i, &r); char ty = pick_ty(c, i);
        DISPATCH_TY(ty, bridge_case, c, i, &r);
    }
}
