#ifndef SLU_VERIF_PUTIL_H
#define SLU_VERIF_PUTIL_H
#include "common.h"
#define FAMILY_INC "putil_decl.inc"
#include "all_prec.h"
#undef FAMILY_INC
/* dispatch helper: run fn_<ty>(c, idx, rng) for the case's type */
#define DISPATCH_TY(ty, name, ...) do { switch (ty) { \
    case 's': name##_s(__VA_ARGS__); break; case 'd': name##_d(__VA_ARGS__); break; \
    case 'c': name##_c(__VA_ARGS__); break; default: name##_z(__VA_ARGS__); break; } } while (0)
static inline char pick_ty(const ctx_t *c, long idx) { return c->ty ? c->ty : "dszc"[idx & 3]; }
#endif
