// FAMILY(symb, "C03 [sdcz]gstrf on nonsingular matrices: returned supernode partition, L row sets and U row sets vs the set-level symbolic factorization")
#include "putil.h"
#define FAMILY_INC "fam_symb.inc"
#include "all_prec.h"
void fam_symb(ctx_t *c) {
    for (long i = c->start; i < c->start + c->count; i++) {
        rng_t r; case_rng(c, i, &r); char ty = pick_ty(c, i);
        DISPATCH_TY(ty, symb_case, c, i, &r);
    }
}
