// FAMILY(workspace, "C08 every workspace length (both alignments), allocation failure at every growth request, lwork=-1 query with all arguments snapshotted")
#include "storage_util.h"
#define FAMILY_INC "fam_workspace.inc"
#include "all_prec.h"
void fam_workspace(ctx_t *c) {
    st_wd_install(c); st_split_stdout(c);
    for (long i = c->start; i < c->start + c->count; i++) {
        rng_t r; case_rng(c, i, &r); char ty = pick_ty(c, i);
        DISPATCH_TY(ty, workspace_case, c, i, &r);
    }
    clear_tuning(); fflush(c->out);
}
