/* Shared harness infrastructure: PRNG, allocation ledger / fault injection, pattern and value
 * generators, line-protocol output.  See /verif/CONVENTIONS.md. */
#ifndef SLU_VERIF_COMMON_H
#define SLU_VERIF_COMMON_H
#include <stdio.h>
#include <stdlib.h>
#include <string.h>
#include <stdint.h>
#include <setjmp.h>
#include <math.h>
#include "slu_sdefs.h"
#include "slu_ddefs.h"
#include "slu_cdefs.h"
#include "slu_zdefs.h"
#include "verif_alloc.h"

/* ---------- PRNG (xoshiro256**), every random choice derives from it ---------- */
typedef struct { uint64_t s[4]; } rng_t;
void     rng_seed(rng_t *r, uint64_t seed);
uint64_t rng_u64(rng_t *r);
int      rng_int(rng_t *r, int lo, int hi);      /* inclusive */
double   rng_unit(rng_t *r);                     /* [0,1) */
int      rng_chance(rng_t *r, double p);
void     rng_perm(rng_t *r, int n, int *p);      /* random permutation of 0..n-1 */

/* ---------- run context ---------- */
typedef struct {
    const char *family;
    uint64_t seed;       /* VERIF_SEED */
    long start, count;   /* case indices [start, start+count) */
    int thorough;        /* tier */
    char ty;             /* 's','d','c','z' or 0 = cycle through all */
    int argc; char **argv; /* extra key=value arguments */
    FILE *out;
} ctx_t;
const char *ctx_arg(const ctx_t *c, const char *key, const char *dflt);
long ctx_argl(const ctx_t *c, const char *key, long dflt);
/* per-case generator: deterministic in (seed, family, index) */
void case_rng(const ctx_t *c, long idx, rng_t *r);

/* ---------- ledger / fault injection (implemented in common.c) ---------- */
void  led_reset(void);
long  led_live_blocks(int library_only);   /* library_only: skip blocks allocated by harness files */
long  led_live_bytes(int library_only);
long  led_total_mallocs(void);
long  led_double_frees(void);
long  led_foreign_frees(void);
void  led_dump(FILE *f, int library_only);
void  led_poison(int byte);                 /* fill fresh blocks with byte; -1 = off */
void  led_fault_arm(const char *file_substr, long kth); /* fail the kth (1-based) matching malloc */
void  led_fault_disarm(void);
long  led_fault_fired(void);
long  led_match_count(void);                /* how many mallocs matched the filter since arm */
void  led_count_filter(const char *file_substr); /* count matches without failing */
extern jmp_buf slu_abort_jmp;
extern volatile int slu_abort_armed;
extern char slu_abort_msg[512];
/* harness-side allocation (tagged so that Destroy_* may free it) */
#define HMALLOC(sz) slu_verif_malloc((sz), "harness", __LINE__)
#define HFREE(p)    slu_verif_free((p), "harness", __LINE__)

/* ---------- tuning hook H1 ---------- */
extern int slu_verif_ienv[8];
void set_tuning(int panel, int relax, int maxsuper, int rowblk, int colblk, int fill, int ilu_maxsuper);
void clear_tuning(void);
void rand_tuning(rng_t *r, int *t /* int[8] out */);

/* ---------- generic sparse pattern/value generator (type independent) ---------- */
typedef struct {
    int m, n;
    long nnz;
    int_t *colptr;   /* n+1 */
    int_t *rowind;   /* nnz, sorted within a column unless shuffled */
    double *re, *im; /* nnz each (im all zero for real use) */
    const char *pat; /* pattern family name */
    const char *val; /* value family name */
} gmat_t;
enum { PAT_ANY = -1, PAT_DIAG = 0, PAT_BAND, PAT_ARROW, PAT_BLOCK, PAT_RANDOM, PAT_DENSE, PAT_TRIDIAG, PAT_NUM,
       PAT_ARROWTAIL = PAT_NUM /* explicit only (never drawn by PAT_ANY): full first row+column on a leading block, decoupled tridiagonal tail */ };
enum { VAL_ANY = -1, VAL_SMALLINT = 0, VAL_DYADIC, VAL_GENERIC, VAL_SCALED, VAL_DIAGDOM, VAL_NUM };
/* nonsing: 1 => a random transversal is included so that the pattern is structurally nonsingular
 * (square only), 2 => the diagonal itself is included */
void gmat_gen(rng_t *r, int m, int n, int pat, int val, int nonsing, int cplx, gmat_t *g);
void gmat_free(gmat_t *g);
void gmat_transpose(const gmat_t *a, gmat_t *t);
double gen_value(rng_t *r, int val);

/* ---------- protocol output ---------- */
void out_case(FILE *f, const char *fam, long id);
void out_end(FILE *f);
void out_p(FILE *f, const char *key, const char *fmt, ...);
void out_ints(FILE *f, const char *name, long n, const int *v);
void out_intts(FILE *f, const char *name, long n, const int_t *v);
void out_f64(FILE *f, const char *name, long n, const double *v);
void out_f32(FILE *f, const char *name, long n, const float *v);
void out_f64_1(FILE *f, const char *name, double v);
void out_f32_1(FILE *f, const char *name, float v);
/* "begin" marker so that a crash can be attributed to a case */
void out_begin_marker(const char *fam, long id);
/* same, with a short note describing the input class (copied into the crash message by check) */
void out_begin_note(const char *fam, long id, const char *note);

typedef void (*family_fn)(ctx_t *c);
typedef struct { const char *name; family_fn fn; const char *doc; } family_t;

#endif
