// FAMILY(kernels, "C14 sp_trsv / sp_gemv / sp_gemm / gstrs called directly on real factor structures and rectangular A")
#include "putil.h"
#include "gk_util.h"
#define FAMILY_INC "fam_kernels.inc"
#include "all_prec.h"
void fam_kernels(ctx_t *c) {
    for (long i = c->start; i < c->start + c->count; i++) {
        rng_t r; case_rng(c, i, &r); char ty = pick_ty(c, i);
        DISPATCH_TY(ty, kernels_case, c, i, &r);
    }
}
