// FAMILY(readers, "C16 well-formed Harwell-Boeing / Rutherford-Boeing / Matrix Market / triplet files in varied legal encodings, read by the real readers")
// FAMILY(readers_fmt, "C16 Fortran edit-descriptor grammar enumerated: (kIw), (kEw.d), (kDw.d), (kFw.d), (sPkEw.d), (sP,kEw.d) through [sdcz]Parse{Int,Float}Format")
// FAMILY(readers_bad, "C16 malformed files (truncated, corrupted, inconsistent counts): no memory error")
/* C16 — matrix file readers.
 *
 * Each case generates a matrix whose values are *decimals* (digit string x 10^e, so that the text
 * written to the file denotes the intended value exactly), prints it in one of the four formats
 * with randomly chosen legal encoding parameters, runs the real reader on the text and emits
 *   - the file text (byte codes), the encoding parameters (tags),
 *   - the intended matrix (dimensions, 0-based entries of the FULL matrix, values as mantissa/exponent),
 *   - what the reader returned (dims, colptr, rowind, values as bit patterns) or how it failed.
 *
 * The reader is run in a forked child on an fmemopen()ed copy of the text: the readers print to
 * stdout (the protocol channel), read stdin (readrb, readtriple), close the stream they are given,
 * call exit(-1) on input they do not like and may loop forever — none of which may take the harness
 * down.  The child's stdout goes to /dev/null, its stderr (sanitizer reports) to a memfd that the
 * parent digests into a one-line diagnosis.  A sanitizer report in the child is a memory error of
 * that case.  */
#define _GNU_SOURCE
#include "putil.h"
#include <unistd.h>
#include <stdarg.h>
#include <signal.h>
#include <fcntl.h>
#include <errno.h>
#include <ctype.h>
#include <sys/wait.h>
#include <sys/mman.h>
#include <sys/resource.h>

enum { RD_HB = 0, RD_RB, RD_MM, RD_TRI };
enum { RD_INIT = 0, RD_NOFILE, RD_RETURNED, RD_BADDIMS, RD_COPIED };
typedef struct { volatile int state; int m, n, vbytes; long long nnz; long long data[]; } rd_shared_t;
#define RD_CAP (4u << 20)

#define FAMILY_INC "fam_readers.inc"
#include "all_prec.h"

/* ------------------------------------------------------------------ string builder */
typedef struct { char *p; size_t n, cap; } sb_t;
static void sb_need(sb_t *s, size_t k) { if (s->n + k + 1 > s->cap) { s->cap = (s->n + k + 1) * 2 + 256; s->p = realloc(s->p, s->cap); } }
static void sb_putc(sb_t *s, char c) { sb_need(s, 1); s->p[s->n++] = c; s->p[s->n] = 0; }
static void sb_putn(sb_t *s, const char *t, size_t k) { sb_need(s, k); memcpy(s->p + s->n, t, k); s->n += k; s->p[s->n] = 0; }
static void sb_puts(sb_t *s, const char *t) { sb_putn(s, t, strlen(t)); }
static void sb_fill(sb_t *s, char c, int k) { for (int i = 0; i < k; i++) sb_putc(s, c); }
static void sb_printf(sb_t *s, const char *fmt, ...) { char b[512]; va_list ap; va_start(ap, fmt); vsnprintf(b, sizeof b, fmt, ap); va_end(ap); sb_puts(s, b); }
/* right-justify t in w columns (t is never longer than w) */
static void sb_rjust(sb_t *s, const char *t, int w) { int l = (int)strlen(t); sb_fill(s, ' ', w - l); sb_puts(s, t); }
static void sb_ljust(sb_t *s, const char *t, int w) { int l = (int)strlen(t); sb_puts(s, t); sb_fill(s, ' ', w - l); }

/* ------------------------------------------------------------------ decimal values */
typedef struct { int neg, nd, e; char dig[28]; } dec_t;   /* (-1)^neg * dig * 10^e ; zero: nd=1, dig="0" */
typedef struct {
    int style;      /* 0 = exponent form, 1 = fixed form (no exponent), 2 = integer form when possible (free format only) */
    int P;          /* significant digits printed (mantissas padded with zeros to P) */
    int s;          /* digits in front of the point in exponent form (Fortran scale factor sP) */
    int lead0;      /* print "0." rather than "." when nothing precedes the point */
    char explet;    /* E e D d */
    int expstyle;   /* 0: E+05   1: E5 / E-5   2: E+005   3: +005 (letter dropped, Fortran output for 3-digit exponents) */
    int plus;       /* explicit '+' on positive mantissas */
    int FL;         /* fixed form: digits after the point */
    int fshift;     /* fixed form under a scale factor: the text shows value * 10^fshift */
    int Xlo, Xhi;   /* range of the scientific exponent */
} vstyle_t;

static void gen_dec(rng_t *r, const vstyle_t *vs, dec_t *d) {
    memset(d, 0, sizeof *d);
    if (rng_chance(r, 0.04)) { d->nd = 1; d->dig[0] = '0'; d->e = 0; d->neg = rng_chance(r, 0.2); return; }
    int nd = rng_chance(r, 0.3) ? vs->P : rng_int(r, 1, vs->P);
    d->nd = nd; d->neg = rng_chance(r, 0.45);
    for (int i = 0; i < nd; i++) d->dig[i] = (char)('0' + rng_int(r, i == 0 ? 1 : 0, 9));
    int X = rng_chance(r, 0.7) ? rng_int(r, vs->Xlo > -4 ? vs->Xlo : -4, vs->Xhi < 4 ? vs->Xhi : 4) : rng_int(r, vs->Xlo, vs->Xhi);
    d->e = X - (nd - 1);
}
/* text of a value in the case's style; exact by construction */
static void render_dec(const vstyle_t *vs, const dec_t *d, char *out) {
    char *o = out; int zero = (d->nd == 1 && d->dig[0] == '0');
    if (d->neg) *o++ = '-'; else if (vs->plus) *o++ = '+';
    if (vs->style == 0) {
        char sig[64]; int P = vs->P; for (int i = 0; i < P; i++) sig[i] = i < d->nd ? d->dig[i] : '0';
        int s = vs->s, X = zero ? 0 : d->e + d->nd - 1;
        int ex = zero ? 0 : X + 1 - s;
        if (s >= 1) { for (int i = 0; i < s; i++) *o++ = sig[i]; *o++ = '.'; for (int i = s; i < P; i++) *o++ = sig[i]; }
        else { if (vs->lead0) *o++ = '0'; *o++ = '.'; for (int i = 0; i < -s; i++) *o++ = '0'; for (int i = 0; i < P; i++) *o++ = sig[i]; }
        int ax = ex < 0 ? -ex : ex;
        switch (vs->expstyle) {
        case 0: o += sprintf(o, "%c%c%02d", vs->explet, ex < 0 ? '-' : '+', ax); break;
        case 1: o += sprintf(o, ex < 0 ? "%c-%d" : "%c%d", vs->explet, ax); break;
        case 2: o += sprintf(o, "%c%c%03d", vs->explet, ex < 0 ? '-' : '+', ax); break;
        default: o += sprintf(o, "%c%03d", ex < 0 ? '-' : '+', ax); break;
        }
        *o = 0; return;
    }
    /* fixed / integer form: digits dig * 10^(e + fshift) */
    int e = zero ? 0 : d->e + vs->fshift, nd = d->nd;
    if (vs->style == 2 && e >= 0) { for (int i = 0; i < nd; i++) *o++ = d->dig[i]; if (!zero) for (int i = 0; i < e; i++) *o++ = '0'; *o = 0; return; }
    int ip = nd + e;                     /* number of digits in front of the point (may be <= 0) */
    if (ip <= 0) { if (vs->lead0) *o++ = '0'; }
    else for (int i = 0; i < ip; i++) *o++ = i < nd ? d->dig[i] : '0';
    *o++ = '.';
    int fl = 0;
    for (int i = ip; i < 0; i++) { *o++ = '0'; fl++; }
    for (int i = ip > 0 ? ip : 0; i < nd; i++) { *o++ = d->dig[i]; fl++; }
    for (; fl < vs->FL; fl++) *o++ = '0';
    if (ip <= 0 && !vs->lead0 && fl == 0) *o++ = '0';
    *o = 0;
}
static void dec_emit(FILE *f, const dec_t *d, char *mbuf) { (void)f; sprintf(mbuf, "%s%.*s", d->neg ? "-" : "", d->nd, d->dig); }

/* ------------------------------------------------------------------ the generated matrix */
typedef struct { int r, c; dec_t v[2]; } ent_t;
typedef struct {
    int fmt, cplx, dbl, m, n, sym, diagmode, base, order, dups, rhs;
    long ns; ent_t *S;       /* stored entries, file order */
    long nf; ent_t *Fm;      /* intended full matrix: S plus mirror images, in the order the expansion produces */
    vstyle_t vs;
    /* encoding parameters of fixed-format files */
    int pk, pw, ik, iw, vk, vw, vd; int pform; /* 0 none, 1 sP, 2 sP, (comma) */ int fmtlower; int tight;
    char ptrfmt[24], indfmt[24], valfmt[24], rhsfmt[24];
    const char *pat; int longtok;
} cmat_t;

typedef struct { int symnodiag, pcomma, zmm, mmlongtok, pscaleF, noE, mmcompat; } classes_t;
static int has_word(const char *list, const char *w) {
    size_t l = strlen(w); const char *p = list;
    while ((p = strstr(p, w))) { if ((p == list || p[-1] == ',') && (p[l] == 0 || p[l] == ',')) return 1; p += l; }
    return 0;
}
static void get_classes(const ctx_t *c, classes_t *k) {
    /* exclude= / include= arguments, else the environment (so that `check run` and `check replay` agree) */
    const char *ex = ctx_arg(c, "exclude", getenv("C16_EXCLUDE") ? getenv("C16_EXCLUDE") : "");
    const char *in = ctx_arg(c, "include", getenv("C16_INCLUDE") ? getenv("C16_INCLUDE") : "");
    k->symnodiag = !has_word(ex, "symnodiag"); k->pcomma = !has_word(ex, "pcomma"); k->zmm = !has_word(ex, "zmm"); k->mmlongtok = !has_word(ex, "mmlongtok");
    k->pscaleF = has_word(in, "pscaleF"); k->noE = has_word(in, "noE"); k->mmcompat = has_word(in, "mmcompat");
}

static int digits_of(long v) { int d = 1; while (v >= 10) { v /= 10; d++; } return d; }

static void gen_case(rng_t *r, const ctx_t *c, long idx, char ty, const classes_t *kl, int wellformed_only_general, cmat_t *M) {
    memset(M, 0, sizeof *M);
    M->cplx = (ty == 'c' || ty == 'z'); M->dbl = (ty == 'd' || ty == 'z');
    M->fmt = (int)((idx >> 2) & 3);
    { const char *f = ctx_arg(c, "fmt", ""); if (!strcmp(f, "hb")) M->fmt = RD_HB; else if (!strcmp(f, "rb")) M->fmt = RD_RB; else if (!strcmp(f, "mm")) M->fmt = RD_MM; else if (!strcmp(f, "tri")) M->fmt = RD_TRI; }
    if (M->fmt == RD_MM && M->cplx && !kl->zmm && !kl->mmcompat) M->fmt = RD_TRI;
    int nmax = c->thorough ? 40 : 12;
    int n = rng_chance(r, 0.15) ? rng_int(r, 1, 3) : rng_int(r, 1, nmax), m = n;
    M->sym = (M->fmt != RD_TRI) && !wellformed_only_general && rng_chance(r, 0.45);
    if (!M->sym && (M->fmt == RD_HB || M->fmt == RD_RB) && rng_chance(r, 0.25)) m = rng_int(r, 1, nmax);
    M->m = m; M->n = n;
    gmat_t g; gmat_gen(r, m, n, PAT_ANY, VAL_SMALLINT, 0, 0, &g); M->pat = g.pat;
    char *mk = calloc((size_t)m * n + 1, 1);
    for (int j = 0; j < n; j++) for (int_t k = g.colptr[j]; k < g.colptr[j + 1]; k++) mk[(size_t)j * m + g.rowind[k]] = 1;
    gmat_free(&g);
    M->diagmode = 3;
    if (M->sym) {
        for (int j = 0; j < n; j++) for (int i = 0; i < j; i++) mk[(size_t)j * m + i] = 0;   /* lower triangle only */
        M->diagmode = kl->symnodiag ? rng_int(r, 0, 2) : 0;
        for (int i = 0; i < n; i++) mk[(size_t)i * m + i] = (char)(M->diagmode == 0 ? 1 : M->diagmode == 1 ? 0 : (rng_chance(r, 0.6) ? 1 : 0));
    }
    long ns = 0; for (size_t k = 0; k < (size_t)m * n; k++) ns += mk[k];
    if (ns == 0) { mk[(size_t)0 * m + (m - 1)] = 1; ns = 1; }   /* entry (m-1, 0): in the lower triangle */
    if (M->sym) { int nd = 0; for (int i = 0; i < n; i++) nd += mk[(size_t)i * m + i]; M->diagmode = nd == n ? 0 : nd == 0 ? 1 : 2; }
    M->dups = (!M->sym && (M->fmt == RD_MM || M->fmt == RD_TRI) && rng_chance(r, 0.12)) ? rng_int(r, 1, 2) : 0;
    M->S = calloc((size_t)ns + M->dups + 1, sizeof(ent_t));
    long q = 0;
    for (int j = 0; j < n; j++) for (int i = 0; i < m; i++) if (mk[(size_t)j * m + i]) { M->S[q].r = i; M->S[q].c = j; q++; }
    free(mk);
    for (int d = 0; d < M->dups; d++) { long k = rng_int(r, 0, (int)q - 1); M->S[q] = M->S[k]; q++; }
    M->ns = q;
    /* ---- value style ---- */
    vstyle_t *vs = &M->vs; int fixedfmt = (M->fmt == RD_HB || M->fmt == RD_RB);
    vs->P = rng_chance(r, 0.15) ? rng_int(r, 18, 20) : rng_int(r, 1, M->dbl ? 17 : 9);
    vs->style = rng_chance(r, 0.3) ? 1 : 0;
    if (!fixedfmt && rng_chance(r, 0.2)) vs->style = 2;
    vs->lead0 = rng_chance(r, 0.7); vs->plus = rng_chance(r, 0.08);
    vs->explet = fixedfmt ? "EEDDed"[rng_int(r, 0, 5)] : "EEe"[rng_int(r, 0, 2)];
    M->pform = fixedfmt ? (rng_chance(r, 0.45) ? 0 : (kl->pcomma && rng_chance(r, 0.5)) ? 2 : 1) : 0;
    vs->s = 0;
    if (vs->style == 0) {
        if (M->pform) { vs->s = rng_chance(r, 0.7) ? 1 : rng_int(r, -1, 2); if (vs->s > vs->P) vs->s = vs->P; }
        else if (!fixedfmt) vs->s = rng_chance(r, 0.7) ? 1 : 0;   /* C-style d.ddde+xx in free format */
        int big = M->dbl ? 290 : 30;
        vs->Xlo = -big; vs->Xhi = big;
        if (!M->dbl || rng_chance(r, 0.6)) { vs->Xlo = M->dbl ? -90 : -30; vs->Xhi = M->dbl ? 90 : 30; }
        vs->expstyle = (vs->Xhi > 95) ? 2 : rng_int(r, 0, 2);
        if (kl->noE && fixedfmt && M->dbl && rng_chance(r, 0.5)) { vs->expstyle = 3; vs->Xlo = -290; vs->Xhi = 290; }
    } else {
        if (vs->P > 12) vs->P = rng_int(r, 1, 12);
        vs->Xlo = -4; vs->Xhi = 6;
        if (M->pform && !kl->pscaleF) M->pform = 0;      /* sP with F editing rescales the text: its own class */
        if (M->pform) vs->fshift = rng_chance(r, 0.7) ? 1 : rng_int(r, -1, 2);
    }
    /* ---- values ---- */
    int vpe = M->cplx ? 2 : 1;
    for (long k = 0; k < M->ns; k++) for (int t = 0; t < vpe; t++) gen_dec(r, vs, &M->S[k].v[t]);
    if (vs->style != 0) { int fl = 0; for (long k = 0; k < M->ns; k++) for (int t = 0; t < vpe; t++) { int e = M->S[k].v[t].e + vs->fshift; if (-e > fl) fl = -e; } vs->FL = fl + (rng_chance(r, 0.3) ? rng_int(r, 1, 2) : 0); }
    /* ---- order of the stored entries ---- */
    if (fixedfmt) {
        M->order = rng_chance(r, 0.3);     /* 1: rows shuffled inside each column */
        if (M->order) for (long a = 0; a < M->ns; ) { long b = a; while (b < M->ns && M->S[b].c == M->S[a].c) b++; for (long i = b - 1; i > a; i--) { long j = a + rng_int(r, 0, (int)(i - a)); ent_t t = M->S[i]; M->S[i] = M->S[j]; M->S[j] = t; } a = b; }
    } else {
        M->order = rng_chance(r, 0.75) ? 2 : 0;   /* 2: random permutation of the lines */
        if (M->order) for (long i = M->ns - 1; i > 0; i--) { long j = rng_int(r, 0, (int)i); ent_t t = M->S[i]; M->S[i] = M->S[j]; M->S[j] = t; }
    }
    M->base = 1;
    if (M->fmt == RD_TRI && rng_chance(r, 0.45)) {   /* zero-based triplets: recognised by a 0 in the first line */
        long z = -1; for (long k = 0; k < M->ns; k++) if (M->S[k].r == 0 || M->S[k].c == 0) { z = k; break; }
        if (z >= 0) { ent_t t = M->S[z]; M->S[z] = M->S[0]; M->S[0] = t; M->base = 0; }
    }
    /* ---- the intended full matrix ---- */
    M->Fm = calloc((size_t)M->ns * 2 + 1, sizeof(ent_t)); M->nf = 0;
    for (long k = 0; k < M->ns; k++) {
        M->Fm[M->nf++] = M->S[k];
        if (M->sym && M->S[k].r != M->S[k].c) { ent_t t = M->S[k]; t.r = M->S[k].c; t.c = M->S[k].r; M->Fm[M->nf++] = t; }
    }
    M->rhs = (M->fmt == RD_HB) && rng_chance(r, 0.35);
    M->fmtlower = rng_chance(r, 0.15); M->tight = rng_chance(r, 0.3);
}
static void free_case(cmat_t *M) { free(M->S); free(M->Fm); }

/* ------------------------------------------------------------------ file writers */
/* n integer fields, k per line, width w */
static void put_int_block(sb_t *s, long n, const long *v, int k, int w) {
    char b[32];
    for (long i = 0; i < n; i++) { sprintf(b, "%ld", v[i]); sb_rjust(s, b, w); if ((i + 1) % k == 0 || i == n - 1) sb_putc(s, '\n'); }
}
static void put_title(rng_t *r, sb_t *s) {
    static const char al[] = "abcdefghijklmnopqrstuvwxyzABCDEFGHIJKLMNOPQRSTUVWXYZ0123456789 ,.;:()-_/=+*#%";
    int len = rng_chance(r, 0.6) ? 80 : rng_int(r, 1, 80);
    for (int i = 0; i < len; i++) sb_putc(s, i >= 72 ? al[rng_int(r, 26, 61)] : al[rng_int(r, 0, (int)sizeof al - 2)]);
    if (len == 80 && rng_chance(r, 0.1)) sb_fill(s, ' ', rng_int(r, 1, 10));
    sb_putc(s, '\n');
}
static void end_header_line(rng_t *r, sb_t *s, int written) { if (rng_chance(r, 0.2)) sb_fill(s, ' ', rng_int(r, 0, 80 - written)); sb_putc(s, '\n'); }

static void write_hbrb(rng_t *r, cmat_t *M, sb_t *s) {
    int rb = (M->fmt == RD_RB), vpe = M->cplx ? 2 : 1; int n = M->n; long ns = M->ns;
    /* column pointers (1-based) */
    long *cp = calloc((size_t)n + 2, sizeof(long)), *ri = calloc((size_t)ns + 1, sizeof(long));
    for (long k = 0; k < ns; k++) { cp[M->S[k].c + 1]++; ri[k] = M->S[k].r + 1; }
    cp[0] = 1; for (int j = 0; j < n; j++) cp[j + 1] += cp[j];
    /* widths and counts */
    int pmin = digits_of(ns + 1), imin = digits_of(M->m);
    M->pw = M->tight ? pmin : pmin + rng_int(r, 1, 6); M->iw = M->tight && rng_chance(r, 0.5) ? imin : imin + rng_int(r, 1, 6);
    M->pk = rng_int(r, 1, 80 / M->pw); M->ik = rng_int(r, 1, 80 / M->iw);
    if (M->pk > 40) M->pk = rng_int(r, 1, 40); if (M->ik > 40) M->ik = rng_int(r, 1, 40);
    long nv = ns * vpe; char (*ft)[64] = calloc((size_t)nv + 1, 64); int maxlen = 1;
    for (long k = 0; k < ns; k++) for (int t = 0; t < vpe; t++) { render_dec(&M->vs, &M->S[k].v[t], ft[k * vpe + t]); int l = (int)strlen(ft[k * vpe + t]); if (l > maxlen) maxlen = l; }
    M->vw = M->tight ? maxlen : maxlen + rng_int(r, 1, 4); M->vk = rng_int(r, 1, 80 / M->vw);
    /* digits after the point, as the descriptor announces them */
    M->vd = M->vs.style == 0 ? M->vs.P - M->vs.s : M->vs.FL;
    char L = M->vs.style == 0 ? (char)toupper((unsigned char)M->vs.explet) : 'F';
    if (M->vs.style == 0 && rng_chance(r, 0.1)) L = (L == 'E') ? 'D' : 'E';     /* input editing accepts either exponent letter */
    char I = 'I', Pc = 'P'; if (M->fmtlower) { L = (char)tolower((unsigned char)L); I = 'i'; Pc = 'p'; }
    const char *b1 = rng_chance(r, 0.12) ? " " : "", *b2 = rng_chance(r, 0.12) ? " " : "";   /* blanks are insignificant in a format */
    sprintf(M->ptrfmt, "%s(%s%d%c%d%s)", rng_chance(r, 0.1) ? " " : "", b1, M->pk, I, M->pw, b2); sprintf(M->indfmt, "(%s%d%c%d%s)", b2, M->ik, I, M->iw, b1);
    char esuf[8] = ""; if (M->vs.style == 0 && M->vs.expstyle == 2 && rng_chance(r, 0.5)) { if (L == 'E' || L == 'e') sprintf(esuf, "%c3", L); }
    int sc = M->vs.style == 0 ? M->vs.s : M->vs.fshift;
    if (M->pform == 0) sprintf(M->valfmt, "(%s%d%c%d.%d%s%s)", b1, M->vk, L, M->vw, M->vd, esuf, b2);
    else sprintf(M->valfmt, "(%d%c%s%d%c%d.%d%s)", sc, Pc, M->pform == 2 ? (rng_chance(r, 0.2) ? ", " : ",") : "", M->vk, L, M->vw, M->vd, esuf);
    if (strlen(M->valfmt) > 20) { if (M->pform == 0) sprintf(M->valfmt, "(%d%c%d.%d)", M->vk, L, M->vw, M->vd); else sprintf(M->valfmt, "(%d%c%s%d%c%d.%d)", sc, Pc, M->pform == 2 ? "," : "", M->vk, L, M->vw, M->vd); }
    int nrhs = 0, rk = 1, rw = 12; long rhscrd = 0;
    if (M->rhs) { nrhs = rng_int(r, 1, 2); rw = rng_int(r, 10, 16); rk = rng_int(r, 1, 80 / rw); sprintf(M->rhsfmt, "(%dE%d.%d)", rk, rw, rw - 8); rhscrd = ((long)nrhs * M->m * vpe + rk - 1) / rk; }
    long ptrcrd = (n + 1 + M->pk - 1) / M->pk, indcrd = (ns + M->ik - 1) / M->ik, valcrd = (nv + M->vk - 1) / M->vk;
    /* line 1 */ put_title(r, s);
    /* line 2 */
    if (rb) { sb_printf(s, "%14ld %13ld %13ld %13ld", ptrcrd + indcrd + valcrd, ptrcrd, indcrd, valcrd); end_header_line(r, s, 56); }
    else { sb_printf(s, "%14ld%14ld%14ld%14ld%14ld", ptrcrd + indcrd + valcrd + rhscrd, ptrcrd, indcrd, valcrd, rhscrd); end_header_line(r, s, 70); }
    /* line 3 */
    char type[4]; type[0] = M->cplx ? 'C' : 'R'; type[1] = M->sym ? 'S' : (M->m != M->n ? 'R' : 'U'); type[2] = 'A'; type[3] = 0;
    if (rb || rng_chance(r, 0.15)) for (int i = 0; i < 3; i++) type[i] = (char)tolower((unsigned char)type[i]);
    if (rb) sb_printf(s, "%s           %14d %13d %13ld %13d", type, M->m, M->n, ns, 0);
    else sb_printf(s, "%s           %14d%14d%14ld%14d", type, M->m, M->n, ns, 0);
    end_header_line(r, s, 70);
    /* line 4 */
    sb_ljust(s, M->ptrfmt, 16); sb_ljust(s, M->indfmt, 16); sb_ljust(s, M->valfmt, 20);
    if (!rb) { sb_ljust(s, M->rhs ? M->rhsfmt : "", 20); end_header_line(r, s, 72); } else end_header_line(r, s, 52);
    /* line 5 */
    if (M->rhs) { sb_printf(s, "F             %14d%14d", nrhs, 0); end_header_line(r, s, 42); }
    put_int_block(s, n + 1, cp, M->pk, M->pw);
    put_int_block(s, ns, ri, M->ik, M->iw);
    for (long i = 0; i < nv; i++) { sb_rjust(s, ft[i], M->vw); if ((i + 1) % M->vk == 0 || i == nv - 1) sb_putc(s, '\n'); }
    if (M->rhs) { long nr = (long)nrhs * M->m * vpe; char b[64]; for (long i = 0; i < nr; i++) { sprintf(b, "%*.*E", rw, rw - 8, (double)rng_int(r, -999, 999) / 8.0); sb_puts(s, b); if ((i + 1) % rk == 0 || i == nr - 1) sb_putc(s, '\n'); } }
    free(cp); free(ri); free(ft);
}
static void put_ws(rng_t *r, sb_t *s, int atleast) {
    int k = rng_chance(r, 0.7) ? atleast : rng_int(r, atleast, 4);
    for (int i = 0; i < k; i++) sb_putc(s, rng_chance(r, 0.1) ? '\t' : ' ');
}
static void put_triplets(rng_t *r, cmat_t *M, sb_t *s, int lastnl) {
    int vpe = M->cplx ? 2 : 1; char b[64];
    int fancy = rng_chance(r, 0.3);
    for (long k = 0; k < M->ns; k++) {
        if (fancy) put_ws(r, s, 0);
        sb_printf(s, "%d", M->S[k].r + M->base); put_ws(r, s, 1);
        sb_printf(s, "%d", M->S[k].c + M->base);
        for (int t = 0; t < vpe; t++) { put_ws(r, s, 1); render_dec(&M->vs, &M->S[k].v[t], b); sb_puts(s, b); }
        if (fancy && rng_chance(r, 0.2)) put_ws(r, s, 1);
        if (k < M->ns - 1 || lastnl) sb_putc(s, '\n');
        if (fancy && rng_chance(r, 0.05) && k < M->ns - 1) sb_putc(s, '\n');       /* blank line */
    }
}
static void write_mm(rng_t *r, cmat_t *M, sb_t *s, int compat_hdr, int longtok) {
    static const char *ban[] = { "%%MatrixMarket", "%%matrixmarket", "%%MATRIXMARKET" };
    /* the keywords of the banner are case-insensitive: each is written lower-case, UPPER-CASE or Capitalised */
    const char *kw[4] = { "matrix", "coordinate", (M->cplx && !compat_hdr) ? "complex" : "real", M->sym ? "symmetric" : "general" };
    char h[128]; int hl = sprintf(h, "%s", ban[rng_int(r, 0, 2)]);
    int allup = rng_chance(r, 0.08);
    for (int t = 0; t < 4; t++) {
        int style = allup ? 1 : (rng_chance(r, 0.7) ? 0 : rng_int(r, 1, 2));
        h[hl++] = ' ';
        for (const char *q = kw[t]; *q; q++) h[hl++] = (style == 1 || (style == 2 && q == kw[t])) ? (char)toupper((unsigned char)*q) : *q;
    }
    h[hl] = 0;
    sb_puts(s, h); if (rng_chance(r, 0.1)) sb_fill(s, ' ', rng_int(r, 1, 3)); sb_putc(s, '\n');
    int nc = rng_chance(r, 0.5) ? 0 : rng_int(r, 1, 4);
    for (int i = 0; i < nc; i++) {
        if (rng_chance(r, 0.15)) { sb_putc(s, '\n'); continue; }          /* blank line among the comments */
        if (longtok && rng_chance(r, 0.3)) { /* a rule of dashes / a long URL: one token of 64..120 characters (lines may have 1024) */
            sb_putc(s, '%'); int l = rng_int(r, 64, 120); char ch = "-=*#x"[rng_int(r, 0, 4)]; for (int k = 0; k < l; k++) sb_putc(s, ch); sb_putc(s, '\n'); M->longtok = 1; continue; }
        sb_putc(s, '%'); int l = rng_int(r, 0, 60); for (int k = 0; k < l; k++) sb_putc(s, (char)rng_int(r, 32, 126)); sb_putc(s, '\n');
    }
    if (rng_chance(r, 0.2)) put_ws(r, s, 1);
    sb_printf(s, "%d", M->n); put_ws(r, s, 1); sb_printf(s, "%d", M->n); put_ws(r, s, 1); sb_printf(s, "%ld", M->ns); sb_putc(s, '\n');
    put_triplets(r, M, s, rng_chance(r, 0.9));
}
static void write_tri(rng_t *r, cmat_t *M, sb_t *s) {
    if (rng_chance(r, 0.2)) put_ws(r, s, 1);
    sb_printf(s, "%d", M->n); put_ws(r, s, 1); sb_printf(s, "%ld", M->ns); sb_putc(s, '\n');
    put_triplets(r, M, s, rng_chance(r, 0.9));
}

/* ------------------------------------------------------------------ running a reader in a child */
static int g_errfd = -1; static rd_shared_t *g_sh;
static void rd_setup(void) {
    if (g_sh) return;
    g_sh = mmap(NULL, RD_CAP, PROT_READ | PROT_WRITE, MAP_SHARED | MAP_ANONYMOUS, -1, 0);
    if (g_sh == MAP_FAILED) { perror("mmap"); exit(3); }
    g_errfd = memfd_create("c16err", 0);
    if (g_errfd < 0) {
        const char *td = getenv("TMPDIR"); char path[512]; snprintf(path, sizeof path, "%s/c16errXXXXXX", td && *td ? td : "/tmp");
        g_errfd = mkstemp(path); if (g_errfd < 0) { perror("mkstemp"); exit(3); } unlink(path);
    }
}
/* one-line diagnosis out of a sanitizer report */
static void digest_report(const char *rep, char *out, size_t outlen) {
    out[0] = 0; size_t o = 0;
    const char *p = strstr(rep, "ERROR: AddressSanitizer: ");
    if (p) {
        p += 7; const char *e = p; while (*e && *e != '\n' && strncmp(e, " on address", 11) && strncmp(e, " on unknown", 11) && *e != '(') e++;
        o += (size_t)snprintf(out + o, outlen - o, "%.*s", (int)(e - p), p);
        const char *q = strstr(rep, " of size ");
        if (q) { const char *b = q; while (b > rep && b[-1] != '\n') b--; const char *e2 = q + 9; while (isdigit((unsigned char)*e2)) e2++; o += (size_t)snprintf(out + o, outlen - o, " %.*s", (int)(e2 - b), b); }
    } else if ((p = strstr(rep, "runtime error: "))) {
        const char *b = p; while (b > rep && b[-1] != '\n') b--;
        const char *sl = b; for (const char *t = b; t < p; t++) if (*t == '/') sl = t + 1;
        const char *e = p; while (*e && *e != '\n') e++;
        o += (size_t)snprintf(out + o, outlen - o, "UBSan %.*s", (int)(e - sl), sl);
    } else if ((p = strstr(rep, "SLU-ABORT"))) {
        const char *e = p; while (*e && *e != '\n') e++; o += (size_t)snprintf(out + o, outlen - o, "%.*s", (int)(e - p), p);
    }
    /* frames inside the library: "#k 0x.. in func /path/SRC/file.c:line" */
    int nf = 0; const char *t = rep;
    while (nf < 2 && (t = strstr(t, " in "))) {
        const char *fn = t + 4; const char *sp = fn; while (*sp && *sp != ' ' && *sp != '\n') sp++;
        const char *eol = sp; while (*eol && *eol != '\n') eol++;
        const char *src = NULL; for (const char *u = sp; u + 5 < eol; u++) if (!strncmp(u, "/SRC/", 5)) src = u + 5;
        if (src && *sp == ' ') { const char *e = src; while (e < eol && *e != ' ' && *e != ')') e++; const char *cl = src; int colons = 0; for (const char *u = src; u < e; u++) if (*u == ':' && ++colons == 2) { e = u; break; } (void)cl;
            o += (size_t)snprintf(out + o, outlen - o, "%s%.*s@%.*s", nf ? " <- " : " in ", (int)(sp - fn), fn, (int)(e - src), src); nf++; }
        t = eol;
    }
    for (char *z = out; *z; z++) if (*z == '\n' || *z == '\r' || *z == '\t') *z = ' ';
}
/* returns a status word in `status` and a diagnosis; g_sh holds the results when status = "ok" */
static void run_reader(ctx_t *c, int fmt, char ty, const char *text, size_t len, int copy, char *status, char *diag, size_t diaglen) {
    rd_setup(); diag[0] = 0;
    fflush(c->out); fflush(stdout); fflush(stderr);
    memset(g_sh, 0, sizeof(rd_shared_t)); g_sh->state = RD_INIT;
    if (ftruncate(g_errfd, 0) != 0) { /* ignore */ } lseek(g_errfd, 0, SEEK_SET);
    pid_t pid = fork();
    if (pid < 0) { perror("fork"); exit(3); }
    if (pid == 0) {
        /* a reader that loops burns CPU: limit CPU time (immune to machine load); the wall-clock alarm is a backstop */
        { struct rlimit rl; rl.rlim_cur = (rlim_t)ctx_argl(c, "rcpu", 2); rl.rlim_max = rl.rlim_cur + 2; setrlimit(RLIMIT_CPU, &rl); }
        signal(SIGALRM, SIG_DFL); signal(SIGXCPU, SIG_DFL); alarm((unsigned)ctx_argl(c, "rtimeout", 60));
        int nul = open("/dev/null", O_WRONLY); if (nul >= 0) dup2(nul, 1);
        dup2(g_errfd, 2);
        switch (ty) { case 's': rd_run_s(fmt, text, len, g_sh, RD_CAP - sizeof(rd_shared_t), copy); break;
                      case 'd': rd_run_d(fmt, text, len, g_sh, RD_CAP - sizeof(rd_shared_t), copy); break;
                      case 'c': rd_run_c(fmt, text, len, g_sh, RD_CAP - sizeof(rd_shared_t), copy); break;
                      default:  rd_run_z(fmt, text, len, g_sh, RD_CAP - sizeof(rd_shared_t), copy); break; }
        _exit(0);
    }
    int st = 0; while (waitpid(pid, &st, 0) < 0 && errno == EINTR) ;
    static char rep[1 << 16]; off_t sz = lseek(g_errfd, 0, SEEK_END); lseek(g_errfd, 0, SEEK_SET);
    ssize_t got = read(g_errfd, rep, sizeof rep - 1 < (size_t)sz ? sizeof rep - 1 : (size_t)sz); if (got < 0) got = 0; rep[got] = 0;
    int san = strstr(rep, "ERROR: AddressSanitizer") || strstr(rep, "AddressSanitizer:DEADLYSIGNAL") || strstr(rep, "runtime error:");
    if (san) { strcpy(status, "memerr"); digest_report(rep, diag, diaglen); fputs(rep, stderr); }
    else if (WIFSIGNALED(st) && (WTERMSIG(st) == SIGALRM || WTERMSIG(st) == SIGXCPU || WTERMSIG(st) == SIGKILL)) strcpy(status, "hang");
    else if (WIFSIGNALED(st) && WTERMSIG(st) == SIGABRT) { strcpy(status, "abort"); digest_report(rep, diag, diaglen); }
    else if (WIFSIGNALED(st)) { sprintf(status, "signal%d", WTERMSIG(st)); }
    else if (WEXITSTATUS(st) != 0) sprintf(status, "exit%d", WEXITSTATUS(st));
    else if (g_sh->state == RD_COPIED || (!copy && g_sh->state == RD_RETURNED)) strcpy(status, "ok");
    else sprintf(status, "state%d", g_sh->state);
}

static const char *fmt_name(int f) { return f == RD_HB ? "hb" : f == RD_RB ? "rb" : f == RD_MM ? "mm" : "tri"; }
static void emit_text(FILE *f, const char *name, const char *t, size_t n) {
    fprintf(f, "i %s %zu", name, n); for (size_t i = 0; i < n; i++) fprintf(f, " %d", (unsigned char)t[i]); fputc('\n', f);
}
static void emit_results(FILE *f, const cmat_t *M) {
    int n = g_sh->n; long long nnz = g_sh->nnz;
    fprintf(f, "i R.dims 3 %d %d %lld\n", g_sh->m, g_sh->n, nnz);
    const long long *cp = g_sh->data, *ri = cp + (n + 1);
    fprintf(f, "i R.colptr %d", n + 1); for (int j = 0; j <= n; j++) fprintf(f, " %lld", cp[j]); fputc('\n', f);
    fprintf(f, "i R.rowind %lld", nnz); for (long long k = 0; k < nnz; k++) fprintf(f, " %lld", ri[k]); fputc('\n', f);
    const char *v = (const char *)(ri + nnz); long cnt = (long)nnz * (M->cplx ? 2 : 1);
    if (M->dbl) out_f64(f, "R.val", cnt, (const double *)v); else out_f32(f, "R.val", cnt, (const float *)v);
}

void fam_readers(ctx_t *c) {
    classes_t kl; get_classes(c, &kl);
    for (long i = c->start; i < c->start + c->count; i++) {
        rng_t r; case_rng(c, i, &r); char ty = pick_ty(c, i);
        cmat_t M; gen_case(&r, c, i, ty, &kl, 0, &M);
        int compat = (M.fmt == RD_MM && M.cplx && kl.mmcompat && (!kl.zmm || rng_chance(&r, 0.5)));
        sb_t s = { 0 };
        switch (M.fmt) { case RD_HB: case RD_RB: write_hbrb(&r, &M, &s); break; case RD_MM: write_mm(&r, &M, &s, compat, kl.mmlongtok); break; default: write_tri(&r, &M, &s); }
        char status[32], diag[600];
        out_begin_marker(c->family, i);
        run_reader(c, M.fmt, ty, s.p, s.n, 1, status, diag, sizeof diag);
        FILE *f = c->out;
        out_case(f, c->family, i);
        out_p(f, "ty", "%c", ty); out_p(f, "fmt", "%s", fmt_name(M.fmt)); out_p(f, "pat", "%s", M.pat);
        out_p(f, "sym", "%d", M.sym); out_p(f, "diag", "%s", !M.sym ? "na" : M.diagmode == 0 ? "all" : M.diagmode == 1 ? "none" : "some");
        out_p(f, "base", "%d", M.base); out_p(f, "order", "%d", M.order); out_p(f, "dups", "%d", M.dups);
        out_p(f, "vstyle", "%s", M.vs.style == 0 ? "exp" : M.vs.style == 1 ? "fixed" : "int");
        out_p(f, "P", "%d", M.vs.P); out_p(f, "expstyle", "%d", M.vs.style == 0 ? M.vs.expstyle : -1);
        out_p(f, "hdr", "%s", compat ? "compat" : "std"); out_p(f, "longtok", "%d", M.longtok);
        if (M.fmt == RD_HB || M.fmt == RD_RB) {
            out_p(f, "ptrfmt", "%s", M.ptrfmt); out_p(f, "indfmt", "%s", M.indfmt); out_p(f, "valfmt", "%s", M.valfmt);
            out_p(f, "pform", "%s", M.pform == 0 ? "none" : M.pform == 1 ? "sP" : "sP,"); out_p(f, "letter", "%c", M.vs.style == 0 ? (char)toupper((unsigned char)M.vs.explet) : 'F');
            out_p(f, "scale", "%d", M.pform ? (M.vs.style == 0 ? M.vs.s : M.vs.fshift) : 0);
            out_p(f, "rhs", "%d", M.rhs); out_p(f, "tight", "%d", M.tight);
        }
        emit_text(f, "text", s.p, s.n);
        fprintf(f, "i M.dims 3 %d %d %ld\n", M.m, M.n, M.nf);
        fprintf(f, "i M.row %ld", M.nf); for (long k = 0; k < M.nf; k++) fprintf(f, " %d", M.Fm[k].r); fputc('\n', f);
        fprintf(f, "i M.col %ld", M.nf); for (long k = 0; k < M.nf; k++) fprintf(f, " %d", M.Fm[k].c); fputc('\n', f);
        int vpe = M.cplx ? 2 : 1; char mb[40];
        fprintf(f, "i M.mant %ld", M.nf * vpe); for (long k = 0; k < M.nf; k++) for (int t = 0; t < vpe; t++) { dec_emit(f, &M.Fm[k].v[t], mb); fprintf(f, " %s", mb); } fputc('\n', f);
        fprintf(f, "i M.exp %ld", M.nf * vpe); for (long k = 0; k < M.nf; k++) for (int t = 0; t < vpe; t++) fprintf(f, " %d", M.Fm[k].v[t].e); fputc('\n', f);
        out_p(f, "status", "%s", status);
        if (diag[0]) fprintf(f, "s diag %s\n", diag);
        if (!strcmp(status, "ok")) emit_results(f, &M);
        out_end(f);
        free(s.p); free_case(&M);
    }
}

/* ------------------------------------------------------------------ malformed files */
static size_t data_start(const cmat_t *M, const char *t, size_t n) {
    /* first byte after the header lines (fixed formats: 4 or 5 lines; MM: header line; triplet: 0) */
    int lines = (M->fmt == RD_HB) ? 4 + M->rhs : (M->fmt == RD_RB) ? 4 : (M->fmt == RD_MM) ? 1 : 0;
    size_t p = 0; while (lines > 0 && p < n) { if (t[p] == '\n') lines--; p++; }
    return p;
}
void fam_readers_bad(ctx_t *c) {
    classes_t kl; get_classes(c, &kl); kl.pscaleF = kl.noE = kl.mmcompat = 0; kl.symnodiag = 0; kl.pcomma = 0;
    int unsafe = (int)ctx_argl(c, "unsafe", 0);
    for (long i = c->start; i < c->start + c->count; i++) {
        rng_t r; case_rng(c, i, &r); char ty = pick_ty(c, i);
        cmat_t M; gen_case(&r, c, i, ty, &kl, !unsafe, &M);
        int compat = 0;
        { classes_t k2; get_classes(c, &k2); if (M.fmt == RD_MM && M.cplx && k2.mmcompat) compat = 1; }   /* the header the pinned [cz]readMM accept */
        sb_t s = { 0 };
        switch (M.fmt) { case RD_HB: case RD_RB: write_hbrb(&r, &M, &s); break; case RD_MM: write_mm(&r, &M, &s, compat, 0); break; default: write_tri(&r, &M, &s); }
        size_t d0 = data_start(&M, s.p, s.n); if (d0 >= s.n) d0 = s.n ? s.n - 1 : 0;
        int fixedfmt = (M.fmt == RD_HB || M.fmt == RD_RB);
        int mut = rng_int(&r, 0, fixedfmt ? 4 : 6); const char *mname = "";
        switch (mut) {
        case 0: mname = "truncate"; { size_t cut = d0 + (size_t)rng_int(&r, 0, (int)(s.n - d0)); s.n = cut; if (s.n == 0) { s.n = 1; } s.p[s.n] = 0; } break;
        case 1: mname = "corrupt"; { int k = rng_int(&r, 1, 4); for (int q = 0; q < k && s.n > d0; q++) { size_t p = d0 + (size_t)rng_int(&r, 0, (int)(s.n - d0 - 1)); if (s.p[p] != '\n') s.p[p] = (char)rng_int(&r, 33, 126); } } break;
        case 2: mname = "delete-line"; { size_t p = d0 + (size_t)rng_int(&r, 0, (int)(s.n - d0 - 1)); size_t b = p; while (b > d0 && s.p[b - 1] != '\n') b--; size_t e = p; while (e < s.n && s.p[e] != '\n') e++; if (e < s.n) e++; memmove(s.p + b, s.p + e, s.n - e); s.n -= (e - b); if (s.n == 0) { s.p[0] = '\n'; s.n = 1; } s.p[s.n] = 0; } break;
        case 3: mname = "blank-digits"; { int k = rng_int(&r, 1, 6); for (int q = 0; q < k && s.n > d0; q++) { size_t p = d0 + (size_t)rng_int(&r, 0, (int)(s.n - d0 - 1)); if (isdigit((unsigned char)s.p[p])) s.p[p] = ' '; } } break;
        case 4: mname = "dup-line"; { size_t p = d0 + (size_t)rng_int(&r, 0, (int)(s.n - d0 - 1)); size_t b = p; while (b > d0 && s.p[b - 1] != '\n') b--; size_t e = p; while (e < s.n && s.p[e] != '\n') e++; if (e < s.n) e++; size_t l = e - b; sb_need(&s, l); memmove(s.p + e + l, s.p + e, s.n - e); memcpy(s.p + e, s.p + b, l); s.n += l; s.p[s.n] = 0; } break;
        case 5: mname = "index-out-of-range"; { /* rewrite one triplet line with an index outside 1..n */
            size_t p = d0 + (size_t)rng_int(&r, 0, (int)(s.n - d0 - 1)); size_t b = p; while (b > d0 && s.p[b - 1] != '\n') b--; size_t e = b; while (e < s.n && s.p[e] != '\n') e++;
            char nl[128]; int bad = rng_chance(&r, 0.5) ? M.n + 1 + rng_int(&r, 0, 3) : -rng_int(&r, 0, 2); int good = rng_int(&r, 1, M.n);
            int l = snprintf(nl, sizeof nl, rng_chance(&r, 0.5) ? "%d %d 1.5 2.5" : "%2$d %1$d 1.5 2.5", bad, good); if (!M.cplx) l -= 4;
            sb_t t2 = { 0 }; sb_putn(&t2, s.p, b); sb_putn(&t2, nl, (size_t)l); sb_putn(&t2, s.p + e, s.n - e); free(s.p); s = t2; } break;
        default: mname = "header-token"; { /* first line: change one character of the banner / size line */
            size_t e = 0; while (e < s.n && s.p[e] != '\n') e++; if (e > 0) { size_t p = (size_t)rng_int(&r, 0, (int)e - 1); char ch = (char)rng_int(&r, 33, 126); if (M.fmt == RD_TRI && (ch == '-' || isdigit((unsigned char)ch))) ch = 'x'; s.p[p] = ch; } } break;
        }
        char status[32], diag[600];
        out_begin_marker(c->family, i);
        run_reader(c, M.fmt, ty, s.p, s.n, 0, status, diag, sizeof diag);
        FILE *f = c->out;
        out_case(f, c->family, i);
        out_p(f, "ty", "%c", ty); out_p(f, "fmt", "%s", fmt_name(M.fmt)); out_p(f, "mut", "%s", mname); out_p(f, "sym", "%d", M.sym);
        { uint64_t h = 1469598103934665603ULL; for (size_t q = 0; q < s.n; q++) h = (h ^ (unsigned char)s.p[q]) * 1099511628211ULL; out_p(f, "textsum", "%zu:%016llx", s.n, (unsigned long long)h); }
        out_p(f, "status", "%s", status);
        if (diag[0]) fprintf(f, "s diag %s\n", diag);
        if (!strcmp(status, "memerr")) emit_text(f, "text", s.p, s.n);
        out_end(f);
        free(s.p); free_case(&M);
    }
}

/* ------------------------------------------------------------------ descriptor grammar, enumerated */
void fam_readers_fmt(ctx_t *c) {
    classes_t kl; get_classes(c, &kl);
    static const char letters[] = "EDFedf";
    static const char *pv[] = { "", "0P", "1P", "0P,", "1P,", "-1P", "2P,", "1p", "3P" };
    for (long i = c->start; i < c->start + c->count; i++) {
        rng_t r; case_rng(c, i, &r); char ty = pick_ty(c, i);
        long g = ((i >> 2) * 7919L) % 15552L;   /* 12*24*6*9 grid points; 7919 is coprime: 62208 cases enumerate the grid for all four types */
        int k = 1 + (int)(g % 12); g /= 12; int w = 2 + (int)(g % 24); g /= 24; char L = letters[g % 6]; g /= 6; int pi = (int)(g % 9);
        if (!kl.pcomma && strchr(pv[pi], ',')) pi = (pi == 3) ? 1 : 2;
        int d = w > 7 ? rng_int(&r, 0, w - 7) : 0;
        int ik = rng_int(&r, 1, 40), iw = rng_int(&r, 1, 14); char I = rng_chance(&r, 0.3) ? 'i' : 'I';
        const char *b1 = rng_chance(&r, 0.15) ? " " : "", *b2 = rng_chance(&r, 0.15) ? " " : "";
        char ibuf[100], fbuf[100], t[64];
        /* what the caller's buffer holds behind the field: remains of the title line */
        for (int q = 0; q < 99; q++) { ibuf[q] = "ab(1)2 3.I4E5,P"[rng_int(&r, 0, 14)]; fbuf[q] = "ab(1)2 3.I4E5,P"[rng_int(&r, 0, 14)]; } ibuf[99] = fbuf[99] = 0;
        int l = snprintf(t, sizeof t, "%s(%s%d%c%d%s)", rng_chance(&r, 0.1) ? " " : "", b1, ik, I, iw, b2); if (l > 16) l = snprintf(t, sizeof t, "(%d%c%d)", ik, I, iw);
        memset(ibuf, ' ', 16); memcpy(ibuf, t, (size_t)l);
        l = snprintf(t, sizeof t, "(%s%s%d%c%d.%d%s)", pv[pi], (strchr(pv[pi], ',') && rng_chance(&r, 0.2)) ? " " : "", k, L, w, d, b2); if (l > 20) l = snprintf(t, sizeof t, "(%s%d%c%d.%d)", pv[pi], k, L, w, d);
        memset(fbuf, ' ', 20); memcpy(fbuf, t, (size_t)l);
        int out[4]; char icopy[100], fcopy[100]; memcpy(icopy, ibuf, 100); memcpy(fcopy, fbuf, 100);
        out_begin_marker(c->family, i);
        switch (ty) { case 's': rd_parse_s(ibuf, fbuf, out); break; case 'd': rd_parse_d(ibuf, fbuf, out); break; case 'c': rd_parse_c(ibuf, fbuf, out); break; default: rd_parse_z(ibuf, fbuf, out); }
        FILE *f = c->out;
        out_case(f, c->family, i);
        out_p(f, "ty", "%c", ty); out_p(f, "letter", "%c", L); out_p(f, "pv", "%s", pv[pi][0] ? pv[pi] : "none");
        emit_text(f, "ibuf", icopy, 99); emit_text(f, "fbuf", fcopy, 99);
        fprintf(f, "i want 4 %d %d %d %d\n", ik, iw, k, w);
        out_ints(f, "got", 4, out);
        out_end(f);
    }
}
