// FAMILY(threads, "C09 concurrent independent calls vs the same calls alone (TSan/ASan), and repeat-determinism between unrelated calls with poisoned allocations")
/* Two kinds of cases (p mode):
 *   conc : T = 2..16 threads, each with 1..3 independent jobs (gssv / gssvx / get_perm_c+sp_preorder+
 *          gstrf+gstrs(+gscon+gsrfs) / all orderings / gsisx) on its own data.  Every job is first run
 *          alone in the main thread (reference bytes), then all threads start behind a barrier with
 *          randomised small delays; the bytes each job produced concurrently must equal the reference.
 *          Under the `tsan` variant a data race inside the library aborts the process (halt_on_error,
 *          exit code 66) and `check` records the case as a crash.
 *   hist : one thread; job J alone (fresh blocks filled 0xA5), then unrelated jobs, J again, more
 *          unrelated jobs, J again with fresh blocks filled 0x5A: the three byte streams must be equal
 *          (repeatability whatever was solved in between, and no dependence on uninitialised memory).
 * The protocol block is written after all threads have been joined.  Everything random derives from
 * the case rng; thread delays only change the interleaving, never the data. */
#include "putil.h"
#include <pthread.h>
#include <time.h>
#include <sched.h>

/* TSan: stop at the first report so that the failing case is the one after the last BEGIN marker */
const char *__tsan_default_options(void) { return "halt_on_error=1:exitcode=66:second_deadlock_stack=1"; }

enum { JOB_GSSV = 0, JOB_GSSVX, JOB_PIPE, JOB_PERM, JOB_GSISX, JOB_NUM };
static const char *job_names[] = { "gssv", "gssvx", "pipe", "perm", "gsisx" };

typedef struct {
    int kind; char ty; int n, nrhs, ldb;
    gmat_t g; double *bre, *bim;
    int colperm, trans, equil, refine, nr, symm, condnum, pivg, extra;
    double u;
    int ilu_drop, ilu_milu, ilu_rowperm, ilu_norm; double ilu_droptol, ilu_fill;
    /* caller-supplied work area (lwork > 0) for gssvx / gsisx / gstrf: the CALLER of job_run owns the
       buffer and decides what it contains when the job starts (garbage, or what earlier jobs left) */
    int userwork; void *work; long lwork;
} job_t;
#define JOB_LWORK (1L << 20)
static void *job_work_new(int fill) { void *w = malloc(JOB_LWORK + 16); memset(w, fill, JOB_LWORK + 16); return w; }

#define OB_MAXSEC 96
typedef struct { unsigned char *p; size_t n, cap; const char *sec[OB_MAXSEC]; size_t secoff[OB_MAXSEC]; int nsec; } obuf_t;
static void ob_put(obuf_t *o, const char *tag, const void *src, size_t len) {
    if (o->nsec < OB_MAXSEC) { o->sec[o->nsec] = tag; o->secoff[o->nsec] = o->n; o->nsec++; }
    if (o->n + len + 8 > o->cap) { o->cap = (o->n + len + 8) * 2; o->p = realloc(o->p, o->cap); }
    if (len) memcpy(o->p + o->n, src, len);
    o->n += len;
}
static void ob_free(obuf_t *o) { free(o->p); memset(o, 0, sizeof *o); }
static uint64_t ob_hash(const obuf_t *o) { uint64_t h = 1469598103934665603ULL; for (size_t i = 0; i < o->n; i++) { h ^= o->p[i]; h *= 1099511628211ULL; } return h; }
/* first difference: returns -1 when equal, else the byte offset; *sec = section tag */
static long ob_diff(const obuf_t *a, const obuf_t *b, const char **sec) {
    size_t m = a->n < b->n ? a->n : b->n; long at = -1;
    for (size_t i = 0; i < m; i++) if (a->p[i] != b->p[i]) { at = (long)i; break; }
    if (at < 0 && a->n != b->n) at = (long)m;
    if (at < 0) return -1;
    *sec = "?"; for (int s = 0; s < a->nsec; s++) if (a->secoff[s] <= (size_t)at) *sec = a->sec[s];
    return at;
}

#define FAMILY_INC "fam_threads.inc"
#include "all_prec.h"

static int job_debug = -1;
static void job_run(const job_t *j, obuf_t *o) {
    if (job_debug < 0) job_debug = getenv("THREADS_DEBUG") != NULL;
    if (job_debug) fprintf(stderr, "JOB kind=%s ty=%c n=%d nnz=%ld pat=%s val=%s nrhs=%d ldb=%d colperm=%d trans=%d equil=%d refine=%d nr=%d symm=%d cond=%d pivg=%d extra=%d u=%g userwork=%d ilu(drop=0x%x milu=%d rowperm=%d norm=%d tol=%g fill=%g) tuning=%d,%d,%d,%d,%d,%d,%d\n",
        job_names[j->kind], j->ty, j->n, j->g.nnz, j->g.pat, j->g.val, j->nrhs, j->ldb, j->colperm, j->trans, j->equil, j->refine, j->nr, j->symm, j->condnum, j->pivg, j->extra, j->u, j->userwork,
        j->ilu_drop, j->ilu_milu, j->ilu_rowperm, j->ilu_norm, j->ilu_droptol, j->ilu_fill,
        slu_verif_ienv[1], slu_verif_ienv[2], slu_verif_ienv[3], slu_verif_ienv[4], slu_verif_ienv[5], slu_verif_ienv[6], slu_verif_ienv[7]);
    long lb0 = job_debug ? led_live_blocks(1) : 0;
    DISPATCH_TY(j->ty, job_run, j, o);
    if (job_debug) fprintf(stderr, "JOBEND live %+ld\n", led_live_blocks(1) - lb0);
}

static void job_gen(rng_t *r, int thorough, char ty, int forced_kind, job_t *j) {
    memset(j, 0, sizeof *j);
    j->ty = ty; j->kind = rng_int(r, 0, JOB_NUM - 1);
    if (forced_kind >= 0) j->kind = forced_kind;
    int cplx = (ty == 'c' || ty == 'z');
    j->n = rng_int(r, 1, thorough ? 30 : 12);
    if (rng_chance(r, 0.1)) j->n = rng_int(r, 13, thorough ? 60 : 24);
    j->nrhs = rng_int(r, 0, 3); if (j->kind == JOB_GSISX && j->nrhs == 0) j->nrhs = 1;
    j->ldb = j->n + rng_int(r, 0, 2);
    /* structurally nonsingular with non-cancelling values: the singular exits of gstrf are C19's subject
       (with poisoned allocations they read uninitialised subscripts - see fam_lifecycle.c) */
    int nonsing = rng_chance(r, 0.5) ? 1 : 2;
    /* gsisx is kept on structurally nonsingular matrices here: on structurally singular input
       [sdcz]gsitrf writes marker[pivrow] with an unset pivrow (cgsitrf.c:436) - a finding that belongs
       to C15/C19 and is exercised by the lifecycle family, not by the schedule family */
    if (j->kind == JOB_GSISX) nonsing = 2;
    int val = rng_chance(r, 0.5) ? VAL_GENERIC : (rng_chance(r, 0.5) ? VAL_DIAGDOM : VAL_SCALED);
    if (j->kind == JOB_GSISX) val = rng_chance(r, 0.5) ? VAL_GENERIC : VAL_DIAGDOM;   /* see the note above: ILU breakdowns are not this family's subject */
    gmat_gen(r, j->n, j->n, PAT_ANY, val, nonsing, cplx, &j->g);
    j->bre = malloc(sizeof(double) * ((size_t)j->n * (j->nrhs + 1) + 1)); j->bim = malloc(sizeof(double) * ((size_t)j->n * (j->nrhs + 1) + 1));
    for (size_t t = 0; t < (size_t)j->n * j->nrhs; t++) { j->bre[t] = gen_value(r, VAL_GENERIC); j->bim[t] = cplx ? gen_value(r, VAL_GENERIC) : 0.0; }
    j->colperm = rng_int(r, 0, 3); j->trans = rng_int(r, 0, 2); j->equil = rng_chance(r, 0.6); j->refine = rng_int(r, 0, 3);
    j->nr = (j->kind == JOB_GSSV || j->kind == JOB_GSSVX || j->kind == JOB_GSISX) ? rng_chance(r, 0.3) : 0;
    j->symm = rng_chance(r, 0.2); j->condnum = rng_chance(r, 0.7); j->pivg = rng_chance(r, 0.7); j->extra = rng_int(r, 0, 3);
    { static const double us[] = { 1.0, 1.0, 0.5, 0.1, 0.001, 0.0 }; j->u = us[rng_int(r, 0, 5)]; }
    if (j->symm && j->colperm != 2) j->symm = (j->kind == JOB_PERM);
    /* a third of the factoring jobs work in a caller-supplied area; symmetric mode (the only user of
       heap_relax_snode) is then drawn more often */
    j->userwork = (j->kind == JOB_GSSVX || j->kind == JOB_GSISX || j->kind == JOB_PIPE) && rng_chance(r, 0.35);
    if (j->userwork && j->kind != JOB_GSISX && rng_chance(r, 0.5)) { j->symm = 1; j->colperm = 2; }
    /* ILU options: the basic rule or the default (BASIC|AREA) with the default fill factor; the other
       secondary rules with small fill factors overflow dwork2 in ilu_?copy_to_ucol.c:175 (a C15/C19
       finding, reproduced by fam_lifecycle) and would only add noise to a schedule test */
    j->ilu_drop = rng_chance(r, 0.5) ? DROP_BASIC : (DROP_BASIC | DROP_AREA);
    j->ilu_milu = rng_int(r, 0, 3); j->ilu_rowperm = rng_chance(r, 0.5); j->ilu_norm = rng_int(r, 0, 2);
    j->ilu_droptol = rng_chance(r, 0.3) ? 0.0 : 1e-4 * rng_int(r, 1, 100); j->ilu_fill = 10.0;
}
static void job_free(job_t *j) { gmat_free(&j->g); free(j->bre); free(j->bim); }
static int job_uw_count(const job_t *j, int n) { int c = 0; for (int i = 0; i < n; i++) c += j[i].userwork; return c; }

/* ------------------------------------------------------------------ concurrent phase */
typedef struct {
    int tid, njobs; job_t *jobs; obuf_t *outs;
    pthread_barrier_t *bar; uint64_t dseed;
} worker_t;

static void small_delay(rng_t *r) {
    switch (rng_int(r, 0, 3)) {
    case 0: break;
    case 1: sched_yield(); break;
    case 2: { struct timespec ts = { 0, rng_int(r, 1, 200) * 1000L }; nanosleep(&ts, NULL); break; }
    default: { volatile unsigned x = 0; int k = rng_int(r, 1, 20000); for (int i = 0; i < k; i++) x += i; break; }
    }
}
static void *worker(void *arg) {
    worker_t *w = arg; rng_t r; rng_seed(&r, w->dseed);
    pthread_barrier_wait(w->bar);
    for (int k = 0; k < w->njobs; k++) { small_delay(&r); job_run(&w->jobs[k], &w->outs[k]); }
    return NULL;
}

#define MAXT 16
#define MAXJ 3
static void conc_case(ctx_t *c, long idx, rng_t *r) {
    int T = rng_int(r, 2, rng_chance(r, 0.3) ? MAXT : 8);
    int tune[8]; rand_tuning(r, tune);
    set_tuning(tune[1], tune[2], tune[3], tune[4], tune[5], tune[6], tune[7]);
    worker_t w[MAXT]; job_t jobs[MAXT][MAXJ]; obuf_t ref[MAXT][MAXJ], got[MAXT][MAXJ];
    memset(ref, 0, sizeof ref); memset(got, 0, sizeof got);
    int total = 0;
    pthread_barrier_t bar; pthread_barrier_init(&bar, NULL, (unsigned)T);
    int samekind = rng_chance(r, 0.25) ? rng_int(r, 0, JOB_NUM - 1) : -1;   /* sometimes all threads hammer the same routine */
    for (int t = 0; t < T; t++) {
        w[t].tid = t; w[t].njobs = rng_int(r, 1, MAXJ); w[t].jobs = jobs[t]; w[t].outs = got[t]; w[t].bar = &bar; w[t].dseed = rng_u64(r);
        for (int k = 0; k < w[t].njobs; k++) {
            char ty = c->ty ? c->ty : "dszc"[rng_int(r, 0, 3)];
            job_gen(r, c->thorough, ty, samekind, &jobs[t][k]);
            total++;
        }
    }
    { int anyilu = 0; for (int t = 0; t < T; t++) for (int k = 0; k < w[t].njobs; k++) anyilu |= jobs[t][k].kind == JOB_GSISX;
      fprintf(stderr, "BEGIN %s %ld conc%s\n", c->family, idx, anyilu ? " has-ilu-job" : ""); fflush(stderr); }
    led_poison(0xA5);
    /* reference: each job alone (a user work area starts filled with 0xC3) */
    for (int t = 0; t < T; t++) for (int k = 0; k < w[t].njobs; k++) {
        if (jobs[t][k].userwork) { jobs[t][k].work = job_work_new(0xC3); jobs[t][k].lwork = JOB_LWORK; }
        job_run(&jobs[t][k], &ref[t][k]);
        /* the concurrent run gets the same area as the reference run left it, overwritten with 0x3C in its first half */
        if (jobs[t][k].userwork) memset(jobs[t][k].work, 0x3C, JOB_LWORK / 2);
    }
    long live_before = led_live_blocks(1);
    /* concurrent */
    pthread_t th[MAXT];
    for (int t = 0; t < T; t++) pthread_create(&th[t], NULL, worker, &w[t]);
    for (int t = 0; t < T; t++) pthread_join(th[t], NULL);
    pthread_barrier_destroy(&bar);
    long live_after = led_live_blocks(1);
    if (live_after != live_before && getenv("THREADS_DEBUG")) led_dump(stderr, 1);
    led_poison(-1);
    clear_tuning();
    /* protocol (single-threaded again) */
    out_case(c->out, c->family, idx);
    out_p(c->out, "mode", "conc"); out_p(c->out, "threads", "%d", T); out_p(c->out, "jobs", "%d", total);
    { int uw = 0; for (int t = 0; t < T; t++) uw += job_uw_count(jobs[t], w[t].njobs); out_p(c->out, "userwork", "%d", uw); out_p(c->out, "symm", "0"); }
    out_p(c->out, "tuned", "%d", tune[1] != 0);
    int *kinds = malloc(sizeof(int) * total), *infos = malloc(sizeof(int) * total), *tys = malloc(sizeof(int) * total), *ns = malloc(sizeof(int) * total);
    int *hr = malloc(sizeof(int) * 2 * total), *hg = malloc(sizeof(int) * 2 * total), *lr = malloc(sizeof(int) * total), *lg = malloc(sizeof(int) * total);
    int q = 0, ndiff = 0; char diffmsg[256] = "";
    for (int t = 0; t < T; t++) for (int k = 0; k < w[t].njobs; k++, q++) {
        kinds[q] = jobs[t][k].kind; tys[q] = jobs[t][k].ty; ns[q] = jobs[t][k].n;
        int_t inf = -99; /* the info word is the first section of every job except perm */
        if (jobs[t][k].kind != JOB_PERM && jobs[t][k].kind != JOB_PIPE && ref[t][k].n >= sizeof inf) memcpy(&inf, ref[t][k].p, sizeof inf);
        infos[q] = (int)inf;
        uint64_t a = ob_hash(&ref[t][k]), b = ob_hash(&got[t][k]);
        hr[2 * q] = (int)(a >> 32); hr[2 * q + 1] = (int)(a & 0xffffffffu); hg[2 * q] = (int)(b >> 32); hg[2 * q + 1] = (int)(b & 0xffffffffu);
        lr[q] = (int)ref[t][k].n; lg[q] = (int)got[t][k].n;
        const char *sec = "?"; long at = ob_diff(&ref[t][k], &got[t][k], &sec);
        if (at >= 0 && !ndiff++) snprintf(diffmsg, sizeof diffmsg, "thread=%d job=%d kind=%s ty=%c n=%d section=%s offset=%ld", t, k, job_names[jobs[t][k].kind], jobs[t][k].ty, jobs[t][k].n, sec, at);
    }
    out_ints(c->out, "kind", total, kinds); out_ints(c->out, "jty", total, tys); out_ints(c->out, "jn", total, ns); out_ints(c->out, "info", total, infos);
    out_ints(c->out, "ref_hash", 2 * total, hr); out_ints(c->out, "got_hash", 2 * total, hg);
    out_ints(c->out, "ref_len", total, lr); out_ints(c->out, "got_len", total, lg);
    out_p(c->out, "ndiff", "%d", ndiff);
    if (ndiff) fprintf(c->out, "s diff %s\n", diffmsg);
    out_p(c->out, "live_delta", "%ld", live_after - live_before);
    out_p(c->out, "double_frees", "%ld", led_double_frees());
    out_end(c->out);
    for (int t = 0; t < T; t++) for (int k = 0; k < w[t].njobs; k++) { ob_free(&ref[t][k]); ob_free(&got[t][k]); if (jobs[t][k].userwork) free(jobs[t][k].work); job_free(&jobs[t][k]); }
    free(kinds); free(infos); free(tys); free(ns); free(hr); free(hg); free(lr); free(lg);
}

/* ------------------------------------------------------------------ history phase */
static void hist_case(ctx_t *c, long idx, rng_t *r) {
    int tune[8]; rand_tuning(r, tune);
    set_tuning(tune[1], tune[2], tune[3], tune[4], tune[5], tune[6], tune[7]);
    char ty = c->ty ? c->ty : "dszc"[rng_int(r, 0, 3)];
    job_t J; job_gen(r, c->thorough, ty, -1, &J);
    int nun = rng_int(r, 2, 6); job_t un[6]; obuf_t uo[6]; memset(uo, 0, sizeof uo);
    for (int k = 0; k < nun; k++) job_gen(r, c->thorough, c->ty ? c->ty : "dszc"[rng_int(r, 0, 3)], -1, &un[k]);
    int split = rng_int(r, 1, nun - 1);
    obuf_t o1, o2, o3, o4; memset(&o1, 0, sizeof o1); memset(&o2, 0, sizeof o2); memset(&o3, 0, sizeof o3); memset(&o4, 0, sizeof o4);
    { int anyilu = J.kind == JOB_GSISX; for (int k = 0; k < nun; k++) anyilu |= un[k].kind == JOB_GSISX;
      fprintf(stderr, "BEGIN %s %ld hist%s\n", c->family, idx, anyilu ? " has-ilu-job" : ""); fflush(stderr); }
    /* one work area for the whole history: clean (0xA5) for the first run of J, then whatever the
       unrelated jobs that used it left behind */
    void *W = job_work_new(0xA5);
    J.work = W; J.lwork = JOB_LWORK; for (int k = 0; k < nun; k++) { un[k].work = W; un[k].lwork = JOB_LWORK; }
    if (J.userwork) { int any = 0; for (int k = 0; k < nun; k++) any |= un[k].userwork; if (!any) un[0].userwork = (un[0].kind == JOB_GSSVX || un[0].kind == JOB_GSISX || un[0].kind == JOB_PIPE); }
    led_poison(0xA5);
    job_run(&J, &o1);
    for (int k = 0; k < split; k++) job_run(&un[k], &uo[k]);
    job_run(&J, &o2);
    led_poison(0x5A);
    for (int k = split; k < nun; k++) job_run(&un[k], &uo[k]);
    job_run(&J, &o3);
    led_poison(0xFF);      /* fresh blocks of -1: what a never-written slot holds after the caller freed arrays of EMPTY markers */
    job_run(&J, &o4);
    led_poison(-1);
    free(W);
    clear_tuning();
    out_case(c->out, c->family, idx);
    out_p(c->out, "mode", "hist"); out_p(c->out, "threads", "1"); out_p(c->out, "jobs", "%d", 4 + nun);
    out_p(c->out, "userwork", "%d", J.userwork); out_p(c->out, "symm", "%d", J.symm);
    out_p(c->out, "tuned", "%d", tune[1] != 0);
    int kinds[1] = { J.kind }, tys[1] = { J.ty }, ns[1] = { J.n };
    int_t inf = -99; if (J.kind != JOB_PERM && J.kind != JOB_PIPE && o1.n >= sizeof inf) memcpy(&inf, o1.p, sizeof inf);
    int infos[1] = { (int)inf };
    out_ints(c->out, "kind", 1, kinds); out_ints(c->out, "jty", 1, tys); out_ints(c->out, "jn", 1, ns); out_ints(c->out, "info", 1, infos);
    uint64_t h[4] = { ob_hash(&o1), ob_hash(&o2), ob_hash(&o3), ob_hash(&o4) };
    int hr[2] = { (int)(h[0] >> 32), (int)(h[0] & 0xffffffffu) }, hg[6] = { (int)(h[1] >> 32), (int)(h[1] & 0xffffffffu), (int)(h[2] >> 32), (int)(h[2] & 0xffffffffu), (int)(h[3] >> 32), (int)(h[3] & 0xffffffffu) };
    int lr[1] = { (int)o1.n }, lg[3] = { (int)o2.n, (int)o3.n, (int)o4.n };
    out_ints(c->out, "ref_hash", 2, hr); out_ints(c->out, "got_hash", 6, hg); out_ints(c->out, "ref_len", 1, lr); out_ints(c->out, "got_len", 3, lg);
    const char *sec = "?"; int ndiff = 0; char diffmsg[256] = "";
    long at = ob_diff(&o1, &o2, &sec);
    if (at >= 0) { ndiff++; snprintf(diffmsg, sizeof diffmsg, "repeat=2 (same poison) kind=%s ty=%c n=%d section=%s offset=%ld", job_names[J.kind], J.ty, J.n, sec, at); }
    at = ob_diff(&o1, &o3, &sec);
    if (at >= 0 && !ndiff++) snprintf(diffmsg, sizeof diffmsg, "repeat=3 (poison 0x5A instead of 0xA5: uninitialised memory reaches the output) kind=%s ty=%c n=%d section=%s offset=%ld", job_names[J.kind], J.ty, J.n, sec, at);
    at = ob_diff(&o1, &o4, &sec);
    if (at >= 0 && !ndiff++) snprintf(diffmsg, sizeof diffmsg, "repeat=4 (poison 0xFF instead of 0xA5: uninitialised memory reaches the output) kind=%s ty=%c n=%d section=%s offset=%ld", job_names[J.kind], J.ty, J.n, sec, at);
    out_p(c->out, "ndiff", "%d", ndiff);
    if (ndiff) fprintf(c->out, "s diff %s\n", diffmsg);
    out_p(c->out, "live_delta", "0"); out_p(c->out, "double_frees", "%ld", led_double_frees());
    out_end(c->out);
    ob_free(&o1); ob_free(&o2); ob_free(&o3); ob_free(&o4);
    for (int k = 0; k < nun; k++) { ob_free(&uo[k]); job_free(&un[k]); }
    job_free(&J);
}

void fam_threads(ctx_t *c) {
    const char *only = ctx_arg(c, "mode", "");
    for (long i = c->start; i < c->start + c->count; i++) {
        rng_t r; case_rng(c, i, &r);
        int hist = only[0] ? !strcmp(only, "hist") : (i % 4 == 3);
        if (hist) hist_case(c, i, &r); else conc_case(c, i, &r);
    }
}
