#include <float.h>
/* Precision template: define exactly one of PREC_S PREC_D PREC_C PREC_Z, include this header, then
 * include the family's .inc body; afterwards include "unprec.h". */
#if defined(PREC_S)
#define PC 's'
#define PCS "s"
#define REAL float
#define SCAL float
#define CPLX 0
#define DBL 0
#define F(name) s##name
#define SPF(name) sp_s##name
#define ILUF(name) ilu_s##name
#define FX(name) name##_s      /* harness-side per-precision symbol */
#define DTYPE SLU_S
#define MACH smach
#define ARITH_EPS (FLT_EPSILON * 0.5f)   /* constants of the arithmetic, not what the library reports */
#define ARITH_SML FLT_MIN
#define RE(x) (x)
#define IM(x) (0.0f)
#define MKS(re_, im_) ((float)(re_))
#elif defined(PREC_D)
#define PC 'd'
#define PCS "d"
#define REAL double
#define SCAL double
#define CPLX 0
#define DBL 1
#define F(name) d##name
#define SPF(name) sp_d##name
#define ILUF(name) ilu_d##name
#define FX(name) name##_d
#define DTYPE SLU_D
#define MACH dmach
#define ARITH_EPS (DBL_EPSILON * 0.5)
#define ARITH_SML DBL_MIN
#define RE(x) (x)
#define IM(x) (0.0)
#define MKS(re_, im_) ((double)(re_))
#elif defined(PREC_C)
#define PC 'c'
#define PCS "c"
#define REAL float
#define SCAL singlecomplex
#define CPLX 1
#define DBL 0
#define F(name) c##name
#define SPF(name) sp_c##name
#define ILUF(name) ilu_c##name
#define FX(name) name##_c
#define DTYPE SLU_C
#define MACH smach
#define ARITH_EPS (FLT_EPSILON * 0.5f)   /* constants of the arithmetic, not what the library reports */
#define ARITH_SML FLT_MIN
#define RE(x) ((x).r)
#define IM(x) ((x).i)
#define MKS(re_, im_) ((singlecomplex){(float)(re_), (float)(im_)})
#elif defined(PREC_Z)
#define PC 'z'
#define PCS "z"
#define REAL double
#define SCAL doublecomplex
#define CPLX 1
#define DBL 1
#define F(name) z##name
#define SPF(name) sp_z##name
#define ILUF(name) ilu_z##name
#define FX(name) name##_z
#define DTYPE SLU_Z
#define MACH dmach
#define ARITH_EPS (DBL_EPSILON * 0.5)
#define ARITH_SML DBL_MIN
#define RE(x) ((x).r)
#define IM(x) ((x).i)
#define MKS(re_, im_) ((doublecomplex){(double)(re_), (double)(im_)})
#else
#error "define PREC_S, PREC_D, PREC_C or PREC_Z"
#endif
