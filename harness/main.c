/* hx <family> seed=<u64> start=<k> count=<n> tier=quick|thorough [ty=s|d|c|z] [key=value ...]
 * Generates cases [start, start+count) of the family deterministically from (seed, family, index),
 * runs the real SuperLU code on each and writes the line protocol to stdout. */
#include "common.h"
extern const family_t families[];
int main(int argc, char **argv) {
    if (argc < 2) { for (const family_t *f = families; f->name; f++) printf("%-12s %s\n", f->name, f->doc); return 2; }
    ctx_t c; memset(&c, 0, sizeof c);
    c.family = argv[1]; c.argc = argc - 2; c.argv = argv + 2; c.out = stdout;
    c.seed = (uint64_t)strtoull(ctx_arg(&c, "seed", "1"), NULL, 10);
    c.start = ctx_argl(&c, "start", 0); c.count = ctx_argl(&c, "count", 10);
    c.thorough = !strcmp(ctx_arg(&c, "tier", "quick"), "thorough");
    const char *ty = ctx_arg(&c, "ty", ""); c.ty = ty[0];
    static char obuf[1 << 16]; setvbuf(stdout, obuf, _IOFBF, sizeof obuf);
    for (const family_t *f = families; f->name; f++)
        if (!strcmp(f->name, c.family)) { f->fn(&c); fflush(stdout); fprintf(stderr, "DONE %s\n", c.family); return 0; }
    fprintf(stderr, "unknown family %s\n", c.family); return 2;
}
