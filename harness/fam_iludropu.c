// FAMILY(iludropu, "C15 ilu_[sdcz]copy_to_ucol called directly on synthetic column states: both dropping rules of U against the model Slu.IluDropU")
#include "putil.h"
#define FAMILY_INC "fam_iludropu.inc"
#include "all_prec.h"
void fam_iludropu(ctx_t *c) {
    for (long i = c->start; i < c->start + c->count; i++) {
        rng_t r; case_rng(c, i, &r);
        DISPATCH_TY(pick_ty(c, i), iludropu_case, c, i, &r);
    }
}
