// FAMILY(equil, "C11 gsequ/laqgs over the whole floating-point range")
#include "putil.h"
#define FAMILY_INC "fam_equil.inc"
#include "all_prec.h"
void fam_equil(ctx_t *c) {
    for (long i = c->start; i < c->start + c->count; i++) {
        rng_t r; case_rng(c, i, &r); char ty = pick_ty(c, i);
        DISPATCH_TY(ty, equil_case, c, i, &r);
    }
}
