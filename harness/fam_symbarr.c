// FAMILY(symbarr, "C03 [sdcz]pruneL / copy_to_ucol / snode_dfs called directly on synthetic GlobalLU_t states")
#include "putil.h"
/* Synthetic state of the symbolic data structures after columns 0..jcol have a structure and the first
 * `npiv` columns have been pivoted.  Every array is allocated with EXACTLY the number of entries a valid
 * state has (plain malloc: ASan red zones on both sides). */
typedef struct {
    int n, m, jcol, npiv, nsup;
    int *xsup, *supno, *perm_r, *piv, *lastcol /* lastcol[k]: last column (<= jcol) of k's supernode */;
    int_t *xlsub, *lsub, *xlusup; long nlsub, nlusup;
} sstate_t;
#define SENT 7777
static void *xm(size_t bytes) { void *p = malloc(bytes ? bytes : 1); if (!p) abort(); return p; }
static void shuffle_i(rng_t *r, int *a, int n) { for (int k = n - 1; k > 0; k--) { int q = rng_int(r, 0, k); int t = a[k]; a[k] = a[q]; a[q] = t; } }

static void sstate_gen(rng_t *r, int n, int m, int jcol, int npiv, int bias, sstate_t *S) {
    memset(S, 0, sizeof *S); S->n = n; S->m = m; S->jcol = jcol; S->npiv = npiv;
    S->xsup = xm(sizeof(int) * (n + 1)); S->supno = xm(sizeof(int) * (n + 1)); S->perm_r = xm(sizeof(int) * m);
    S->piv = xm(sizeof(int) * m); S->lastcol = xm(sizeof(int) * (n + 1));
    S->xlsub = xm(sizeof(int_t) * (n + 1)); S->xlusup = xm(sizeof(int_t) * (n + 1));
    rng_perm(r, m, S->piv);
    for (int i = 0; i < m; i++) S->perm_r[i] = SLU_EMPTY;
    for (int k = 0; k < npiv; k++) S->perm_r[S->piv[k]] = k;
    int biasrow = (bias && jcol < npiv) ? S->piv[jcol] : -1;
    for (int k = 0; k <= n; k++) { S->xsup[k] = SENT; S->supno[k] = SLU_EMPTY; S->xlsub[k] = SENT; S->xlusup[k] = SENT; S->lastcol[k] = -1; }
    int_t *buf = xm(sizeof(int_t) * (size_t)(jcol + 1) * (2 * (size_t)m + 2));
    int *pool = xm(sizeof(int) * m), *own = xm(sizeof(int) * m);
    long pos = 0; int f = 0, s = 0; S->xlusup[0] = 0;
    while (f <= jcol) {
        int w = rng_chance(r, 0.45) ? 1 : rng_int(r, 2, 4); int l = f + w - 1; if (l > jcol) l = jcol;
        S->xsup[s] = f; for (int k = f; k <= l; k++) { S->supno[k] = s; S->lastcol[k] = l; }
        int nown = 0; for (int k = f; k <= l && k < npiv; k++) own[nown++] = S->piv[k];
        int np = 0; for (int i = 0; i < m; i++) { int isown = 0; for (int q = 0; q < nown; q++) if (own[q] == i) isown = 1; if (!isown) pool[np++] = i; }
        shuffle_i(r, pool, np);
        int d = rng_int(r, 0, np < 9 ? np : 9); { int d2 = rng_int(r, 0, np < 9 ? np : 9); if (d2 > d) d = d2; }
        if (biasrow >= 0 && rng_chance(r, 0.85)) {   /* the pivot row of jcol among the trailing rows */
            int at = -1; for (int q = 0; q < np; q++) if (pool[q] == biasrow) at = q;
            if (at >= d) { if (d == 0) d = 1; int q = rng_int(r, 0, d - 1); int t = pool[q]; pool[q] = pool[at]; pool[at] = t; }
        }
        long start = pos;
        S->xlsub[f] = pos;
        for (int q = 0; q < nown; q++) buf[pos++] = own[q];
        for (int q = 0; q < d; q++) buf[pos++] = pool[q];
        long len1 = pos - start;
        if (l > f) {   /* second list: the structure of the last column (own pivot row anywhere, subset of the trailing rows) */
            for (int k = f + 1; k <= l; k++) S->xlsub[k] = pos;
            int cnt = 0; int *tmp = own;   /* reuse */
            if (l < npiv) tmp[cnt++] = S->piv[l];
            for (int q = 0; q < d; q++) if (pool[q] == biasrow ? rng_chance(r, 0.9) : rng_chance(r, 0.7)) tmp[cnt++] = pool[q];
            shuffle_i(r, tmp, cnt);
            for (int q = 0; q < cnt; q++) buf[pos++] = tmp[q];
        }
        S->xlsub[l + 1] = pos;
        for (int k = f; k <= l; k++) S->xlusup[k + 1] = S->xlusup[k] + len1;
        f = l + 1; s++;
    }
    S->xsup[s] = jcol + 1; S->nsup = s;
    for (int k = jcol + 1; k <= n; k++) S->supno[k] = rng_chance(r, 0.5) ? S->supno[jcol] : SLU_EMPTY;
    S->nlsub = pos; S->lsub = xm(sizeof(int_t) * pos); memcpy(S->lsub, buf, sizeof(int_t) * pos);
    S->nlusup = (long)S->xlusup[jcol + 1];
    free(buf); free(pool); free(own);
}
static void sstate_free(sstate_t *S) { free(S->xsup); free(S->supno); free(S->perm_r); free(S->piv); free(S->lastcol); free(S->xlsub); free(S->xlusup); free(S->lsub); }
static void sstate_out(FILE *f, const sstate_t *S, const char *sfx) {
    char nm[64];
#define NM(base) (snprintf(nm, sizeof nm, "%s%s", base, sfx), nm)
    out_ints(f, NM("xsup"), S->n + 1, S->xsup); out_ints(f, NM("supno"), S->n + 1, S->supno);
    out_ints(f, NM("perm_r"), S->m, S->perm_r);
    out_intts(f, NM("xlsub"), S->n + 1, S->xlsub); out_intts(f, NM("lsub"), S->nlsub, S->lsub);
    out_intts(f, NM("xlusup"), S->n + 1, S->xlusup);
#undef NM
}
#define FAMILY_INC "fam_symbarr.inc"
#include "all_prec.h"
void fam_symbarr(ctx_t *c) {
    const char *only = ctx_arg(c, "rt", "");
    for (long i = c->start; i < c->start + c->count; i++) {
        rng_t r; case_rng(c, i, &r); char ty = pick_ty(c, i);
        int rt = (int)((i / 4) % 3);
        if (only[0] == 'p') rt = 0; else if (only[0] == 'u') rt = 1; else if (only[0] == 's') rt = 2;
        if (rt == 0) DISPATCH_TY(ty, symbarr_prune, c, i, &r);
        else if (rt == 1) DISPATCH_TY(ty, symbarr_ucol, c, i, &r);
        else DISPATCH_TY(ty, symbarr_snode, c, i, &r);
    }
}
