// FAMILY(coldfsreal, "C02 the states [sdcz]gstrf hands to [sdcz]column_dfs inside real factorizations (hook H3): wfIn holds on them, and the call equals the array-level model")
#include "putil.h"
#define FAMILY_INC "fam_coldfsreal.inc"
#include "all_prec.h"
void fam_coldfsreal(ctx_t *c) {
    for (long i = c->start; i < c->start + c->count; i++) {
        rng_t r; case_rng(c, i, &r); char ty = pick_ty(c, i);
        DISPATCH_TY(ty, coldfsreal_case, c, i, &r);
    }
}
