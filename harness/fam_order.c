// FAMILY(order, "C10 get_perm_c (5 methods) + sp_preorder, getata/at_plus_a/sp_coletree/TreePostorder/relax_snode directly")
/* C10: column orderings are permutations; elimination tree exact and postordered.
 * Everything here is type independent (only the pattern is read), so there is no precision template;
 * the "depends only on the pattern" clause is exercised by running get_perm_c on three matrices that
 * share the pattern and differ in values and arithmetic type (d, d, z / s). */
#include "putil.h"

extern void getata(const int m, const int n, const int_t nz, const int_t *colptr, const int_t *rowind,
                   int_t *atanz, int_t **ata_colptr, int_t **ata_rowind);
extern void at_plus_a(const int n, const int_t nz, const int_t *colptr, const int_t *rowind,
                      int_t *bnz, int_t **b_colptr, int_t **b_rowind);
extern int sp_symetree(const int *acolst, const int *acolend, const int *arow, int n, int *parent);

static const char *meth_name(int k) {
    switch (k) { case NATURAL: return "NATURAL"; case MMD_ATA: return "MMD_ATA"; case MMD_AT_PLUS_A: return "MMD_AT_PLUS_A";
                 case COLAMD: return "COLAMD"; default: return "MY_PERMC"; }
}

/* bordered pattern for COLAMD's dense-row removal: n > 100, one or two (almost) full rows, a sparse body, and a few
 * columns whose ONLY entries lie in the dense rows ("newly-made null columns" once the dense rows are removed) */
static void bordered_gen(rng_t *r, int n, gmat_t *g) {
    int nd = rng_int(r, 1, 2), nnull = rng_int(r, 1, 6);
    char *mk = calloc((size_t)n * n, 1);
#define BK(i, j) mk[(size_t)(j) * n + (i)]
    int dr[2] = { rng_int(r, 0, n - 1), rng_int(r, 0, n - 1) };
    char *isnull = calloc(n, 1);
    for (int t = 0; t < nnull; t++) isnull[rng_int(r, 0, n - 1)] = 1;
    for (int j = 0; j < n; j++) {
        for (int d = 0; d < nd; d++) if (isnull[j] || rng_chance(r, 0.95)) BK(dr[d], j) = 1;
        if (isnull[j]) continue;
        if (j != dr[0] && (nd < 2 || j != dr[1])) BK(j, j) = 1;
        for (int t = rng_int(r, 0, 2); t > 0; t--) { int i = rng_int(r, 0, n - 1); if (i != dr[0] && (nd < 2 || i != dr[1])) BK(i, j) = 1; }
    }
    long nnz = 0; for (size_t k = 0; k < (size_t)n * n; k++) nnz += mk[k];
    g->m = g->n = n; g->nnz = nnz; g->pat = "bordered"; g->val = "generic";
    g->colptr = HMALLOC(sizeof(int_t) * (n + 1)); g->rowind = HMALLOC(sizeof(int_t) * (nnz + 1));
    g->re = HMALLOC(sizeof(double) * (nnz + 1)); g->im = HMALLOC(sizeof(double) * (nnz + 1));
    long k = 0;
    for (int j = 0; j < n; j++) { g->colptr[j] = k; for (int i = 0; i < n; i++) if (BK(i, j)) { g->rowind[k] = i; g->re[k] = gen_value(r, VAL_GENERIC); g->im[k] = 0; k++; } }
    g->colptr[n] = k;
#undef BK
    free(mk); free(isnull);
}

static void order_case(ctx_t *c, long idx, rng_t *r) {
    int big = c->thorough ? 40 : 12;
    int n = rng_int(r, 1, big), m = rng_chance(r, 0.6) ? n : rng_int(r, 1, big);
    if (rng_chance(r, 0.08)) n = rng_int(r, 1, 3);
    if (rng_chance(r, 0.04)) m = rng_int(r, 1, 2);
    static const int meths[5] = { NATURAL, MMD_ATA, MMD_AT_PLUS_A, COLAMD, MY_PERMC };
    int meth = meths[rng_int(r, 0, 4)];
    long want = ctx_argl(c, "method", -1); if (want >= 0 && want < 5) meth = meths[want];
    if (meth == MMD_AT_PLUS_A) m = n;                 /* documented: square only */
    int sym = rng_chance(r, 0.35);
    long wsym = ctx_argl(c, "sym", -1); if (wsym >= 0) sym = (int)wsym;
    int nonsing = rng_int(r, 0, 3); if (nonsing == 1 && m != n) nonsing = 0;
    /* a share of large sparse cases: only there do COLAMD's dense-row/column removal and MMD's mass
     * elimination / supervariable paths run (the cubic definition is not evaluated above n = 40) */
    int large = rng_chance(r, c->thorough ? 0.05 : 0.012) || ctx_argl(c, "large", 0);
    int pat = PAT_ANY;
    if (large) {
        static const int sp[5] = { PAT_ARROW, PAT_BAND, PAT_TRIDIAG, PAT_BLOCK, PAT_ARROW };
        n = rng_int(r, 60, c->thorough ? 300 : 120); m = (meth == MMD_AT_PLUS_A || rng_chance(r, 0.7)) ? n : rng_int(r, 60, c->thorough ? 300 : 120);
        pat = sp[rng_int(r, 0, 4)];
        if (nonsing == 1 && m != n) nonsing = 0;
    }
    gmat_t g;
    /* every 40th case: the bordered pattern (decided from the index so that the other cases keep their inputs) */
    int bordered = (idx % 40 == 17) || ctx_argl(c, "bordered", 0);
    if (bordered) { n = m = rng_int(r, 101, c->thorough ? 260 : 150); if (rng_chance(r, 0.6)) meth = COLAMD; large = 1; bordered_gen(r, n, &g); }
    else gmat_gen(r, m, n, pat, VAL_GENERIC, nonsing, 0, &g);
    /* row indices inside a column need not be sorted: shuffle some columns */
    int shuffled = rng_chance(r, 0.3);
    if (shuffled) for (int j = 0; j < n; j++) {
        int_t b = g.colptr[j], e = g.colptr[j + 1];
        for (int_t k = e - 1; k > b; k--) { int_t q = b + rng_int(r, 0, (int)(k - b)); int_t t = g.rowind[k]; g.rowind[k] = g.rowind[q]; g.rowind[q] = t; }
    }
    long nnz = g.nnz;
    /* three matrices on the same pattern: double, double with other values, complex/single */
    SuperMatrix A, A1, A2;
    int_t *cp[3], *ri[3];
    for (int t = 0; t < 3; t++) {
        cp[t] = HMALLOC(sizeof(int_t) * (n + 1)); ri[t] = HMALLOC(sizeof(int_t) * (nnz + 1));
        memcpy(cp[t], g.colptr, sizeof(int_t) * (n + 1)); memcpy(ri[t], g.rowind, sizeof(int_t) * nnz);
    }
    double *v0 = HMALLOC(sizeof(double) * (nnz + 1)), *v1 = HMALLOC(sizeof(double) * (nnz + 1));
    for (long k = 0; k < nnz; k++) { v0[k] = g.re[k]; v1[k] = rng_chance(r, 0.2) ? 0.0 : gen_value(r, VAL_SCALED); }
    dCreate_CompCol_Matrix(&A, m, n, nnz, v0, ri[0], cp[0], SLU_NC, SLU_D, SLU_GE);
    dCreate_CompCol_Matrix(&A1, m, n, nnz, v1, ri[1], cp[1], SLU_NC, SLU_D, SLU_GE);
    int third_z = rng_chance(r, 0.5);
    if (third_z) {
        doublecomplex *v2 = HMALLOC(sizeof(doublecomplex) * (nnz + 1));
        for (long k = 0; k < nnz; k++) { v2[k].r = gen_value(r, VAL_SMALLINT); v2[k].i = gen_value(r, VAL_GENERIC); }
        zCreate_CompCol_Matrix(&A2, m, n, nnz, v2, ri[2], cp[2], SLU_NC, SLU_Z, SLU_GE);
    } else {
        float *v2 = HMALLOC(sizeof(float) * (nnz + 1));
        for (long k = 0; k < nnz; k++) v2[k] = (float)gen_value(r, VAL_DYADIC);
        sCreate_CompCol_Matrix(&A2, m, n, nnz, v2, ri[2], cp[2], SLU_NC, SLU_S, SLU_GE);
    }
    int *perm_c = HMALLOC(sizeof(int) * (n + 1)), *pv1 = HMALLOC(sizeof(int) * (n + 1)), *pv2 = HMALLOC(sizeof(int) * (n + 1));
    int *etree = HMALLOC(sizeof(int) * (n + 1));
    for (int i = 0; i <= n; i++) { perm_c[i] = pv1[i] = pv2[i] = -7; etree[i] = -7; }
    int relax = rng_int(r, 1, 6);
    int fact_same = rng_chance(r, 0.06);   /* Fact != DOFACT: only the view is formed */

    out_begin_marker(c->family, idx);
    out_case(c->out, c->family, idx);
    out_p(c->out, "ty", "d");
    out_p(c->out, "pat", "%s", g.pat); out_p(c->out, "method", "%s", meth_name(meth));
    out_p(c->out, "sym", "%d", sym); out_p(c->out, "shuffled", "%d", shuffled);
    out_p(c->out, "fact", "%s", fact_same ? "SamePattern" : "DOFACT");
    out_p(c->out, "relax", "%d", relax); out_p(c->out, "large", "%d", large);
    out_p(c->out, "idxbytes", "%d", (int)sizeof(int_t));
    { int_t dims[2] = { m, n }; out_intts(c->out, "A.dims", 2, dims); }
    out_intts(c->out, "A.colptr", n + 1, g.colptr); out_intts(c->out, "A.rowind", nnz, g.rowind);

    /* ---- ordering ---- (fresh library blocks hold -1 / 0xA5.. / whatever malloc returns, by index:
     * a work-array slot that is read before it is written then shows for the value that matters, EMPTY) */
    led_poison(idx % 3 == 0 ? 0xFF : idx % 3 == 1 ? 0xA5 : -1);
    if (meth == MY_PERMC) { rng_perm(r, n, perm_c); memcpy(pv1, perm_c, sizeof(int) * n); memcpy(pv2, perm_c, sizeof(int) * n); }
    else { get_perm_c(meth, &A, perm_c); get_perm_c(meth, &A1, pv1); get_perm_c(meth, &A2, pv2); }
    out_ints(c->out, "permc0", n, perm_c); out_ints(c->out, "permc0.v1", n, pv1); out_ints(c->out, "permc0.v2", n, pv2);
    /* perm_c must be a permutation before it is handed to sp_preorder (else the library indexes out of
     * range); when it is not, the driver reports it from permc0 and the rest is skipped */
    int okperm = 1; { char *seen = calloc(n + 1, 1); for (int i = 0; i < n; i++) { if (perm_c[i] < 0 || perm_c[i] >= n || seen[perm_c[i]]) okperm = 0; else seen[perm_c[i]] = 1; } free(seen); }
    out_p(c->out, "okperm", "%d", okperm);
    if (okperm) {
        superlu_options_t options; set_default_options(&options);
        options.ColPerm = meth; options.SymmetricMode = sym ? YES : NO; options.Fact = fact_same ? SamePattern : DOFACT;
        SuperMatrix AC;
        if (fact_same) for (int i = 0; i < n; i++) etree[i] = 1000 + i;
        sp_preorder(&options, &A, perm_c, etree, &AC);
        NCPformat *acs = AC.Store;
        out_ints(c->out, "permc1", n, perm_c); out_ints(c->out, "etree", n, etree);
        out_intts(c->out, "colbeg", n, acs->colbeg); out_intts(c->out, "colend", n, acs->colend);
        { int_t d[4] = { AC.nrow, AC.ncol, acs->nnz, (AC.Stype == SLU_NCP) + 2 * (acs->rowind == ri[0]) + 4 * (acs->nzval == (void *)v0) }; out_intts(c->out, "AC.hdr", 4, d); }
        out_p(c->out, "Achanged", "%d", (memcmp(cp[0], g.colptr, sizeof(int_t) * (n + 1)) != 0) || (memcmp(ri[0], g.rowind, sizeof(int_t) * nnz) != 0));
        Destroy_CompCol_Permuted(&AC);
        /* relaxed supernodes on the returned tree (descendants sized n+1: see the report, the search
         * loop of relax_snode reads descendants[n]) */
        if (!fact_same) {
            int *desc = HMALLOC(sizeof(int) * (n + 2)), *rend = HMALLOC(sizeof(int) * (n + 1));
            for (int i = 0; i <= n; i++) { desc[i] = 1; rend[i] = -9; } desc[n + 1] = 1;
            if (sym) heap_relax_snode(n, etree, relax, desc, rend); else relax_snode(n, etree, relax, desc, rend);
            out_ints(c->out, "relax.desc", n, desc); out_ints(c->out, "relax.end", n, rend);
            out_ints(c->out, "relax.etree", n, etree);   /* heap_relax_snode must restore it */
            HFREE(desc); HFREE(rend);
        }
    }

    /* ---- building blocks, called directly on A ---- */
    {
        int_t atanz = -1, *acp = NULL, *ari = NULL;
        getata(m, n, nnz, g.colptr, g.rowind, &atanz, &acp, &ari);
        out_intts(c->out, "ata.nz", 1, &atanz); out_intts(c->out, "ata.colptr", n + 1, acp);
        out_intts(c->out, "ata.rowind", atanz > 0 ? atanz : 0, ari);
        HFREE(acp); if (atanz) HFREE(ari);
    }
    if (m == n) {
        int_t bnz = -1, *bcp = NULL, *bri = NULL;
        at_plus_a(n, nnz, g.colptr, g.rowind, &bnz, &bcp, &bri);
        out_intts(c->out, "apa.nz", 1, &bnz); out_intts(c->out, "apa.colptr", n + 1, bcp);
        out_intts(c->out, "apa.rowind", bnz > 0 ? bnz : 0, bri);
        /* symmetric elimination tree of A'+A (int arguments whatever the index width) */
        int *icp = HMALLOC(sizeof(int) * (n + 2)), *iri = HMALLOC(sizeof(int) * (bnz + 1)), *spar = HMALLOC(sizeof(int) * (n + 1));
        for (int j = 0; j <= n; j++) icp[j] = (int)bcp[j];
        for (long k = 0; k < bnz; k++) iri[k] = (int)bri[k];
        sp_symetree(icp, icp + 1, iri, n, spar);
        out_ints(c->out, "sym.parent", n, spar);
        HFREE(icp); HFREE(iri); HFREE(spar);
        HFREE(bcp); if (bnz) HFREE(bri);
    }
    {
        int *par = HMALLOC(sizeof(int) * (n + 1));
        for (int i = 0; i <= n; i++) par[i] = -7;
        sp_coletree(g.colptr, g.colptr + 1, g.rowind, m, n, par);
        out_ints(c->out, "ct.parent", n, par);
        int *post = TreePostorder(n, par);
        out_ints(c->out, "ct.post", n + 1, post);
        HFREE(post); HFREE(par);
    }
    out_end(c->out);
    led_poison(-1);

    Destroy_CompCol_Matrix(&A); Destroy_CompCol_Matrix(&A1); Destroy_CompCol_Matrix(&A2);
    HFREE(perm_c); HFREE(pv1); HFREE(pv2); HFREE(etree); gmat_free(&g);
}

void fam_order(ctx_t *c) {
    for (long i = c->start; i < c->start + c->count; i++) { rng_t r; case_rng(c, i, &r); order_case(c, i, &r); }
}
