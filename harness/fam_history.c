// FAMILY(history, "C06 call histories of [sdcz]gssvx over one sparsity pattern: DOFACT / SamePattern / SamePattern_SameRowPerm / FACTORED with value changes, all Trans, malloc and workspace modes, pivot events per step")
#include "putil.h"
#include "events.h"

/* ---- type-independent part: the matrices of one history ---------------------------------------- */
/* One history = one pattern (CSC of the matrix AA that is factored) and one value set per factoring
 * step.  Two generator classes:
 *   dyadic : AA_k = D_k * P_k^T * L0_k * U0_k * Q with unit-lower L0 (entries 0, +-1/2, +-1/4), U0 with a
 *            +-2^e diagonal and small-integer off-diagonals, D_k = diag(2^d): under true partial pivoting
 *            the elimination stays in small dyadic numbers with power-of-two pivots (rounding-free);
 *            the stored pattern is the union over the steps (explicit zeros);
 *   generic: random pattern with a transversal, random values in [-1,1].
 * Value changes between factoring steps: same | perturb | unrelated | rowscale (rows times 2^+-20). */
typedef struct {
    int n, nsteps, dyadic;
    long nnz;
    int_t *colptr, *rowind;
    double **re, **im;        /* [nsteps][nnz]; steps that do not factor share the pointer of the previous one */
    int *kind;                /* value-change kind per step: 0 same 1 perturb 2 unrelated 3 rowscale, -1 no new matrix */
} hist_t;
enum { HK_SAME = 0, HK_PERTURB, HK_UNRELATED, HK_ROWSCALE };
static const char *hk_name[] = { "same", "perturb", "unrelated", "rowscale" };

static int hist_pick_kind(rng_t *r) {
    double x = rng_unit(r);
    return x < 0.08 ? HK_SAME : x < 0.30 ? HK_PERTURB : x < 0.60 ? HK_UNRELATED : HK_ROWSCALE;
}

static void hist_free(hist_t *h) {
    for (int k = 0; k < h->nsteps; k++) if (h->kind[k] >= 0) { free(h->re[k]); free(h->im[k]); }
    free(h->re); free(h->im); free(h->kind); free(h->colptr); free(h->rowind); memset(h, 0, sizeof *h);
}

/* needs[k] = 1 when step k factors (needs its own values) */
/* grow = 1: "arrow" pattern with a dense first row and column (natural column order).  Row 0 is tiny and
 * entry (n-1,0) dominates column 0 until a rowscale step makes row 0 dominant: the first pivot then moves
 * from the sparse last row (almost no fill) to the dense row 0 (complete fill), the remembered pivots are
 * abandoned and the re-adopted L/U storage has to grow while it is being reused. */
static void hist_gen_generic(rng_t *r, int n, int nsteps, const int *needs, int cplx, int grow, int emax, hist_t *h) {
    gmat_t g; memset(&g, 0, sizeof g);
    if (!grow) gmat_gen(r, n, n, PAT_ANY, VAL_GENERIC, 1, cplx, &g);
    else {
        char *mk = calloc((size_t)n * n + 1, 1); long nz = 0;
        for (int i = 0; i < n; i++) { mk[i + i * n] = 1; mk[0 + i * n] = 1; mk[i + 0 * n] = 1; }
        for (int j = 0; j < n; j++) for (int i = 0; i < n; i++) if (rng_chance(r, 0.06)) mk[i + j * n] = 1;
        for (size_t q = 0; q < (size_t)n * n; q++) nz += mk[q];
        g.m = g.n = n; g.nnz = nz; g.pat = "arrow0"; g.val = "generic";
        g.colptr = HMALLOC(sizeof(int_t) * (n + 1)); g.rowind = HMALLOC(sizeof(int_t) * (nz + 1)); g.re = HMALLOC(sizeof(double) * (nz + 1)); g.im = HMALLOC(sizeof(double) * (nz + 1));
        long q = 0; for (int j = 0; j < n; j++) { g.colptr[j] = q; for (int i = 0; i < n; i++) if (mk[i + j * n]) { g.rowind[q] = i; int sh = i == 0 ? -12 : (i == n - 1 && j == 0) ? 6 : 0; g.re[q] = ldexp(gen_value(r, VAL_GENERIC), sh); g.im[q] = cplx ? ldexp(gen_value(r, VAL_GENERIC), sh) : 0.0; q++; } }
        g.colptr[n] = q; free(mk);
    }
    h->n = n; h->nsteps = nsteps; h->dyadic = 0; h->nnz = g.nnz;
    h->colptr = malloc(sizeof(int_t) * (n + 1)); h->rowind = malloc(sizeof(int_t) * (g.nnz + 1));
    memcpy(h->colptr, g.colptr, sizeof(int_t) * (n + 1)); memcpy(h->rowind, g.rowind, sizeof(int_t) * g.nnz);
    h->re = calloc(nsteps, sizeof(double *)); h->im = calloc(nsteps, sizeof(double *)); h->kind = calloc(nsteps, sizeof(int));
    int boost = rng_chance(r, 0.3);   /* a heavier diagonal now and then (well conditioned) */
    int *cum = calloc(n + 1, sizeof(int));   /* cumulative row exponents, kept inside +-emax (no overflow / underflow of multipliers) */
    if (grow) cum[0] = -12;
    for (int k = 0; k < nsteps; k++) {
        if (!needs[k]) { h->kind[k] = -1; h->re[k] = h->re[k - 1]; h->im[k] = h->im[k - 1]; continue; }
        h->re[k] = malloc(sizeof(double) * (g.nnz + 1)); h->im[k] = malloc(sizeof(double) * (g.nnz + 1));
        int kind = k == 0 ? HK_UNRELATED : hist_pick_kind(r);
        if (grow && k > 0) { double x = rng_unit(r); kind = x < 0.5 ? HK_ROWSCALE : x < 0.85 ? HK_UNRELATED : HK_PERTURB; }
        h->kind[k] = kind;
        if (k == 0) { memcpy(h->re[0], g.re, sizeof(double) * g.nnz); memcpy(h->im[0], g.im, sizeof(double) * g.nnz); }
        else if (kind == HK_SAME) { memcpy(h->re[k], h->re[k - 1], sizeof(double) * g.nnz); memcpy(h->im[k], h->im[k - 1], sizeof(double) * g.nnz); }
        else if (kind == HK_PERTURB) {
            for (long q = 0; q < g.nnz; q++) { h->re[k][q] = h->re[k - 1][q] * (1.0 + 1e-3 * (2 * rng_unit(r) - 1)); h->im[k][q] = h->im[k - 1][q] * (1.0 + 1e-3 * (2 * rng_unit(r) - 1)); }
        } else if (kind == HK_UNRELATED) {
            for (long q = 0; q < g.nnz; q++) { int sh = !grow ? 0 : h->rowind[q] == 0 ? -12 : (h->rowind[q] == n - 1 && q < h->colptr[1]) ? 6 : 0; h->re[k][q] = ldexp(gen_value(r, VAL_GENERIC), sh); h->im[k][q] = cplx ? ldexp(gen_value(r, VAL_GENERIC), sh) : 0.0; }
            for (int i = 0; i < n; i++) cum[i] = 0; if (grow) cum[0] = -12;
        } else {
            int *e = calloc(n + 1, sizeof(int)); int any = 0;
            for (int i = 0; i < n; i++) if (rng_chance(r, 0.4)) { e[i] = rng_chance(r, 0.5) ? 20 : -20; any = 1; }
            if (!any) e[rng_int(r, 0, n - 1)] = rng_chance(r, 0.5) ? 20 : -20;
            if (grow && rng_chance(r, 0.8)) { e[0] = 32; for (int i = 1; i < n; i++) if (e[i] > 0) e[i] = -e[i]; }   /* row 0 becomes the dominant row */
            for (int i = 0; i < n; i++) { int t = cum[i] + e[i]; if (t > emax) t = emax; if (t < -emax) t = -emax; e[i] = t - cum[i]; cum[i] = t; }
            for (long q = 0; q < g.nnz; q++) { h->re[k][q] = ldexp(h->re[k - 1][q], e[h->rowind[q]]); h->im[k][q] = ldexp(h->im[k - 1][q], e[h->rowind[q]]); }
            free(e);
        }
        if (boost && (k == 0 || kind == HK_UNRELATED))
            for (int j = 0; j < n; j++) for (int_t q = h->colptr[j]; q < h->colptr[j + 1]; q++) if (h->rowind[q] == j) h->re[k][q] += (h->re[k][q] < 0 ? -1.0 : 1.0) * n;
    }
    gmat_free(&g); free(cum);
}

static void hist_gen_dyadic(rng_t *r, int n, int nsteps, const int *needs, int cplx, int natural_q, int emax, hist_t *h) {
    size_t nn = (size_t)n * n;
    char *Lp = calloc(nn + 1, 1), *Up = calloc(nn + 1, 1);           /* patterns of L0 (strict lower) and U0 (strict upper) */
    double *L0 = calloc(nn + 1, sizeof(double)), *U0 = calloc(nn + 1, sizeof(double));
    int *pr = malloc(sizeof(int) * (n + 1)), *pc = malloc(sizeof(int) * (n + 1)), *d = calloc(n + 1, sizeof(int));
    int *rowi = calloc(n + 1, sizeof(int)), *coli = calloc(n + 1, sizeof(int));   /* complex unit factors i^rowi, i^coli */
    double dens = 0.15 + 0.5 * rng_unit(r);
    static const double lv[] = { 0.5, -0.5, 0.25, -0.25 };
    for (int j = 0; j < n; j++) { for (int i = j + 1; i < n; i++) if (rng_chance(r, dens)) Lp[i + j * n] = 1; for (int i = 0; i < j; i++) if (rng_chance(r, dens)) Up[i + j * n] = 1; }
    rng_perm(r, n, pr); rng_perm(r, n, pc);
    if (rng_chance(r, 0.3)) for (int i = 0; i < n; i++) pr[i] = i;
    if (natural_q || rng_chance(r, 0.3)) for (int i = 0; i < n; i++) pc[i] = i;
    if (cplx) for (int i = 0; i < n; i++) { rowi[i] = rng_chance(r, 0.3); coli[i] = rng_chance(r, 0.3); }
    double **Mre = calloc(nsteps, sizeof(double *)), **Mim = calloc(nsteps, sizeof(double *));
    char *S = calloc(nn + 1, 1);
    h->kind = calloc(nsteps, sizeof(int));
    for (int k = 0; k < nsteps; k++) {
        if (!needs[k]) { h->kind[k] = -1; continue; }
        int kind = k == 0 ? HK_UNRELATED : hist_pick_kind(r);
        h->kind[k] = kind;
        if (kind == HK_UNRELATED) {
            if (k > 0) { int t = rng_int(r, 1, 3); for (int q = 0; q < t && n >= 2; q++) { int a = rng_int(r, 0, n - 1), b = rng_int(r, 0, n - 1); int tmp = pr[a]; pr[a] = pr[b]; pr[b] = tmp; } }
            for (int j = 0; j < n; j++) { for (int i = 0; i < n; i++) { L0[i + j * n] = 0; U0[i + j * n] = 0; }
                L0[j + j * n] = 1; for (int i = j + 1; i < n; i++) if (Lp[i + j * n]) L0[i + j * n] = lv[rng_int(r, 0, 3)];
                U0[j + j * n] = ldexp(rng_chance(r, 0.5) ? 1 : -1, rng_int(r, -2, 3)); for (int i = 0; i < j; i++) if (Up[i + j * n]) U0[i + j * n] = (double)rng_int(r, -3, 3); }
            for (int i = 0; i < n; i++) d[i] = 0;
        } else if (kind == HK_PERTURB) {
            for (int j = 0; j < n; j++) for (int i = 0; i < j; i++) if (Up[i + j * n] && rng_chance(r, 0.5)) U0[i + j * n] = (double)rng_int(r, -3, 3);
        } else if (kind == HK_ROWSCALE) {
            int any = 0;
            for (int i = 0; i < n; i++) if (rng_chance(r, 0.4)) { d[i] += rng_chance(r, 0.5) ? 20 : -20; any = 1; }
            if (!any) d[rng_int(r, 0, n - 1)] += rng_chance(r, 0.5) ? 20 : -20;
            for (int i = 0; i < n; i++) { if (d[i] > emax) d[i] = emax; if (d[i] < -emax) d[i] = -emax; }
        }
        double *M = calloc(nn + 1, sizeof(double)), *Mi = calloc(nn + 1, sizeof(double));
        int *inv = malloc(sizeof(int) * (n + 1)); for (int i = 0; i < n; i++) inv[pr[i]] = i;
        for (int j = 0; j < n; j++) for (int i = 0; i < n; i++) {
            /* entry (i, j) of P^T L0 U0 Q, scaled by 2^d[i] and by the complex units */
            double s = 0; int ii = inv[i], jj = pc[j];
            for (int t = 0; t < n; t++) s += L0[ii + t * n] * U0[t + jj * n];
            int structural = 0; for (int t = 0; t < n && !structural; t++) structural = ((t == ii) || (ii > t && Lp[ii + t * n])) && ((t == jj) || (t < jj && Up[t + jj * n]));
            if (structural) S[i + j * n] = 1;
            s = ldexp(s, d[i]);
            int pw = (rowi[i] + coli[j]) & 3;     /* i^pw */
            double re = pw == 0 ? s : pw == 2 ? -s : 0.0, im = pw == 1 ? s : pw == 3 ? -s : 0.0;
            M[i + j * n] = re; Mi[i + j * n] = im;
        }
        free(inv);
        Mre[k] = M; Mim[k] = Mi;
    }
    long nnz = 0; for (size_t q = 0; q < nn; q++) nnz += S[q];
    h->n = n; h->nsteps = nsteps; h->dyadic = 1; h->nnz = nnz;
    h->colptr = malloc(sizeof(int_t) * (n + 1)); h->rowind = malloc(sizeof(int_t) * (nnz + 1));
    h->re = calloc(nsteps, sizeof(double *)); h->im = calloc(nsteps, sizeof(double *));
    long q = 0; for (int j = 0; j < n; j++) { h->colptr[j] = q; for (int i = 0; i < n; i++) if (S[i + j * n]) h->rowind[q++] = i; } h->colptr[n] = q;
    for (int k = 0; k < nsteps; k++) {
        if (h->kind[k] < 0) { h->re[k] = h->re[k - 1]; h->im[k] = h->im[k - 1]; continue; }
        h->re[k] = malloc(sizeof(double) * (nnz + 1)); h->im[k] = malloc(sizeof(double) * (nnz + 1));
        q = 0; for (int j = 0; j < n; j++) for (int i = 0; i < n; i++) if (S[i + j * n]) { h->re[k][q] = Mre[k][i + j * n]; h->im[k][q] = Mim[k][i + j * n]; q++; }
        free(Mre[k]); free(Mim[k]);
    }
    free(Mre); free(Mim); free(S); free(Lp); free(Up); free(L0); free(U0); free(pr); free(pc); free(d); free(rowi); free(coli);
}

/* byte serializer used for the before/after snapshots of FACTORED steps */
typedef struct { unsigned char *p; size_t n, cap; } hbuf_t;
static void hb_put(hbuf_t *b, const void *src, size_t len) {
    if (b->n + len + 1 > b->cap) { b->cap = 2 * (b->n + len) + 256; b->p = realloc(b->p, b->cap); }
    if (len) memcpy(b->p + b->n, src, len);
    b->n += len;
}
static uint64_t hb_hash(const hbuf_t *b) { uint64_t h = 1469598103934665603ULL; for (size_t i = 0; i < b->n; i++) { h ^= b->p[i]; h *= 1099511628211ULL; } return h; }

/* ---- allocator state of a factoring call (C07 / C08: SamePattern_SameRowPerm re-adopts the storage) --------
 * Sampled from the harness side of hook H2, as families storage / workspace do (storage_util.h): on entry of
 * the call ("in": what the previous factorization left in Glu), at the first pivot call ("first": what
 * [sdcz]LUMemInit made of it; a refactorization cannot have grown an array before its first pivot, because the
 * first column / relaxed supernode has the structure it had in the previous factorization), and after the
 * call returned ("out").  One record = HM_W longs:
 *   0 MemModel == USER   1 Glu->n   2 stack.used  3 stack.top1  4 stack.top2  5 stack.size
 *   6..9  lusup, ucol, lsub, usub: byte offset from stack.array (USER) / 1 when the pointer is the one seen on
 *         entry of this call, else 0 (SYSTEM; addresses themselves are not emitted: they differ from run to run)
 *   10 nzlumax  11 nzumax  12 nzlmax  13 num_expansions
 *   14..17 expanders[LUSUP, UCOL, LSUB, USUB].size (-1 once Glu->expanders has been released)
 *   18 address of stack.array modulo 8 (USER)   19 end of the five pointer arrays = (char*)(xusub + n + 1) - stack.array (USER) */
#define HM_W 20
typedef void (*hm_hook_t)(int, int, int, double, int, int, int, int, const int_t *, const void *, int);
extern void (*slu_verif_pivot_hook)(int phase, int dtype, int jcol, double u, int usepr, int pivrow, int diagind,
                                    int ncand, const int_t *rows, const void *vals, int info);
static const GlobalLU_t *hm_glu; static const void *hm_in_ptr[4]; static long hm_first[HM_W]; static int hm_have_first; static hm_hook_t hm_inner;
static void hm_sample(const GlobalLU_t *G, long *t) {
    const void *p[4] = { G->lusup, G->ucol, G->lsub, G->usub };
    int user = (G->MemModel == USER);
    const char *base = user ? (const char *)G->stack.array : NULL;
    memset(t, 0, sizeof(long) * HM_W);
    t[0] = user; t[1] = G->n;
    if (user) { t[2] = (long)G->stack.used; t[3] = (long)G->stack.top1; t[4] = (long)G->stack.top2; t[5] = (long)G->stack.size; }
    for (int i = 0; i < 4; i++) t[6 + i] = user ? (base && p[i] ? (long)((const char *)p[i] - base) : -1) : (p[i] != NULL && p[i] == hm_in_ptr[i]);
    t[10] = (long)G->nzlumax; t[11] = (long)G->nzumax; t[12] = (long)G->nzlmax; t[13] = G->num_expansions;
    for (int i = 0; i < 4; i++) t[14 + i] = G->expanders ? (long)G->expanders[i].size : -1;    /* MemType order: LUSUP, UCOL, LSUB, USUB */
    t[18] = user ? (long)((uintptr_t)base & 7) : 0;
    t[19] = (user && base && G->xusub) ? (long)((const char *)(G->xusub + (G->n + 1)) - base) : -1;
}
static void hm_hook(int phase, int dtype, int jcol, double u, int usepr, int pivrow, int diagind, int ncand,
                    const int_t *rows, const void *vals, int info) {
    if (phase == 0 && hm_glu && !hm_have_first) { hm_sample(hm_glu, hm_first); hm_have_first = 1; }
    if (hm_inner) hm_inner(phase, dtype, jcol, u, usepr, pivrow, diagind, ncand, rows, vals, info);
}
/* call after ev_start(): the event recorder stays in place behind the sampler */
static void hm_start(const GlobalLU_t *G, long *in) {
    hm_in_ptr[0] = G->lusup; hm_in_ptr[1] = G->ucol; hm_in_ptr[2] = G->lsub; hm_in_ptr[3] = G->usub;
    hm_sample(G, in);
    hm_glu = G; hm_have_first = 0; hm_inner = slu_verif_pivot_hook; slu_verif_pivot_hook = hm_hook;
}
static void hm_stop(void) { hm_glu = NULL; hm_inner = NULL; }
static void hm_emit(FILE *f, const char *name, const long *t) {
    fprintf(f, "i %s %d", name, HM_W); for (int i = 0; i < HM_W; i++) fprintf(f, " %ld", t[i]); fputc('\n', f);
}

#define FAMILY_INC "fam_history.inc"
#include "all_prec.h"
void fam_history(ctx_t *c) {
    for (long i = c->start; i < c->start + c->count; i++) {
        rng_t r; case_rng(c, i, &r); char ty = pick_ty(c, i);
        DISPATCH_TY(ty, history_case, c, i, &r);
    }
}
