// FAMILY(myblas, "C01 [sdcz]lsolve / usolve / matvec / snode_bmod (the library's own dense kernels) called directly, every unrolling residue, exact-size buffers")
#include "putil.h"
#define FAMILY_INC "fam_myblas.inc"
#include "all_prec.h"
void fam_myblas(ctx_t *c) {
    for (long i = c->start; i < c->start + c->count; i++) {
        rng_t r; case_rng(c, i, &r); char ty = pick_ty(c, i);
        DISPATCH_TY(ty, myblas_case, c, i, &r);
    }
}
