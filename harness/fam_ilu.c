// FAMILY(ilu, "C15 gsisx over drop rules x tolerances x fill x norm x MILU x RowPerm x Trans x orderings")
#include "putil.h"
#include "gk_util.h"
#include "ilu_events.h"
#define FAMILY_INC "fam_ilu.inc"
#include "all_prec.h"
void fam_ilu(ctx_t *c) {
    for (long i = c->start; i < c->start + c->count; i++) {
        rng_t r; case_rng(c, i, &r); char ty = pick_ty(c, i);
        DISPATCH_TY(ty, ilu_case, c, i, &r);
    }
}
