// FAMILY(refine, "C13 BERR/FERR/RefineSteps of [sdcz]gsrfs, called directly and through gssvx")
#include "condref_util.h"
#define FAMILY_INC "fam_refine.inc"
#include "all_prec.h"
void fam_refine(ctx_t *c) {
    for (long i = c->start; i < c->start + c->count; i++) {
        rng_t r; case_rng(c, i, &r); char ty = pick_ty(c, i);
        DISPATCH_TY(ty, refine_case, c, i, &r);
    }
}
