// FAMILY(cond, "C12 rcond / pivot growth through [sdcz]gssvx, gscon, langs, PivotGrowth")
#include "condref_util.h"
#define FAMILY_INC "fam_cond.inc"
#include "all_prec.h"
void fam_cond(ctx_t *c) {
    for (long i = c->start; i < c->start + c->count; i++) {
        rng_t r; case_rng(c, i, &r); char ty = pick_ty(c, i);
        DISPATCH_TY(ty, cond_case, c, i, &r);
    }
}
