/* Pivot-event recorder for hook H2 (see /repo/SRC/[sdcz]pivotL.c under SLU_VERIF). */
#ifndef SLU_VERIF_EVENTS_H
#define SLU_VERIF_EVENTS_H
#include "common.h"
typedef struct {
    int jcol, dtype, usepr_in, oldrow, diagind, ncand, pivrow, usepr_out, info, have_exit;
    double u;
    long off;      /* offset of this event's candidates in the rows/vals pools */
} pivev_t;
typedef struct {
    int n, cap;
    pivev_t *ev;
    long npool, poolcap;      /* in candidates */
    int_t *rows0, *rows1;
    char *vals0, *vals1;      /* ncand * elsize bytes each */
    int elsize;
    int overflow;
} evlog_t;
extern void (*slu_verif_pivot_hook)(int phase, int dtype, int jcol, double u, int usepr, int pivrow,
                                    int diagind, int ncand, const int_t *rows, const void *vals, int info);
void ev_start(evlog_t *lg, int elsize);   /* installs the hook, (re)initialises the log (thread-unsafe: one log at a time) */
void ev_stop(void);
void ev_free(evlog_t *lg);
/* emit: i <pfx>.hdr (9 ints per event: jcol usepr_in oldrow diagind ncand pivrow usepr_out info have_exit),
 *       f <pfx>.u (one double per event), i <pfx>.rows0, i <pfx>.rows1, f|g <pfx>.vals0, <pfx>.vals1 */
void ev_emit(FILE *f, const evlog_t *lg, const char *pfx, int is_double, int is_complex);
#endif
