/* Helpers shared by the C14/C15 families (fam_kernels, fam_ilu): capture of what the library
 * prints on stdout (input_error() uses printf, i.e. the protocol stream), byte snapshots of the
 * objects a call must not modify. */
#ifndef SLU_VERIF_GK_UTIL_H
#define SLU_VERIF_GK_UTIL_H
#include "putil.h"
#include <unistd.h>

/* ---- stdout capture around a library call ---- */
static int gk_cap_fd = -1, gk_cap_saved = -1;
static void gk_cap_begin(void) {
    fflush(stdout);
    if (gk_cap_fd < 0) { FILE *t = tmpfile(); if (!t) return; gk_cap_fd = dup(fileno(t)); fclose(t); }
    if (gk_cap_fd < 0) return;
    if (ftruncate(gk_cap_fd, 0) != 0) return;
    lseek(gk_cap_fd, 0, SEEK_SET);
    gk_cap_saved = dup(1); dup2(gk_cap_fd, 1);
}
/* ends the capture; text (newlines replaced by '|', at most cap-1 bytes) goes to buf */
static void gk_cap_end(char *buf, size_t cap) {
    buf[0] = 0;
    if (gk_cap_saved < 0) return;
    fflush(stdout);
    dup2(gk_cap_saved, 1); close(gk_cap_saved); gk_cap_saved = -1;
    lseek(gk_cap_fd, 0, SEEK_SET);
    ssize_t k = read(gk_cap_fd, buf, cap - 1); if (k < 0) k = 0; buf[k] = 0;
    for (ssize_t i = 0; i < k; i++) if (buf[i] == '\n' || buf[i] == '\r') buf[i] = '|';
}
/* append to an accumulated library-output buffer */
static void gk_cap_end_append(char *acc, size_t cap) {
    char tmp[512]; gk_cap_end(tmp, sizeof tmp);
    size_t l = strlen(acc); if (l + 1 < cap) strncat(acc, tmp, cap - l - 1);
}

/* ---- byte snapshots ---- */
#define GK_SNAP_MAX 40
typedef struct { int nr; const void *p[GK_SNAP_MAX]; size_t sz[GK_SNAP_MAX]; const char *nm[GK_SNAP_MAX]; unsigned char *copy[GK_SNAP_MAX]; } gk_snap_t;
static void gk_snap_init(gk_snap_t *s) { s->nr = 0; }
static void gk_snap_add(gk_snap_t *s, const char *nm, const void *p, size_t sz) {
    if (s->nr >= GK_SNAP_MAX) return;
    int k = s->nr++; s->p[k] = p; s->sz[k] = sz; s->nm[k] = nm; s->copy[k] = malloc(sz + 1);
    if (sz) memcpy(s->copy[k], p, sz);
}
/* name of the first region whose bytes changed, or "none" */
static const char *gk_snap_changed(const gk_snap_t *s) {
    for (int k = 0; k < s->nr; k++) if (s->sz[k] && memcmp(s->copy[k], s->p[k], s->sz[k])) return s->nm[k];
    return "none";
}
static void gk_snap_free(gk_snap_t *s) { for (int k = 0; k < s->nr; k++) free(s->copy[k]); s->nr = 0; }
static void gk_snap_sc(gk_snap_t *s, const SuperMatrix *L, size_t scal) {
    const SCformat *Ls = L->Store; int n = L->ncol;
    gk_snap_add(s, "L.header", L, sizeof *L); gk_snap_add(s, "L.store", Ls, sizeof *Ls);
    if (n <= 0) return;
    gk_snap_add(s, "L.xsup", Ls->sup_to_col, sizeof(int) * (Ls->nsuper + 2));
    gk_snap_add(s, "L.supno", Ls->col_to_sup, sizeof(int) * n);
    gk_snap_add(s, "L.xlsub", Ls->rowind_colptr, sizeof(int_t) * (n + 1));
    gk_snap_add(s, "L.lsub", Ls->rowind, sizeof(int_t) * Ls->rowind_colptr[n]);
    gk_snap_add(s, "L.xlusup", Ls->nzval_colptr, sizeof(int_t) * (n + 1));
    gk_snap_add(s, "L.lusup", Ls->nzval, scal * Ls->nzval_colptr[n]);
}
static void gk_snap_nc(gk_snap_t *s, const SuperMatrix *A, size_t scal, int isU) {
    const NCformat *As = A->Store; int n = A->ncol;
    gk_snap_add(s, isU ? "U.header" : "A.header", A, sizeof *A); gk_snap_add(s, isU ? "U.store" : "A.store", As, sizeof *As);
    gk_snap_add(s, isU ? "U.colptr" : "A.colptr", As->colptr, sizeof(int_t) * (n + 1));
    gk_snap_add(s, isU ? "U.rowind" : "A.rowind", As->rowind, sizeof(int_t) * As->colptr[n]);
    gk_snap_add(s, isU ? "U.val" : "A.val", As->nzval, scal * As->colptr[n]);
}
#endif
