// FAMILY(coldfs, "C02 [sdcz]column_dfs called directly on synthetic factorization states: every array it reads/writes vs the array-level model Slu.ColDfs.columnDfs")
#include "putil.h"
#define FAMILY_INC "fam_coldfs.inc"
#include "all_prec.h"
void fam_coldfs(ctx_t *c) {
    for (long i = c->start; i < c->start + c->count; i++) {
        rng_t r; case_rng(c, i, &r); char ty = pick_ty(c, i);
        DISPATCH_TY(ty, coldfs_case, c, i, &r);
    }
}
