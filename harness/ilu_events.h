/* ILU pivot-event recorder for hook H2 of ilu_[sdcz]pivotL.c (see /repo/SRC/ilu_dpivotL.c under SLU_VERIF).
 *
 * phase 0 (entry of the routine, nothing changed yet) copies: the candidate rows / values of the current
 * column (positions nsupc.. of the supernode), for every candidate the flag `marker[row] <= jcol` (the
 * row does not belong to a later relaxed supernode), the free row the zero-pivot fallback would take
 * (first swap[icol], icol >= jcol, with marker[swap[icol]] <= jcol, or -1), milu, drop_sum, fill_tol, u,
 * the reuse flag and the remembered pivot row.
 * phase 1 (before every return) copies: the chosen pivot row, the updated reuse flag, the return value
 * and the candidate rows / values after the diagonal reset, the row interchange and the cdiv. */
#ifndef SLU_VERIF_ILU_EVENTS_H
#define SLU_VERIF_ILU_EVENTS_H
#include "common.h"
#define IEV_NHDR 16
typedef struct {
    int jcol, dtype, usepr_in, oldrow, diagind, milu, ncand, n, freerow, pivrow, usepr_out, info, have_exit;
    int clamped;   /* the routine reported a negative candidate count (open zero-pivot finding) */
    int badrow;    /* a candidate row / swap entry outside 0..n-1 was seen (its flag is recorded as 2) */
    double u, fill_tol;
    long off;      /* offset of this event's candidates in the pools */
} iluev_t;
typedef struct {
    int n, cap;
    iluev_t *ev;
    long npool, poolcap;      /* in candidates */
    int_t *rows0, *rows1;
    int *elig0;               /* 1 eligible, 0 not, 2 row out of range */
    char *vals0, *vals1;      /* ncand * elsize bytes each */
    char *ds;                 /* one element (elsize bytes) per event: drop_sum in the routine's type */
    int elsize;
    int overflow;
    int dropnzp, ncalls2;     /* phase 2 of the hook: pivots replaced inside ilu_?drop_row, number of such reports */
} iluevlog_t;
extern void (*slu_verif_ilu_pivot_hook)(int phase, int dtype, int jcol, double u, int usepr, int pivrow,
                                        int diagind, int milu, const void *drop_sum, double fill_tol, int ncand,
                                        const int_t *rows, const void *vals, const int *marker, const int *swap,
                                        int n, int info);
void iev_start(iluevlog_t *lg, int elsize);   /* installs the hook, (re)initialises the log (one log at a time) */
void iev_stop(void);
void iev_free(iluevlog_t *lg);
/* emit: i <pfx>.hdr (IEV_NHDR ints per event: jcol usepr_in oldrow diagind milu ncand n freerow pivrow
 *                    usepr_out info have_exit clamped badrow dtype 0),
 *       f <pfx>.u, f <pfx>.filltol (one double per event), f|g <pfx>.ds (drop_sum, routine's type),
 *       i <pfx>.rows0, <pfx>.rows1, <pfx>.elig0, f|g <pfx>.vals0, <pfx>.vals1 */
void iev_emit(FILE *f, const iluevlog_t *lg, const char *pfx, int is_double, int is_complex);
#endif
