// FAMILY(ldperm, "C17 [sdcz]ldperm job 5: max-product matching, log duals, index arrays restored")
#include "putil.h"
#include <unistd.h>
#include <fcntl.h>
/* ldperm (and mc64ad_) printf() on structurally singular input: keep the protocol stream clean */
static int ldp_quiet_begin(void) {
    fflush(stdout);
    int saved = dup(1), dn = open("/dev/null", O_WRONLY);
    if (saved < 0 || dn < 0) { perror("ldperm: redirect"); exit(3); }
    dup2(dn, 1); close(dn);
    return saved;
}
static void ldp_quiet_end(int saved) { fflush(stdout); dup2(saved, 1); close(saved); }
#define FAMILY_INC "fam_ldperm.inc"
#include "all_prec.h"
void fam_ldperm(ctx_t *c) {
    for (long i = c->start; i < c->start + c->count; i++) {
        rng_t r; case_rng(c, i, &r); char ty = pick_ty(c, i);
        DISPATCH_TY(ty, ldperm_case, c, i, &r);
    }
}
