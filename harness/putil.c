#include "putil.h"
#define FAMILY_INC "putil.inc"
#include "all_prec.h"
