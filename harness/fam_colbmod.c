// FAMILY(colbmod, "C01 [sdcz]column_bmod called directly on synthetic partial factorizations (segments of size 1, 2, 3, >=4, straddled panels, own-supernode update), exact-size buffers")
#include "putil.h"
#define FAMILY_INC "fam_colbmod.inc"
#include "all_prec.h"
void fam_colbmod(ctx_t *c) {
    for (long i = c->start; i < c->start + c->count; i++) {
        rng_t r; case_rng(c, i, &r); char ty = pick_ty(c, i);
        DISPATCH_TY(ty, colbmod_case, c, i, &r);
    }
}
