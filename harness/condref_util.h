/* Shared by fam_cond / fam_refine (C12, C13): system generators beyond gmat_gen (near-singular,
 * exactly singular, badly scaled) built on a dense scratch copy. Type independent. */
#ifndef SLU_VERIF_CONDREF_UTIL_H
#define SLU_VERIF_CONDREF_UTIL_H
#include "putil.h"
/* rebuild g (n x n) from dense column-major re/im with an explicit keep-mask */
static void cr_from_dense(gmat_t *g, int n, const double *re, const double *im, const char *keep) {
    const char *pat = g->pat, *val = g->val; gmat_free(g);
    long nnz = 0; for (long k = 0; k < (long)n * n; k++) nnz += keep[k] != 0;
    g->m = n; g->n = n; g->nnz = nnz; g->pat = pat; g->val = val;
    g->colptr = HMALLOC(sizeof(int_t) * (n + 1)); g->rowind = HMALLOC(sizeof(int_t) * (nnz + 1));
    g->re = HMALLOC(sizeof(double) * (nnz + 1)); g->im = HMALLOC(sizeof(double) * (nnz + 1));
    long k = 0;
    for (int j = 0; j < n; j++) { g->colptr[j] = k; for (int i = 0; i < n; i++) if (keep[i + (long)j * n]) { g->rowind[k] = i; g->re[k] = re[i + (long)j * n]; g->im[k] = im[i + (long)j * n]; k++; } }
    g->colptr[n] = k;
}
enum { CR_GENERIC = 0, CR_ILL, CR_SINGULAR, CR_SCALED, CR_GROWTH, CR_NUM };
static int cr_last_illk = 0;   /* CR_ILL: the matrix is 2^-k away from an exactly singular one */
static const char *cr_kind_name[] = { "generic", "ill", "singular", "scaled", "growth" };
/* kind: CR_*;  dbl: double precision exponent ranges */
static void cr_gen_system(rng_t *r, int n, int kind, int cplx, int dbl, gmat_t *g) {
    int val = kind == CR_SINGULAR ? (rng_chance(r, 0.5) ? VAL_SMALLINT : VAL_DYADIC)
            : kind == CR_ILL ? VAL_DYADIC
            : (int[]){ VAL_GENERIC, VAL_DIAGDOM, VAL_SMALLINT, VAL_DYADIC, VAL_GENERIC }[rng_int(r, 0, 4)];
    int pat = (kind == CR_ILL || kind == CR_GROWTH) ? (rng_chance(r, 0.5) ? PAT_DENSE : PAT_ANY) : PAT_ANY;
    cr_last_illk = 0;
    gmat_gen(r, n, n, pat, val, (kind == CR_SINGULAR && rng_chance(r, 0.3)) ? 0 : 1, cplx, g);
    if (kind == CR_GENERIC) return;
    double *re = calloc((size_t)n * n + 1, sizeof(double)), *im = calloc((size_t)n * n + 1, sizeof(double)); char *keep = calloc((size_t)n * n + 1, 1);
    for (int j = 0; j < n; j++) for (int_t k = g->colptr[j]; k < g->colptr[j + 1]; k++) { long q = g->rowind[k] + (long)j * n; re[q] = g->re[k]; im[q] = g->im[k]; keep[q] = 1; }
    if (kind == CR_ILL && n >= 2) {
        /* column q := 2^s * column p + 2^-k * e_i: distance 2^-k from a singular matrix */
        int p = rng_int(r, 0, n - 1), q = (p + 1 + rng_int(r, 0, n - 2)) % n, s = rng_int(r, -2, 2);
        int kk = dbl ? rng_int(r, 8, 75) : rng_int(r, 4, 36), i0 = rng_int(r, 0, n - 1); cr_last_illk = kk;
        /* the old column q stays in, scaled by 2^-k, so that a structural transversal survives */
        for (int i = 0; i < n; i++) { long a = i + (long)p * n, b = i + (long)q * n;
            re[b] = (keep[a] ? ldexp(re[a], s) : 0.0) + (keep[b] ? ldexp(re[b], -kk) : 0.0); im[b] = (keep[a] ? ldexp(im[a], s) : 0.0) + (keep[b] ? ldexp(im[b], -kk) : 0.0); keep[b] = keep[a] || keep[b]; }
        re[i0 + (long)q * n] += ldexp(1.0, -kk); keep[i0 + (long)q * n] = 1;
    } else if (kind == CR_ILL) { re[0] = ldexp(1.0, rng_int(r, -40, 40)); im[0] = 0; keep[0] = 1; }
    else if (kind == CR_SINGULAR) {
        int how = rng_int(r, 0, 3);
        if (how == 0 && n >= 2) { int p = rng_int(r, 0, n - 1), q = (p + 1 + rng_int(r, 0, n - 2)) % n, s = rng_int(r, -1, 1);
            for (int i = 0; i < n; i++) { long a = i + (long)p * n, b = i + (long)q * n; re[b] = ldexp(re[a], s); im[b] = ldexp(im[a], s); keep[b] = keep[a]; } }
        else if (how == 1) { int q = rng_int(r, 0, n - 1); int ex = rng_chance(r, 0.5); for (int i = 0; i < n; i++) { long b = i + (long)q * n; re[b] = im[b] = 0; if (!ex) keep[b] = 0; } }
        else if (how == 2) { int q = rng_int(r, 0, n - 1); int ex = rng_chance(r, 0.5); for (int j = 0; j < n; j++) { long b = q + (long)j * n; re[b] = im[b] = 0; if (!ex) keep[b] = 0; } }
        else if (n >= 2) { /* two equal rows */ int p = rng_int(r, 0, n - 1), q = (p + 1 + rng_int(r, 0, n - 2)) % n;
            for (int j = 0; j < n; j++) { long a = p + (long)j * n, b = q + (long)j * n; re[b] = re[a]; im[b] = im[a]; keep[b] = keep[a]; } }
    } else if (kind == CR_SCALED) {
        int span = dbl ? 40 : 18;
        for (int i = 0; i < n; i++) { int e = rng_chance(r, 0.5) ? rng_int(r, -span, span) : 0; for (int j = 0; j < n; j++) { re[i + (long)j * n] = ldexp(re[i + (long)j * n], e); im[i + (long)j * n] = ldexp(im[i + (long)j * n], e); } }
        for (int j = 0; j < n; j++) { int e = rng_chance(r, 0.5) ? rng_int(r, -span, span) : 0; for (int i = 0; i < n; i++) { re[i + (long)j * n] = ldexp(re[i + (long)j * n], e); im[i + (long)j * n] = ldexp(im[i + (long)j * n], e); } }
    } else if (kind == CR_GROWTH) {
        /* small diagonal, ones below (Wilkinson-like): pivot growth with small thresholds */
        for (int j = 0; j < n; j++) for (int i = 0; i < n; i++) { long b = i + (long)j * n;
            if (i == j) { re[b] = ldexp(1.0, -rng_int(r, 0, 6)); im[b] = 0; keep[b] = 1; }
            else if (i > j && rng_chance(r, 0.7)) { re[b] = -1; im[b] = 0; keep[b] = 1; }
            else if (j == n - 1) { re[b] = 1; im[b] = 0; keep[b] = 1; } }
    }
    cr_from_dense(g, n, re, im, keep);
    free(re); free(im); free(keep);
}

/* ---- exact singularity of the generated matrix --------------------------------------------------
 * Every double is a dyadic rational, and Z[1/2] -> F_p (p = 2^61 - 1, p = 3 mod 4 so that F_p[i] is a
 * field) is a ring homomorphism, so det(A) = 0 implies det(image) = 0.  A zero image determinant is
 * reported as "singular input" (wrong with probability ~ 1/p only); a non-zero one proves A
 * nonsingular.  Used to label the BEGIN marker: the library is known to misbehave after an exactly
 * zero pivot (open finding), and such crashes must be told apart from crashes on nonsingular input. */
typedef unsigned long long cr_u64; typedef unsigned __int128 cr_u128;
#define CR_P 2305843009213693951ULL
static cr_u64 cr_mul(cr_u64 a, cr_u64 b) { return (cr_u64)(((cr_u128)a * b) % CR_P); }
static cr_u64 cr_add(cr_u64 a, cr_u64 b) { cr_u64 c = a + b; return c >= CR_P ? c - CR_P : c; }
static cr_u64 cr_sub(cr_u64 a, cr_u64 b) { return a >= b ? a - b : a + CR_P - b; }
static cr_u64 cr_pow(cr_u64 a, cr_u64 e) { cr_u64 r = 1; while (e) { if (e & 1) r = cr_mul(r, a); a = cr_mul(a, a); e >>= 1; } return r; }
static cr_u64 cr_of_double(double v) {
    if (v == 0.0) return 0;
    int e; double f = frexp(fabs(v), &e); cr_u64 m = (cr_u64)ldexp(f, 53); e -= 53;
    cr_u64 r = cr_mul(m % CR_P, e >= 0 ? cr_pow(2, (cr_u64)e) : cr_pow((CR_P + 1) / 2, (cr_u64)(-e)));
    return v < 0 ? cr_sub(0, r) : r;
}
typedef struct { cr_u64 a, b; } cr_c;   /* a + b i */
static cr_c cr_cmul(cr_c x, cr_c y) { cr_c z = { cr_sub(cr_mul(x.a, y.a), cr_mul(x.b, y.b)), cr_add(cr_mul(x.a, y.b), cr_mul(x.b, y.a)) }; return z; }
static cr_c cr_csub(cr_c x, cr_c y) { cr_c z = { cr_sub(x.a, y.a), cr_sub(x.b, y.b) }; return z; }
static cr_c cr_cinv(cr_c x) { cr_u64 d = cr_pow(cr_add(cr_mul(x.a, x.a), cr_mul(x.b, x.b)), CR_P - 2); cr_c z = { cr_mul(x.a, d), cr_mul(cr_sub(0, x.b), d) }; return z; }
static int cr_is_singular(const gmat_t *g) {
    int n = g->n; if (g->m != n) return 1; if (n == 0) return 0;
    cr_c *w = calloc((size_t)n * n, sizeof(cr_c));
    for (int j = 0; j < n; j++) for (int_t k = g->colptr[j]; k < g->colptr[j + 1]; k++) {
        cr_c *q = &w[g->rowind[k] * (size_t)n + j]; q->a = cr_add(q->a, cr_of_double(g->re[k])); q->b = cr_add(q->b, cr_of_double(g->im[k])); }
    int sing = 0;
    for (int c = 0; c < n && !sing; c++) {
        int p = -1; for (int r = c; r < n; r++) if (w[r * (size_t)n + c].a || w[r * (size_t)n + c].b) { p = r; break; }
        if (p < 0) { sing = 1; break; }
        if (p != c) for (int t = 0; t < n; t++) { cr_c tmp = w[p * (size_t)n + t]; w[p * (size_t)n + t] = w[c * (size_t)n + t]; w[c * (size_t)n + t] = tmp; }
        cr_c inv = cr_cinv(w[c * (size_t)n + c]);
        for (int r = c + 1; r < n; r++) { cr_c f = cr_cmul(w[r * (size_t)n + c], inv); if (!f.a && !f.b) continue;
            for (int t = c; t < n; t++) w[r * (size_t)n + t] = cr_csub(w[r * (size_t)n + t], cr_cmul(f, w[c * (size_t)n + t])); }
    }
    free(w); return sing;
}
/* BEGIN marker; inputs that are exactly / structurally singular are labelled */
static void cr_begin_marker(const char *fam, long idx, int singular) {
    if (singular) { fprintf(stderr, "BEGIN %s %ld singular-input\n", fam, idx); fflush(stderr); } else out_begin_marker(fam, idx);
}
#endif
