// FAMILY(gssvx, "C05 [sdcz]gssvx over Trans x Equil x storage x IterRefine: X, and the documented mutation of A and B")
#include "condref_util.h"
#define FAMILY_INC "fam_gssvx.inc"
#include "all_prec.h"
void fam_gssvx(ctx_t *c) {
    for (long i = c->start; i < c->start + c->count; i++) {
        rng_t r; case_rng(c, i, &r); char ty = pick_ty(c, i);
        DISPATCH_TY(ty, gssvx_case, c, i, &r);
    }
}
