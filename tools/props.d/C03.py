prop('C03', families=[dict(name='lu', quick=3200, thorough=30000, extra=[], variants=['asan'], variants_thorough=['asan', 'idx64'], timeout=900),
                        dict(name='symb', quick=1500, thorough=20000, variants=['asan'])],
     level_text='Proof (Lean 4) about the executable structure predicate wfSC (every clause of the property: supernode partition, shared row lists with leading own columns, distinct trailing rows below, U rows strictly above the supernode without repeats, monotone pointers, exact array lengths, stored counts = countnz): countnz equals the number of stored entries on well-formed structures, marker-filtered lists have no duplicates, fixupL maps leading entries to the supernode\'s own columns. wfSC is evaluated on every factor pair the implementation returns.',
     level_note='The imperative symbolic factorization (panel/column DFS, pruning) is not modelled; it is tied by running the verified checker on its output for every generated case (all tunings, orderings, types).',
     technique='Lean 4 verified checker (wfSC) run on every returned factor + theorems on countnz/fixupL/marker lists',
     rule=_LU_RULE, trusted_base=[], assumptions=[])
