prop('C07', [dict(name='storage', quick=300, thorough=4000, timeout=900, extra=['minfill=1'])],
     level_text='placeholder', level_note='placeholder', technique='Lean 4 proof + differential check', rule='placeholder', trusted_base=[], assumptions=[])
