_LU_RULE = ('family lu: [sdcz]gssv (NC/NR storage) or get_perm_c+sp_preorder+[sdcz]gstrf(+gstrs) on m>=n matrices; patterns x value classes '
            '(small-integer, dyadic, dyadic L0*U0 products, generic, badly scaled, diagonally dominant) x ColPerm (5) x DiagPivotThresh x SymmetricMode x tuning via hook H1; '
            'singular inputs (duplicate column, Hall violation, explicit zero column, empty column); pivot events via hook H2. '
            'non-trivial = n >= 2 and the clause set of the property was evaluated on a successful (or, for C04, singular) return; distinct by hash of the case text')
