prop('C02', extra_modules=['Rounding'], families=[dict(name='lu', quick=3200, thorough=20000, extra=[], variants=['asan', 'vendor'], variants_thorough=['asan', 'vendor', 'idx64'], timeout=900)],
     level_text='Proof (Lean 4): the column LU with SuperLU\'s threshold pivot policy satisfies Pr*A*Pc = L*U with unit lower L, nonzero diag(U), bounded multipliers and diagonal preference, for all m>=n, all thresholds, all candidate orders, all reuse states (exact arithmetic); the pivot policy is a statement mirror of [sdcz]pivotL compared bit-for-bit on every pivot of every factorization, and on certified rounding-free cases L, U, perm_r must equal the exact model.',
     level_note='Theorems are in exact rational arithmetic; the rounding constants g(n+2) of the componentwise bound are cited from the classical analysis, not proved. Panels, supernodes, pruning and BLAS are tied by correspondence (exact on the rounding-free class, bounded otherwise), not verified.',
     technique='Lean 4 proof (LU identity by induction over columns) + bit-mirror of the pivot policy + exact differential check',
     rule=_LU_RULE,
     trusted_base=['rounding-free argument of DESIGN 3.3', 'hook H2 reports the values the code compares'],
     assumptions=['componentwise rounding constants from Higham Thm 9.3 (cited)'])
