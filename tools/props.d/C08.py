prop('C08', [dict(name='workspace', quick=400, thorough=5000, timeout=900, extra=['minfill=1'])],
     level_text='placeholder', level_note='placeholder', technique='Lean 4 proof + differential check', rule='placeholder', trusted_base=[], assumptions=[])
