prop('C06', extra_modules=['Rounding'], families=[dict(name='history', quick=4000, thorough=20000, extra=[], variants=['asan', 'vendor'], variants_thorough=['asan', 'vendor'], timeout=900)],
     level_text=('Proof (Lean 4): the expert driver\'s call histories are modelled as a state machine (DriverState = perm_c, etree, pivots/perm_r, L, U, equed, R, C; '
                 'stepCall for Fact in DOFACT / SamePattern / SamePattern_SameRowPerm / FACTORED on top of the column LU luFactor with usepr and the remembered pivots of the prior state). '
                 'Proved for every history length and order, every matrix, threshold, candidate order, Trans, every value of the ordering and equilibration oracles: '
                 'the history invariant HInv (the state holds factors satisfying the whole C02 invariant - identity Pr*A*Pc = L*U, unit lower L, nonzero diag(U), distinct pivots, threshold-bounded multipliers - '
                 'for the matrix of the last factoring call) is established by every factoring call from ANY prior state (stale or failing remembered pivots included), preserved by FACTORED calls, '
                 'and holds along every history (history_all); the factors after a factoring call are exactly luFactor of that call\'s own matrix, so all C02/C04 theorems apply verbatim; '
                 'a FACTORED call returns the state unchanged and its output is the solve phase with exactly those factors; "all pivots kept" implies perm_r unchanged. '
                 'Correspondence: random histories of [sdcz]gssvx (length 2..8, thorough ..12) over one pattern with value changes (1e-3 perturbation, unrelated values, rows times 2^+-20), '
                 'every step checked against that step\'s matrix in exact rationals (identity within the bound / exactly on rounding-free steps, bijections, wfSC, multiplier bound, residual bound for every solve), '
                 'bit mirror of [sdcz]pivotL on every pivot event including usepr = 1, byte comparison of L, U, perms, etree, R, C, equed, A around every FACTORED call, '
                 'and exact replay of the history through stepCall on rounding-free steps (perm_r, L, U, keep/abandon decision).'),
     level_note=('Theorems are in exact arithmetic at the specification level (L and U as determined by column order and pivot sequence): supernodes and panels have no '
                 'counterpart in the history model and are tied by the correspondence harness only (ASan + exact/bounded output comparison), as is wfSC of the returned storage; the re-adoption and growth of the L/U storage '
                 'is modelled and proved in C07/C08 (Slu.Mem.memInitReuse) and replayed on these histories (storage: clauses: allocator state on entry, at the first pivot call and on return of every factoring call). That the solve phase gstrs actually solves '
                 'the system is the subject of C01/C05; here the solve output is proved to be the gstrs of the factors held (and checked by the factor-derived residual bound on the implementation). '
                 'Column ordering / elimination tree and the equilibration outcome are oracle inputs of the model (C10, C11); the theorems hold for every value of them. Rounding constants g(k) are cited, not proved.'),
     technique='Lean 4 proof (state-machine induction over call histories on top of the LU invariant proved for arbitrary reuse state) + differential history harness with per-step exact-rational oracles and pivot-event bit mirror',
     rule=('family history: one case = one history of [sdcz]gssvx calls on matrices sharing one sparsity pattern, lifecycle as in EXAMPLE/[sdcz]linsolx2.c / linsolx3.c; first call DOFACT, then random '
           'DOFACT / SamePattern / SamePattern_SameRowPerm / FACTORED; generators: dyadic D*P^T*L0*U0*Q products (rounding-free under partial pivoting, union pattern with explicit zeros), generic random values, '
           'generic "arrow" systems whose fill explodes when the remembered pivots are abandoned (storage must grow during reuse); value changes same / 1e-3 perturbation / unrelated / rows times 2^+-20; '
           'all Trans, nrhs 1..2, NC and NR storage, Equil NO mostly, malloc and caller-workspace modes, 5 ColPerm values, SymmetricMode, DiagPivotThresh varying per step, tuning via hook H1 (fill estimate 1..30), all four types. '
           'non-trivial = n >= 2, at least two completed steps of which at least one is not DOFACT, every clause set evaluated; distinct by hash of the case text'),
     trusted_base=['rounding-free argument of DESIGN 3.3', 'hook H2 reports the values the code compares', 'harness follows the documented lifecycle (which objects the caller keeps / destroys between calls)'],
     assumptions=['componentwise rounding constants from Higham Thm 9.3/9.4 (cited)', 'overflow / underflow outside the numeric claims (generator keeps row scalings within 2^+-22 single, 2^+-60 double)'])
