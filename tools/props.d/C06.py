prop('C06', families=[dict(name='history', quick=320, thorough=4000, extra=[], variants=['asan'], variants_thorough=['asan', 'vendor'], timeout=900)],
     level_text='placeholder',
     level_note='placeholder',
     technique='Lean 4 proof (state-machine induction over call histories on top of the LU invariant) + differential history harness',
     rule='placeholder',
     trusted_base=['rounding-free argument of DESIGN 3.3', 'hook H2 reports the values the code compares'],
     assumptions=['componentwise rounding constants from Higham Thm 9.3/9.4 (cited)'])
