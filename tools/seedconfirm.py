#!/usr/bin/env python3
"""tools/seedconfirm.py <outdir> <K> <worktree> <batch>
Confirms one change written by a seeding sub-agent and, when it holds up, stores it under seeded/<Cnn>-<next>/.
<outdir> holds changeK.diff, demoK.c|demoK.sh, metaK.json; <worktree> is a scratch worktree of /repo with a
configured _build.  Steps (all in the scratch worktree, never in /repo): clean checkout; git apply; cmake --build;
ctest (24 pinned tests); build + run the demonstration; git checkout -- .; rebuild; run the demonstration again.
Kept only if: patch applies, build ok, 24/24 tests pass with the change, demo exits non-zero with it and 0 without."""
import sys, os, json, subprocess, shutil, re
ROOT = os.path.dirname(os.path.dirname(os.path.abspath(__file__)))
out, K, wt, batch = sys.argv[1], sys.argv[2], sys.argv[3], int(sys.argv[4])
def sh(cmd, **kw): return subprocess.run(cmd, shell=isinstance(cmd, str), capture_output=True, text=True, cwd=kw.pop('cwd', wt), **kw)
diff = os.path.join(out, 'change%s.diff' % K)
meta = json.load(open(os.path.join(out, 'meta%s.json' % K)))
prop = meta.get('property') or os.path.basename(out.rstrip('/'))[:3]
demo_c = os.path.join(out, 'demo%s.c' % K); demo_sh = os.path.join(out, 'demo%s.sh' % K)
sh('git checkout -- . && git clean -fdq -e _build -e SRC/superlu_config.h -e make.inc')
def build():
    r = sh('cmake --build _build -j8 2>&1 | tail -5'); return r.returncode == 0 and 'FAILED' not in r.stdout, r.stdout
def demo():
    if os.path.exists(demo_sh):
        r = sh(['bash', demo_sh], timeout=900); return r.returncode, (r.stdout + r.stderr)[-600:]
    exe = os.path.join(out, 'demo%s.bin' % K)
    r = sh('gcc -O1 -g -I%s/SRC %s %s/_build/SRC/libsuperlu.a -lopenblas -lm -lpthread -o %s' % (wt, demo_c, wt, exe))
    if r.returncode: return -99, 'demo does not compile: ' + r.stderr[-400:]
    try: r = sh([exe], timeout=600)
    except subprocess.TimeoutExpired: return 124, 'timeout (600 s)'
    return r.returncode, (r.stdout + r.stderr)[-600:]
res = dict(prop=prop, K=K)
r = sh(['git', 'apply', diff])
if r.returncode: print(json.dumps(dict(res, verdict='patch does not apply', err=r.stderr[-300:]))); sys.exit(1)
ok, o = build()
if not ok: sh('git checkout -- .'); print(json.dumps(dict(res, verdict='does not build', err=o[-300:]))); sys.exit(1)
t = sh('ctest --test-dir _build -j8 --timeout 900 2>&1 | tail -4')
m = re.search(r'(\d+)% tests passed, (\d+) tests failed out of (\d+)', t.stdout)
tests = m.group(0) if m else t.stdout[-200:]
rc_with, out_with = demo()
sh('git checkout -- .'); build()
rc_without, out_without = demo()
res.update(tests_with_change=tests, demo_rc_with=rc_with, demo_rc_without=rc_without)
good = bool(m) and m.group(2) == '0' and m.group(3) == '24' and rc_with not in (0, -99) and rc_without == 0
if not good:
    print(json.dumps(dict(res, verdict='REJECTED', with_=out_with[-300:], without=out_without[-300:]))); sys.exit(1)
ids = [int(d.split('-')[1]) for d in os.listdir(os.path.join(ROOT, 'seeded')) if d.startswith(prop + '-')]
sid = '%s-%d' % (prop, max(ids) + 1)
d = os.path.join(ROOT, 'seeded', sid); os.makedirs(d)
shutil.copy(diff, os.path.join(d, 'patch.diff'))
if os.path.exists(demo_c): shutil.copy(demo_c, os.path.join(d, 'demo.c'))
if os.path.exists(demo_sh): shutil.copy(demo_sh, os.path.join(d, 'demo.sh'))
json.dump(dict(id=sid, property=prop, batch=batch, summary=meta.get('summary'), needs=meta.get('needs'),
               author='independent sub-agent given only the property text and a scratch worktree of /repo',
               author_verification=meta.get('verified'),
               confirmed_by_main=dict(how='tools/seedconfirm.py: scratch worktree of /repo: git apply; cmake --build; ctest (24 pinned tests); build+run demo; git checkout -- .; rebuild; run demo again',
                                      result='tests_with_change=[%s] demo_rc_with=%s demo_rc_without=%s' % (tests, rc_with, rc_without)),
               checks_run='tools/seedmatrix.py (tools/seedrun.py patch.diff <own property>, scratch copy of /verif, scratch worktree of /repo with the patch, VERIF_SEED=1); results in seeded/RESULTS.md'),
          open(os.path.join(d, 'meta.json'), 'w'), indent=1)
print(json.dumps(dict(res, verdict='kept', id=sid)))
