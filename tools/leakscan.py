#!/usr/bin/env python3
"""leakscan.py <repo> <lean/Slu/Gen dir> [--selftest] [--json] [--report]

TRANSLATOR for property C19 (DESIGN.md section 4).  The ledger theorems of Props/C19.lean say which blocks
each API call creates and releases; this script ties the "call-internal blocks do not survive the call, and
nothing of the caller is freed" half of that specification to the source text.  From the clang-14 JSON AST
of EVERY file of <repo>/SRC it lists every allocation call and decides, for every path of the enclosing
function, whether the block is released.  It emits <gen>/LeakSites.lean, the input of theorem
`no_local_block_escapes_unreleased` (Props/C19.lean).  The syntax trees are obtained, reduced and cached
with the helpers of tools/xpandscan.py (same -I / -D flags: guard -DSLU_VERIF on; a file that mentions
SLU_VERIF is analysed with the guard off as well and the verdicts are merged, the worse one winning).

Whole-program summaries (all function bodies of SRC/, by name, fixed points):
  allocators   : malloc / calloc / realloc, and every function one of whose `return` statements returns the
                 result of an allocator call or a local variable that is somewhere assigned one
                 (superlu_malloc, intMalloc, int32Calloc, doubleMalloc, mxCallocInt, TreePostorder, ...).
                 Excluded by name: [sdcz]expand and [sdcz]user_malloc (user-level wrappers that hand out
                 pieces of the growable factor storage / of the caller's work area: properties C07, C08).
  out-allocators: function F and parameter i such that F stores a fresh block through it (`*P = ALLOC`,
                 `*P = v` with v a local holding a fresh block, or P handed on to such a function);
                 a call `F(.., &v, ..)` is then an allocation site of the local v (SetIWork, at_plus_a, getata).
                 Excluded by name: [sdcz]LUMemInit and [sdcz]LUWorkInit (the work arrays they hand out come from
                 the storage layer in either memory model and go back through [sdcz]LUWorkFree: C07, C08).
  no-return    : exit, abort, superlu_abort_and_exit (what the ABORT macro expands to), and functions none of
                 whose paths reach an exit.
  releasers    : free, superlu_free, and functions whose body passes a parameter on to one unconditionally
                 (statement at the top level of the body, or under `if (param)`).
  owners       : function F and parameter i such that F, at the top level of its body, stores the parameter
                 into an object reachable from its parameters or a global, or hands it to an owner
                 ([sdcz]Create_*_Matrix style).
  field writes : per function, the struct field names it may assign (transitively; `*` after a struct copy,
                 an indirect call, or a bodiless callee that receives a pointer to a struct).

What is a site.  Every call of an allocator (kinds by context):
  local    `v = (T) ALLOC(..)` / `T v = ALLOC(..)` with v a variable with automatic storage (a non-static local, or
           a parameter variable that is re-pointed): analysed (below);
  outparam `F(.., &v, ..)` with F an out-allocator: analysed likewise;
  stored   `LV = ALLOC(..)` with LV rooted at a parameter, at a local pointer that only ever holds
           parameter-reachable addresses, or at a global: handed over at birth;
  returned `return ALLOC(..)`;
  other    anything else (not understood: fails `siteOk` unless reviewed);
  inactive the token occurs in text that the preprocessor removes in both configurations (not compiled);
and, as records of kind `paramfree`, every call of a releaser on an expression rooted at a parameter
(the routine frees something its caller owns: legitimate only for the documented Destroy_* / *Free routines).

Analysis of a local / outparam site: a control-flow graph over full expressions (if / while / do / for /
switch / break / continue / goto / return; `&&`, `||`, `!` in conditions are decomposed so that every edge
carries one atomic test; `while (1)` / `do .. while (0)` have one edge; a call of a no-return function ends
the path) and a PATH-SENSITIVE forward may-analysis from the function entry.  Abstract state =
  status   N not yet allocated | L live | F freed | H handed over | Z the allocation returned NULL
  holders  the local variables that hold the block's address (`q = v` adds q, `v = other` removes v)
  facts    for the guard lvalues (variables, and `p->f` member paths) that occur in a condition controlling
           the allocation or a mention of a holder: `== c` or `not in {c..}`, learnt at branches and constant
           assignments, killed by any write, by `&g`, by every call once `&g` occurs anywhere in the function,
           (member paths) by any assignment to a field of that name and by calls that may write such a field
           (globals, statics, and fields whose address is taken in the function are never tracked);
           an edge whose test contradicts the facts is infeasible.  This is what accepts
           `if (x) v = ALLOC; .. if (x) free(v)` only when x is provably unchanged, and the flag idiom
           `if (x) { v = ALLOC; flag = 1; } .. if (flag) free(v)`.
  bypass   the last `if` whose not-taken arm contained a release of the block; `unstable` when its
           condition mentions a guard whose fact was known after the allocation and killed since.
Transitions: free(holder): L->F, F->doubleFree, H->freeAfterHandover, Z: nothing.  `LV = holder` with LV
parameter-rooted / global: L->H (storing into other local memory: `escapes`, not followed).  `return holder`,
holder passed to an owner: L->H.  A test of a holder against NULL: the NULL arm turns L into Z.  Overwriting
the last holder while L (also: allocating again in a loop): `lost`.  `&holder` anywhere: `addrTaken` (not
understood).  `freesBorrowed`: some call `G(h, .., e, ..)` makes G store the caller-owned pointer e into the block at
a field path (G's top-level `param->Store->f = param'`, local aliases that are assigned once resolved) and some
call `D(h)` releases that same path ([sdcz]Create_CompCol_Matrix around the caller's arrays followed by
Destroy_CompCol_Matrix instead of Destroy_SuperMatrix_Store; flow-insensitive).  Reaching an exit in status L is
a LEAK; each is recorded as (exit kind return|end, line, cause = condition of the innermost enclosing `if` arm of
the `return`, first function called in that condition, bypass, unstable).
More than 400 states at a node: facts are dropped there (more paths, never fewer).
Everything that is not understood errs towards reporting.

Self check (`leakOk`): per file, the allocation calls found in the syntax tree(s) and the allocator tokens of
the comment-stripped text agree line by line (a token on a line without a call must be a declaration of the
allocator, or lie inside a preprocessor conditional: `inactive`); the derived allocator set contains the
known primitives; every reported line was verified against the source text; [sdcz]gstrf/gsitrf/gssvx,
get_perm_c, sp_preorder all have analysed sites; the built-in self test (`--selftest`: small C functions with known
leaks / non-leaks: the usepr pattern, the flag idiom, a guard written in between, early return, goto clean-up, loops,
NULL paths, hand-overs, out-parameter allocation, member guards, a borrowed header, double free, a call hidden in a
macro) passes - it is run with every scan.  On failure LeakSites.lean is rewritten with `leakOk := false`.

Limits: blocks stored in memory (arrays of pointers, fields of local structs) are not followed; aliasing
between distinct pointer expressions is decided by field NAME only; the contents of callee-allocated objects
(what `Create_*` puts into a matrix a routine then destroys) are a matter for the ledger harness.
The reduced syntax trees are cached per file under <verif>/.work/leakscan-cache keyed by file text, headers,
xpandscan.py and REDUCE_VERSION (the analysis itself is not cached: about 7 s for the 182 files).
"""
import sys, os, re, json, hashlib, tempfile, shutil, glob, bisect
from concurrent.futures import ProcessPoolExecutor
sys.path.insert(0, os.path.dirname(os.path.abspath(__file__)))
import xpandscan as X
from xpandscan import kids, strip, walk, var_ref, callee_name, lean_str

VERSION = 'leakscan-1'
sys.setrecursionlimit(20000)
STATE_CAP = 400
PRIM_ALLOC = {'malloc', 'calloc', 'realloc'}
ALLOC_MACROS = ['SUPERLU_MALLOC', 'USER_MALLOC']
EXCLUDED_ALLOC = re.compile(r'^[sdcz](expand|user_malloc)$')
EXCLUDED_OUTALLOC = re.compile(r'^[sdcz]LU(Mem|Work)Init$')
PRIM_NORETURN = {'exit', '_exit', 'abort', 'superlu_abort_and_exit', 'longjmp', '__assert_fail'}
PRIM_FREE = {'free': {0}, 'superlu_free': {0}}
MUST_HAVE_ALLOC = ['superlu_malloc', 'intMalloc', 'int32Malloc', 'intCalloc', 'int32Calloc', 'doubleMalloc', 'floatMalloc',
                   'singlecomplexMalloc', 'doublecomplexMalloc', 'TreePostorder']
MUST_HAVE_FUNCS = ['get_perm_c', 'sp_preorder'] + [p + f for p in 'sdcz' for f in ('gstrf', 'gsitrf', 'gssvx', 'gsisx')]
MIN_ANALYSED = 300

# ----------------------------------------------------------------------------- loading (per file, cached)
def reduced_file(src, incs, defs, text):
    """(function definitions of the main file reduced as in xpandscan, [(name, line) of every FunctionDecl of the main file])"""
    ast = X.clang_ast(src, incs, defs)
    nl = [m.start() for m in re.finditer('\n', text)]
    fns = []; decls = []
    for n in ast.get('inner') or []:
        if n.get('kind') != 'FunctionDecl': continue
        loc = n.get('loc') or {}
        if 'offset' not in loc: loc = loc.get('expansionLoc') or {}
        o = loc.get('offset', -1); name = n.get('name', '')
        if o < 0 or text[o:o + len(name)] != name: continue           # declared in a header
        line = bisect.bisect_right(nl, o) + 1
        decls.append((name, line))
        if not any(isinstance(c, dict) and c.get('kind') == 'CompoundStmt' for c in n.get('inner') or []): continue
        r = X.reduce_node(n, nl); r['fline'] = line
        fns.append(r)
    return fns, decls

def file_job(args):
    src, rel, incs, key, cachedir = args
    cpath = os.path.join(cachedir, key + '.json') if cachedir else None
    if cpath and os.path.exists(cpath):
        try: return json.load(open(cpath))
        except Exception: pass
    text = open(src, encoding='latin1').read()
    cfgs = []
    for defs in ([['-DSLU_VERIF']] + ([[]] if 'SLU_VERIF' in text else [])):
        fns, decls = reduced_file(src, incs, defs, text)
        cfgs.append(dict(fns=fns, decls=decls))
    res = dict(rel=rel, cfgs=cfgs)
    if cpath:
        tmp = cpath + '.tmp%d' % os.getpid()
        json.dump(res, open(tmp, 'w')); os.replace(tmp, cpath)
    return res

# ----------------------------------------------------------------------------- expression helpers
def sp(e):
    """strip parentheses and casts (None-safe)"""
    return strip(e) if e is not None else None

def show(e, depth=0):
    """source-like rendering of an expression (casts dropped), used to name conditions"""
    if e is None or depth > 12: return '?'
    k = e.get('kind'); ks = kids(e)
    if k in ('ParenExpr', 'ImplicitCastExpr', 'CStyleCastExpr') and len(ks) == 1: return show(ks[0], depth)
    if k == 'DeclRefExpr': return (e.get('ref') or {}).get('name', '?')
    if k == 'IntegerLiteral': return str(e.get('value', '?'))
    if k in ('FloatingLiteral', 'CharacterLiteral'): return str(e.get('value', '?'))
    if k == 'StringLiteral': return '"..."'
    if k == 'MemberExpr': return show(ks[0], depth + 1) + ('->' if e.get('isArrow') else '.') + e.get('name', '?')
    if k == 'ArraySubscriptExpr' and len(ks) == 2: return '%s[%s]' % (show(ks[0], depth + 1), show(ks[1], depth + 1))
    if k == 'UnaryOperator' and ks:
        return (show(ks[0], depth + 1) + e.get('opcode', '')) if e.get('isPostfix') else (e.get('opcode', '') + show(ks[0], depth + 1))
    if k in ('BinaryOperator', 'CompoundAssignOperator') and len(ks) == 2:
        return '%s %s %s' % (show(ks[0], depth + 1), e.get('opcode', '?'), show(ks[1], depth + 1))
    if k == 'CallExpr': return '%s(%s)' % (show(ks[0], depth + 1), ', '.join(show(a, depth + 1) for a in ks[1:]))
    if k == 'ConditionalOperator' and len(ks) == 3: return '%s ? %s : %s' % tuple(show(c, depth + 1) for c in ks)
    if k == 'UnaryExprOrTypeTraitExpr': return 'sizeof(..)'
    return k or '?'

def const_of(e):
    """value of a constant expression: ('i', int) for integer / NULL / character literals, ('e', name) for an enumeration
    constant; None otherwise"""
    e = sp(e)
    if e is None: return None
    k = e.get('kind')
    if k == 'IntegerLiteral':
        try: return ('i', int(e.get('value')))
        except Exception: return None
    if k == 'CharacterLiteral':
        try: return ('i', int(e.get('value')))
        except Exception: return None
    if k == 'DeclRefExpr' and (e.get('ref') or {}).get('kind') == 'EnumConstantDecl': return ('e', e['ref']['name'])
    if k == 'UnaryOperator' and e.get('opcode') == '-':
        c = const_of(kids(e)[0])
        return ('i', -c[1]) if c and c[0] == 'i' else None
    return None

ZERO = ('i', 0)

def clip(t, n=96):
    return t if len(t) <= n else t[:n - 3] + '...'

def root_of(e):
    """(variable id | None, depth) at the bottom of an lvalue / pointer expression: follows ->, ., [], *, &, casts and
    pointer arithmetic (left operand)"""
    d = 0
    while e is not None:
        e = sp(e)
        if e is None: return None, d
        k = e.get('kind'); ks = kids(e)
        if k == 'DeclRefExpr': return var_ref(e), d
        if k == 'MemberExpr' and ks: e = ks[0]; d += 1
        elif k == 'ArraySubscriptExpr' and ks: e = ks[0]; d += 1
        elif k == 'UnaryOperator' and e.get('opcode') in ('*', '&') and ks:
            d += (1 if e.get('opcode') == '*' else 0); e = ks[0]
        elif k == 'BinaryOperator' and e.get('opcode') in ('+', '-', '=') and ks: e = ks[0]      # p + k ; (lv = E) has the value of lv
        else: return None, d
    return None, d

def events_of(e, decl=None):
    """atomic events of a full expression in (approximate) evaluation order:
       ('assign', lhs, rhs, cond) ('declinit', varid, rhs, cond) ('modify', operand, cond) ('addr', varid, cond, incall)
       ('call', node, cond) ; cond = evaluated only conditionally inside the expression (&&, ||, ?: arms)"""
    out = []
    def rec(n, cond, callarg=False):
        if n is None: return
        k = n.get('kind'); ks = kids(n)
        if k == 'BinaryOperator' and n.get('opcode') == '=' and len(ks) == 2:
            rec(ks[1], cond);
            l = strip(ks[0], casts=False)
            if not var_ref(l): rec(l, cond)
            out.append(('assign', ks[0], ks[1], cond)); return
        if k == 'BinaryOperator' and n.get('opcode') in ('&&', '||') and len(ks) == 2:
            rec(ks[0], cond); rec(ks[1], True); return
        if k == 'ConditionalOperator' and len(ks) == 3:
            rec(ks[0], cond); rec(ks[1], True); rec(ks[2], True); return
        if k == 'CompoundAssignOperator' and len(ks) == 2:
            rec(ks[1], cond); rec(ks[0], cond); out.append(('modify', ks[0], cond)); return
        if k == 'UnaryOperator' and n.get('opcode') in ('++', '--') and ks:
            rec(ks[0], cond); out.append(('modify', ks[0], cond)); return
        if k == 'UnaryOperator' and n.get('opcode') == '&' and ks:
            t = sp(ks[0])
            if t is not None and var_ref(t): out.append(('addr', var_ref(t), cond, callarg)); return
            rec(ks[0], cond); return
        if k == 'CallExpr':
            for i, a in enumerate(ks):
                s = a
                while s is not None and s.get('kind') in ('ParenExpr', 'ImplicitCastExpr', 'CStyleCastExpr') and len(kids(s)) == 1: s = kids(s)[0]
                if i > 0 and s is not None and s.get('kind') == 'UnaryOperator' and s.get('opcode') == '&': rec(s, cond, True)
                else: rec(a, cond)
            out.append(('call', n, cond)); return
        if k == 'StmtExpr' or (k and k.endswith('Stmt')):
            # GNU statement expression (what assert() expands to): its effects are taken as conditional (kills apply,
            # releases do not count); an allocation of the site inside one is flagged by the caller
            for c in ks: rec(c, True)
            return
        for c in ks: rec(c, cond)
    rec(e, False)
    if decl is not None: out.append(('declinit', decl, e, False))
    return out

# ----------------------------------------------------------------------------- control-flow graph with labelled edges
class CFG:
    """nodes: dict(kind 'expr'|'decl'|'join'|'ret'|'end'|'unknown', e, decl, line, cause, succ=[(target, label)]);
       label = None | (cond expression, truth value, IfStmt node or None); node 0 is the entry, self.exit the exit"""
    def __init__(self, fn):
        self.fn = fn
        self.body = next(c for c in kids(fn) if c.get('kind') == 'CompoundStmt')
        self.nodes = []; self.labels = {}; self.gotos = []
        self.brk = []; self.cont = []; self.sw = []; self.ifstack = []
        self.unknown = False
        entry = self.new([], kind='join')
        out = self.stmt(self.body, [(entry, None)])
        end = self.new(out, kind='end', line=0)
        self.exit = self.new([(end, None)], kind='exit')
        for i, nd in enumerate(self.nodes):
            if nd['kind'] == 'ret': nd['succ'].append((self.exit, None))
        for fr, lab in self.gotos:
            tgt = self.labels.get(lab)
            if tgt is None: self.unknown = True; continue
            for p, l in fr: self.nodes[p]['succ'].append((tgt, l))

    def new(self, frontier, **kw):
        i = len(self.nodes)
        nd = dict(kind='expr', e=None, decl=None, line=0, cause='', ccall='', succ=[]); nd.update(kw)
        self.nodes.append(nd)
        for p, l in frontier: self.nodes[p]['succ'].append((i, l))
        return i

    def expr(self, e, frontier):
        if e is None: return frontier
        s = strip(e, casts=False)
        if s.get('kind') == 'BinaryOperator' and s.get('opcode') == ',':
            return self.expr(kids(s)[1], self.expr(kids(s)[0], frontier))
        return [(self.new(frontier, kind='expr', e=e, line=e.get('line', 0)), None)]

    def cond(self, e, frontier, ifs=None):
        """-> (true frontier, false frontier)"""
        if e is None: return frontier, []
        s = strip(e, casts=False)
        k = s.get('kind'); ks = kids(s)
        if k == 'BinaryOperator' and s.get('opcode') == '&&':
            t1, f1 = self.cond(ks[0], frontier, ifs); t2, f2 = self.cond(ks[1], t1, ifs); return t2, f1 + f2
        if k == 'BinaryOperator' and s.get('opcode') == '||':
            t1, f1 = self.cond(ks[0], frontier, ifs); t2, f2 = self.cond(ks[1], f1, ifs); return t1 + t2, f2
        if k == 'UnaryOperator' and s.get('opcode') == '!':
            t, f = self.cond(ks[0], frontier, ifs); return f, t
        if k == 'ImplicitCastExpr' and len(ks) == 1 and s.get('castKind') in ('IntegralCast', 'IntegralToBoolean', 'PointerToBoolean', 'LValueToRValue', 'NoOp'):
            inner = strip(ks[0], casts=False)
            if inner.get('kind') in ('BinaryOperator', 'UnaryOperator') and inner.get('opcode') in ('&&', '||', '!'):
                return self.cond(ks[0], frontier, ifs)
        c = const_of(s)
        n = self.new(frontier, kind='expr', e=e, line=e.get('line', 0))
        if c is not None and c[0] == 'i':
            return ([(n, None)], []) if c[1] != 0 else ([], [(n, None)])
        return [(n, (e, True, ifs))], [(n, (e, False, ifs))]

    def stmt(self, s, frontier):
        if s is None: return frontier
        k = s.get('kind'); ch = s.get('inner') or []
        if k == 'CompoundStmt':
            for c in ch: frontier = self.stmt(c, frontier)
            return frontier
        if k == 'DeclStmt':
            for d in kids(s):
                if d.get('kind') == 'VarDecl' and d.get('init') and kids(d):
                    frontier = [(self.new(frontier, kind='decl', e=kids(d)[-1], decl=d['id'], line=d.get('line', 0)), None)]
            return frontier
        if k == 'NullStmt': return frontier
        if k == 'IfStmt':
            t, f = self.cond(ch[0], frontier, s)
            self.ifstack.append((ch[0], True)); to = self.stmt(ch[1] if len(ch) > 1 else None, t); self.ifstack.pop()
            if len(ch) > 2 and ch[2]:
                self.ifstack.append((ch[0], False)); fo = self.stmt(ch[2], f); self.ifstack.pop()
            else: fo = f
            return to + fo
        if k == 'WhileStmt':
            head = self.new(frontier, kind='join')
            t, f = self.cond(ch[0], [(head, None)])
            self.brk.append([]); self.cont.append([])
            b = self.stmt(ch[-1], t)
            for p, l in b + self.cont.pop(): self.nodes[p]['succ'].append((head, l))
            return f + self.brk.pop()
        if k == 'DoStmt':
            head = self.new(frontier, kind='join')
            self.brk.append([]); self.cont.append([])
            b = self.stmt(ch[0], [(head, None)])
            t, f = self.cond(ch[1] if len(ch) > 1 else None, b + self.cont.pop())
            for p, l in t: self.nodes[p]['succ'].append((head, l))
            return f + self.brk.pop()
        if k == 'ForStmt':
            init, cond, inc, body = ch[0], ch[2], ch[3], ch[4]
            frontier = self.stmt(init, frontier) if init and init.get('kind') == 'DeclStmt' else self.expr(init, frontier)
            head = self.new(frontier, kind='join')
            t, f = self.cond(cond, [(head, None)])
            self.brk.append([]); self.cont.append([])
            b = self.stmt(body, t)
            i = self.expr(inc, b + self.cont.pop())
            for p, l in i: self.nodes[p]['succ'].append((head, l))
            return f + self.brk.pop()
        if k == 'SwitchStmt':
            c = self.expr(ch[0], frontier)
            self.brk.append([]); self.sw.append(dict(cases=[], default=False))
            b = self.stmt(ch[-1], [])
            sw = self.sw.pop()
            for j in sw['cases']:
                for p, l in c: self.nodes[p]['succ'].append((j, l))
            out = b + self.brk.pop()
            if not sw['default']: out = out + c
            return out
        if k in ('CaseStmt', 'DefaultStmt'):
            j = self.new(frontier, kind='join')
            if self.sw:
                self.sw[-1]['cases'].append(j)
                if k == 'DefaultStmt': self.sw[-1]['default'] = True
            return self.stmt(ch[-1] if ch else None, [(j, None)])
        if k == 'BreakStmt':
            if self.brk: self.brk[-1] += frontier
            return []
        if k == 'ContinueStmt':
            if self.cont: self.cont[-1] += frontier
            return []
        if k == 'ReturnStmt':
            cause = ''; ccall = ''
            if self.ifstack:
                c, pol = self.ifstack[-1]; cause = ('' if pol else 'else of: ') + show(c)
                ccall = next((callee_name(n) or '?' for n in walk(c) if n.get('kind') == 'CallExpr'), '')
            self.new(frontier, kind='ret', e=(kids(s)[0] if kids(s) else None), line=s.get('line', 0), cause=clip(cause), ccall=ccall)
            return []
        if k == 'LabelStmt':
            j = self.new(frontier, kind='join'); self.labels[s.get('declId')] = j
            return self.stmt(ch[-1] if ch else None, [(j, None)])
        if k == 'GotoStmt':
            self.gotos.append((list(frontier), s.get('targetLabelDeclId'))); return []
        if k == 'AttributedStmt':
            return self.stmt(ch[-1] if ch else None, frontier)
        if k.endswith('Stmt'):
            self.unknown = True
            return [(self.new(frontier, kind='unknown', e=s, line=s.get('line', 0)), None)]
        return self.expr(s, frontier)

# ----------------------------------------------------------------------------- per-function facts shared by the summaries and the analysis
class FnInfo:
    def __init__(self, rel, ci, fn):
        self.rel = rel; self.ci = ci; self.fn = fn; self.name = fn.get('name', '?')
        self.body = next(c for c in kids(fn) if c.get('kind') == 'CompoundStmt')
        self.params = [p for p in kids(fn) if p.get('kind') == 'ParmVarDecl']
        self.pidx = {p['id']: i for i, p in enumerate(self.params)}
        self.locals = {}          # id -> VarDecl node (block scope)
        for n in walk(self.body):
            if n.get('kind') == 'VarDecl': self.locals[n['id']] = n
        self.vname = {p['id']: p.get('name', '') for p in self.params}
        self.vname.update({i: n.get('name', '') for i, n in self.locals.items()})
        self.vtype = {p['id']: p.get('ty', '') for p in self.params}
        self.vtype.update({i: n.get('ty', '') for i, n in self.locals.items()})
        self.assigns = []         # (var id, rhs, node) of every `v = E` / `T v = E`
        self.calls = []; self.returns = []; self.eqs = []
        self.addr_taken = set()   # variables whose address is taken anywhere
        for n in walk(self.body):
            k = n.get('kind')
            if k == 'ReturnStmt': self.returns.append(n)
            if k == 'BinaryOperator' and n.get('opcode') == '=':
                self.eqs.append(n)
                l = strip(kids(n)[0], casts=False)
                if var_ref(l): self.assigns.append((var_ref(l), kids(n)[1], n))
            elif k == 'VarDecl' and n.get('init') and kids(n):
                self.assigns.append((n['id'], kids(n)[-1], n))
            elif k == 'CallExpr': self.calls.append(n)
            elif k == 'UnaryOperator' and n.get('opcode') == '&' and kids(n):
                t = sp(kids(n)[0])
                if t is not None and var_ref(t): self.addr_taken.add(var_ref(t))
        self.top = set(id(c) for c in kids(self.body))            # statements at the top level of the body
        self._proot = None; self._cfg = None

    def is_static_local(self, vid):
        return vid in self.locals and self.locals[vid].get('storageClass') in ('static', 'extern')

    def is_plain_local(self, vid):
        """a variable with automatic storage: a block-scope variable that is not static, or a parameter (the variable itself)"""
        return (vid in self.locals and not self.is_static_local(vid)) or vid in self.pidx

    def proot(self):
        """local pointer variables that only ever hold addresses reachable from a parameter (or copies of a parameter)"""
        if self._proot is not None: return self._proot
        by = {}
        for w, r, n in self.assigns:
            if self.is_plain_local(w) and w not in self.pidx: by.setdefault(w, []).append(r)
        good = set(w for w in by if w not in self.addr_taken and X.is_ptr(self.vtype.get(w, '')))
        changed = True
        while changed:
            changed = False
            for w in list(good):
                for r in by[w]:
                    v, d = root_of(r)
                    if v is None or not (v in self.pidx or v in good):
                        good.discard(w); changed = True; break
        self._proot = good
        return good

    def rooted(self, lv):
        """what an lvalue is rooted at: 'param' (through at least one indirection from a parameter or a parameter-rooted
        local), 'global', 'static', 'local' (a plain local variable itself), 'localmem' (memory reached from a plain local), None"""
        v, d = root_of(lv)
        if v is None:
            b = sp(lv)
            return None
        if v in self.pidx: return 'param' if d >= 1 else 'paramvar'
        if v in self.locals:
            if self.is_static_local(v): return 'static'
            if d == 0: return 'local'
            return 'param' if v in self.proot() else 'localmem'
        return 'global'

    def cfg(self):
        if self._cfg is None: self._cfg = CFG(self.fn)
        return self._cfg

    def path_of(self, e, depth=0):
        """access path of an lvalue relative to a parameter: (parameter index, tuple of field names; '*' for a dereference /
        subscript), resolving local pointers that are assigned exactly once (`Astore = A->Store`); None when unknown"""
        e = sp(e)
        if e is None or depth > 6: return None
        k = e.get('kind'); ks = kids(e)
        if k == 'DeclRefExpr':
            v = var_ref(e)
            if v in self.pidx:
                return (self.pidx[v], ()) if not any(w == v for w, r, n in self.assigns) and v not in self.addr_taken else None
            if v in self.locals and not self.is_static_local(v) and v not in self.addr_taken:
                rs = [r for w, r, n in self.assigns if w == v]
                if len(rs) == 1: return self.path_of(rs[0], depth + 1)
            return None
        if k == 'MemberExpr' and ks:
            b = self.path_of(ks[0], depth + 1)
            return (b[0], b[1] + (e.get('name', '?'),)) if b else None
        if (k == 'ArraySubscriptExpr' or (k == 'UnaryOperator' and e.get('opcode') == '*')) and ks:
            b = self.path_of(ks[0], depth + 1)
            return (b[0], b[1] + ('*',)) if b else None
        if k == 'BinaryOperator' and e.get('opcode') == '=' and ks: return self.path_of(ks[0], depth + 1)
        return None

# ----------------------------------------------------------------------------- whole-program summaries
class Program:
    def __init__(self, results):
        self.fns = []
        for r in results:
            for ci, c in enumerate(r['cfgs']):
                for fn in c['fns']: self.fns.append(FnInfo(r['rel'], ci, fn))
        self.by_name = {}
        for f in self.fns: self.by_name.setdefault(f.name, []).append(f)
        self.derive_allocators()
        self.derive_noreturn()
        self.derive_free()
        self.derive_outalloc()
        self.derive_owners()
        self.derive_fieldwrites()
        self.derive_paths()

    def derive_paths(self):
        """stores_path: name -> [(dst parameter, path, src parameter)] for top-level statements `dst-path = src parameter`
        (every definition agrees);  frees_path: name -> [(parameter, path)] for every release of `parameter-path` in the body"""
        self.stores_path = {}; self.frees_path = {}
        for name, fl in self.by_name.items():
            per = []
            for f in fl:
                got = set()
                for s in kids(f.body):
                    if s.get('kind') == 'BinaryOperator' and s.get('opcode') == '=':
                        r = sp(kids(s)[1])
                        if r is not None and var_ref(r) in f.pidx and X.is_ptr(f.vtype.get(var_ref(r), '')):
                            pth = f.path_of(kids(s)[0])
                            if pth and pth[1] and pth[0] != f.pidx[var_ref(r)]: got.add((pth[0], pth[1], f.pidx[var_ref(r)]))
                per.append(got)
            both = set.intersection(*per) if per else set()
            if both: self.stores_path[name] = sorted(both)
            fr = set()
            for f in fl:
                for c in f.calls:
                    cn = callee_name(c); args = kids(c)[1:]
                    for j in self.free.get(cn, ()):
                        if j < len(args):
                            pth = f.path_of(args[j])
                            if pth and pth[1]: fr.add(pth)
            if fr: self.frees_path[name] = sorted(fr)

    def is_alloc_call(self, n):
        return n is not None and n.get('kind') == 'CallExpr' and callee_name(n) in self.alloc

    def alloc_vars(self, f):
        """local variables of f that are somewhere assigned the result of an allocator call"""
        return set(w for w, r, n in f.assigns if self.is_alloc_call(sp(r)))

    def derive_allocators(self):
        self.alloc = set(PRIM_ALLOC)
        while True:
            new = set(self.alloc)
            for f in self.fns:
                if f.name in new or EXCLUDED_ALLOC.match(f.name): continue
                av = self.alloc_vars(f)
                for n in f.returns:
                    if kids(n):
                        e = sp(kids(n)[0])
                        if self.is_alloc_call(e) or (e is not None and var_ref(e) in av and f.is_plain_local(var_ref(e))):
                            new.add(f.name); break
            if new == self.alloc: break
            self.alloc = new

    def derive_noreturn(self):
        self.noret = set(PRIM_NORETURN)
        for _ in range(3):
            new = set(self.noret)
            for name, fl in self.by_name.items():
                if name in new: continue
                if all(not self.reaches_exit(f) for f in fl): new.add(name)
            if new == self.noret: break
            self.noret = new

    def reaches_exit(self, f):
        g = f.cfg()
        dead = set()
        for i, nd in enumerate(g.nodes):
            if nd['e'] is not None and nd['kind'] in ('expr', 'decl', 'ret'):
                if any(ev[0] == 'call' and not ev[2] and callee_name(ev[1]) in self.noret for ev in events_of(nd['e'])): dead.add(i)
        seen = {0}; work = [0]
        while work:
            i = work.pop()
            if i == g.exit: return True
            if i in dead: continue
            for j, l in g.nodes[i]['succ']:
                if j not in seen: seen.add(j); work.append(j)
        return False

    def derive_free(self):
        """must-free summaries: name -> set of parameter indices"""
        self.free = {k: set(v) for k, v in PRIM_FREE.items()}
        while True:
            new = {k: set(v) for k, v in self.free.items()}
            for name, fl in self.by_name.items():
                if name in PRIM_FREE: continue
                per = []
                for f in fl:
                    got = set()
                    for s in kids(f.body):
                        tgt = s
                        if s.get('kind') == 'IfStmt':                       # if (p) free(p);
                            ch = s.get('inner') or []
                            c = sp(ch[0]) if ch else None
                            if c is not None and var_ref(c) in f.pidx and len(ch) == 2:
                                tgt = ch[1]
                                if tgt is not None and tgt.get('kind') == 'CompoundStmt' and len(kids(tgt)) == 1: tgt = kids(tgt)[0]
                            else: continue
                        if tgt is None or tgt.get('kind') != 'CallExpr': continue
                        cn = callee_name(tgt)
                        for j in self.free.get(cn, ()):
                            args = kids(tgt)[1:]
                            a = sp(args[j]) if j < len(args) else None
                            if a is not None and var_ref(a) in f.pidx and var_ref(a) not in f.addr_taken and not any(w == var_ref(a) for w, r, n in f.assigns):
                                got.add(f.pidx[var_ref(a)])
                    per.append(got)
                both = set.intersection(*per) if per else set()
                if both: new[name] = new.get(name, set()) | both
            if new == self.free: break
            self.free = new

    def derive_outalloc(self):
        """name -> set of parameter indices through which a fresh block is stored (`*P = ALLOC`, `*P = v`, P passed on)"""
        self.outalloc = {}
        while True:
            new = {k: set(v) for k, v in self.outalloc.items()}
            for f in self.fns:
                if EXCLUDED_OUTALLOC.match(f.name): continue
                av = self.alloc_vars(f)
                got = set()
                for n in f.eqs + f.calls:
                    if n.get('kind') == 'BinaryOperator':
                        l = sp(kids(n)[0]); r = sp(kids(n)[1])
                        if l is not None and l.get('kind') == 'UnaryOperator' and l.get('opcode') == '*':
                            p = sp(kids(l)[0])
                            if p is not None and var_ref(p) in f.pidx and (self.is_alloc_call(r) or (r is not None and var_ref(r) in av)):
                                got.add(f.pidx[var_ref(p)])
                    elif n.get('kind') == 'CallExpr':
                        cn = callee_name(n)
                        for j in self.outalloc.get(cn, ()):
                            args = kids(n)[1:]
                            a = sp(args[j]) if j < len(args) else None
                            if a is not None and var_ref(a) in f.pidx: got.add(f.pidx[var_ref(a)])
                if got: new[f.name] = new.get(f.name, set()) | got
            if new == self.outalloc: break
            self.outalloc = new

    def derive_owners(self):
        """name -> set of parameter indices that the function (every definition of it), at the top level of its body, stores
        into an object reachable from its parameters / a global, or hands to an owner"""
        self.owner = {}
        while True:
            new = {k: set(v) for k, v in self.owner.items()}
            for name, fl in self.by_name.items():
                per = []
                for f in fl:
                    got = set()
                    for s in kids(f.body):
                        if s.get('kind') == 'BinaryOperator' and s.get('opcode') == '=':
                            r = sp(kids(s)[1])
                            if r is not None and var_ref(r) in f.pidx and X.is_ptr(f.vtype.get(var_ref(r), '')) and f.rooted(kids(s)[0]) in ('param', 'global', 'static'):
                                v = var_ref(r)
                                if v not in f.addr_taken and not any(w == v for w, rr, n in f.assigns): got.add(f.pidx[v])
                        elif s.get('kind') == 'CallExpr':
                            cn = callee_name(s)
                            for j in self.owner.get(cn, ()):
                                args = kids(s)[1:]
                                a = sp(args[j]) if j < len(args) else None
                                if a is not None and var_ref(a) in f.pidx and X.is_ptr(f.vtype.get(var_ref(a), '')):
                                    v = var_ref(a)
                                    if v not in f.addr_taken and not any(w == v for w, rr, n in f.assigns): got.add(f.pidx[v])
                    per.append(got)
                both = set.intersection(*per) if per else set()
                if both: new[name] = new.get(name, set()) | both
            if new == self.owner: break
            self.owner = new

    def derive_fieldwrites(self):
        """name -> set of field names the function may write ('*' = anything)"""
        direct = {}; callees = {}
        for f in self.fns:
            w = direct.setdefault(f.name, set()); cs = callees.setdefault(f.name, set())
            for n in walk(f.body):
                k = n.get('kind')
                tgt = None
                if k in ('BinaryOperator', 'CompoundAssignOperator') and (k == 'CompoundAssignOperator' or n.get('opcode') == '='): tgt = kids(n)[0]
                elif k == 'UnaryOperator' and n.get('opcode') in ('++', '--'): tgt = kids(n)[0]
                if tgt is not None:
                    t = strip(tgt, casts=False)
                    if is_record_type(t.get('dty', '') or t.get('ty', '')): w.add('*')
                    while t is not None and t.get('kind') in ('MemberExpr', 'ArraySubscriptExpr', 'ParenExpr'):
                        if t.get('kind') == 'MemberExpr': w.add(t.get('name', '*')); break
                        t = kids(t)[0] if kids(t) else None
                if k == 'CallExpr':
                    cn = callee_name(n)
                    if cn is None: w.add('*')
                    elif cn in self.by_name: cs.add(cn)
                    elif any(passes_record(a) for a in kids(n)[1:]): w.add('*')
        fw = {k: set(v) for k, v in direct.items()}
        changed = True
        while changed:
            changed = False
            for name in fw:
                for c in callees[name]:
                    add = fw.get(c, set()) - fw[name]
                    if add: fw[name] |= add; changed = True
        self.fieldwrites = fw

def is_record_type(t):
    t = (t or '').strip()
    return bool(t) and not X.is_ptr(t) and (t.startswith('struct ') or t.startswith('union ') or bool(re.match(r'^(const\s+)?(SuperMatrix|GlobalLU_t|SuperLUStat_t|superlu_options_t|mem_usage_t|LU_stack_t|ExpHeader|[A-Z]\w*format|complex|doublecomplex|singlecomplex)$', t)))

def passes_record(a):
    """the argument (casts stripped) is a pointer to a struct, or to void"""
    s = sp(a)
    if s is None: return False
    t = (s.get('dty') or s.get('ty') or '').strip()
    if not X.is_ptr(t): return False
    base = re.sub(r'(\[[^\]]*\])+$', '', re.sub(r'\b(const|restrict|volatile|register)\b', '', t)).strip()
    base = re.sub(r'[\s\*]+$', '', base).strip()
    if base in ('void',): return True
    if base in ('char', 'int', 'int_t', 'long', 'long long', 'float', 'double', 'unsigned', 'unsigned int', 'unsigned char', 'size_t', 'int64_t', 'flops_t', 'FILE', 'struct _IO_FILE', 'integer', 'real', 'doublereal', 'logical', 'short'): return False
    if base in ('complex', 'doublecomplex', 'singlecomplex'): return False       # BLAS operands: scalars without fields of interest
    return True

# ----------------------------------------------------------------------------- guard keys
def gkey(e):
    """key of a guard lvalue: a variable or a chain of member accesses rooted at a variable"""
    e = sp(e)
    if e is None: return None
    k = e.get('kind')
    if k == 'DeclRefExpr' and var_ref(e): return ('v', var_ref(e))
    if k == 'MemberExpr' and kids(e):
        s = gkey(kids(e)[0]); return ('.', e.get('name'), s) if s else None
    return None

def key_root(k):
    while k[0] != 'v': k = k[2]
    return k[1]

def key_fields(k):
    out = set()
    while k[0] != 'v': out.add(k[1]); k = k[2]
    return out

def atom_test(c):
    """decode an atomic condition: (subject expression, constant, is_equality_when_true) or None
       `X`        -> (X, 0, False)      true means X != 0
       `X == K`   -> (X, K, True)
       `X != K`   -> (X, K, False)"""
    s = sp(c)
    if s is None: return None
    if s.get('kind') == 'BinaryOperator' and s.get('opcode') in ('==', '!='):
        a, b = kids(s)
        ca, cb = const_of(a), const_of(b)
        if cb is not None and ca is None: return (a, cb, s['opcode'] == '==')
        if ca is not None and cb is None: return (b, ca, s['opcode'] == '==')
        return None
    if s.get('kind') == 'BinaryOperator' and s.get('opcode') in ('<', '>', '<=', '>=', '&', '|', '+', '-', '*', '/', '%', '^', '<<', '>>'): return None
    if s.get('kind') in ('CallExpr', 'ConditionalOperator'): return None
    return (s, ZERO, False)

def subject_var(x):
    """the variable a tested expression stands for: `v`, or `(v = E)`"""
    s = sp(x)
    if s is None: return None
    if var_ref(s): return var_ref(s)
    if s.get('kind') == 'BinaryOperator' and s.get('opcode') == '=':
        l = sp(kids(s)[0])
        if l is not None and var_ref(l): return var_ref(l)
    return None

# ----------------------------------------------------------------------------- the per-site analysis
class SiteAnalysis:
    def __init__(self, prog, f):
        self.P = prog; self.f = f; self.g = f.cfg()
        self.node_events = [events_of(nd['e'], nd['decl']) if nd['e'] is not None and nd['kind'] in ('expr', 'decl', 'ret') else [] for nd in self.g.nodes]
        self.sites = []; self.paramfrees = []
        self.find_sites()

    # ---- enumerate the sites of the function
    def find_sites(self):
        f = self.f; P = self.P
        claimed = {}
        def add(call, kind, var=None, **kw):
            claimed[id(call)] = True
            self.sites.append(dict(call=call, kind=kind, var=var, allocator=callee_name(call), line=call['line'], **kw))
        for n in walk(f.body):
            k = n.get('kind')
            if k == 'BinaryOperator' and n.get('opcode') == '=' and P.is_alloc_call(sp(kids(n)[1])):
                call = sp(kids(n)[1]); l = strip(kids(n)[0], casts=False)
                if var_ref(l) and f.is_plain_local(var_ref(l)): add(call, 'local', var_ref(l))
                else:
                    r = f.rooted(kids(n)[0])
                    if r in ('param', 'global', 'static'): add(call, 'stored', None, target=show(kids(n)[0]), root=r)
                    else: add(call, 'other', None, target=show(kids(n)[0]), root=str(r))
            elif k == 'VarDecl' and n.get('init') and kids(n) and P.is_alloc_call(sp(kids(n)[-1])):
                if f.is_plain_local(n['id']): add(sp(kids(n)[-1]), 'local', n['id'])
                else: add(sp(kids(n)[-1]), 'stored', None, target=n.get('name', ''), root='static')
            elif k == 'ReturnStmt' and kids(n) and P.is_alloc_call(sp(kids(n)[0])):
                add(sp(kids(n)[0]), 'returned', None, target='return', root='return')
        for n in f.calls:
            cn = callee_name(n)
            if cn in P.alloc and id(n) not in claimed: add(n, 'other', None, target='(context)', root='?')
            for j in sorted(P.outalloc.get(cn, ())):
                args = kids(n)[1:]
                a = sp(args[j]) if j < len(args) else None
                if a is not None and a.get('kind') == 'UnaryOperator' and a.get('opcode') == '&':
                    t = sp(kids(a)[0])
                    if t is not None and var_ref(t) and f.is_plain_local(var_ref(t)):
                        self.sites.append(dict(call=n, kind='outparam', var=var_ref(t), allocator=cn, line=n['line'], argidx=j))
            for j in sorted(P.free.get(cn, ())):
                args = kids(n)[1:]
                a = args[j] if j < len(args) else None
                if a is None: continue
                r = f.rooted(a) if sp(a) is not None else None
                v, d = root_of(a)
                if r == 'param' or (r == 'paramvar'):
                    self.paramfrees.append(dict(line=n['line'], what=show(a), callee=cn, call=n))

    # ---- potential holders and relevant guards of a site
    def potential_holders(self, v0):
        H = {v0}
        changed = True
        while changed:
            changed = False
            for w, r, n in self.f.assigns:
                s = sp(r)
                if s is not None and var_ref(s) in H and w not in H and self.f.is_plain_local(w): H.add(w); changed = True
        return H

    def relevant_guards(self, site, PH):
        """guard keys occurring in conditions of statements whose subtree contains the allocation or mentions a potential holder"""
        keys = set()
        callid = id(site['call'])
        def mentions(s):
            for n in walk(s):
                if id(n) == callid or var_ref(n) in PH or n.get('kind') in ('ReturnStmt', 'GotoStmt'): return True
            return False
        def conds(e):
            for n in walk(e):
                t = atom_test(n) if n.get('kind') in ('BinaryOperator', 'DeclRefExpr', 'MemberExpr', 'ImplicitCastExpr', 'ParenExpr', 'UnaryOperator') else None
                if t:
                    k = gkey(t[0])
                    if k is None and subject_var(t[0]): k = ('v', subject_var(t[0]))
                    if k: keys.add(k)
        def visit(s):
            if s is None: return
            k = s.get('kind'); ch = s.get('inner') or []
            if k == 'IfStmt' and ch and ch[0] is not None:
                if any(c is not None and mentions(c) for c in ch[1:]): conds(ch[0])
            elif k in ('WhileStmt', 'DoStmt', 'ForStmt'):
                if mentions(s):
                    for c in ch:
                        if c is not None and not c.get('kind', '').endswith('Stmt'): conds(c)
            for c in ch:
                if c is not None: visit(c)
        visit(self.f.body)
        # only lvalues rooted at a variable of this activation (automatic locals, parameters), and no field whose address is taken
        f = self.f
        fields_addr = set()
        for n in walk(f.body):
            if n.get('kind') == 'UnaryOperator' and n.get('opcode') == '&' and kids(n):
                t = sp(kids(n)[0])
                while t is not None and t.get('kind') in ('MemberExpr', 'ArraySubscriptExpr'):
                    if t.get('kind') == 'MemberExpr': fields_addr.add(t.get('name'))
                    t = sp(kids(t)[0]) if kids(t) else None
        keys = set(k for k in keys if key_root(k) not in PH and f.is_plain_local(key_root(k)) and not (key_fields(k) & fields_addr))
        return keys

    def arm_releases(self, arm, PH):
        """does the statement `arm` contain a release (free / owner call / store / return) of a potential holder?"""
        if arm is None: return False
        f = self.f; P = self.P
        for n in walk(arm):
            k = n.get('kind')
            if k == 'CallExpr':
                cn = callee_name(n); args = kids(n)[1:]
                for j in set(P.free.get(cn, ())) | set(P.owner.get(cn, ())):
                    a = sp(args[j]) if j < len(args) else None
                    if a is not None and var_ref(a) in PH: return True
            elif k == 'BinaryOperator' and n.get('opcode') == '=':
                r = sp(kids(n)[1])
                if r is not None and var_ref(r) in PH and f.rooted(kids(n)[0]) in ('param', 'global', 'static'): return True
            elif k == 'ReturnStmt' and kids(n):
                r = sp(kids(n)[0])
                if r is not None and var_ref(r) in PH: return True
        return False

    # ---- run
    def analyse(self, site):
        f = self.f; P = self.P; g = self.g
        v0 = site['var']; PH = self.potential_holders(v0)
        R = self.relevant_guards(site, PH)
        Rroots = {}
        for k in R: Rroots.setdefault(key_root(k), set()).add(k)
        res = dict(leaks=set(), doubleFree=False, freeAfterHandover=False, lost=False, escapes=False, addrTaken=False, notUnderstood=bool(g.unknown),
                   freed=False, handed=False, nullChecked=False, widened=False)
        if any(v in f.addr_taken for v in PH):
            # the address of a holder goes somewhere: only fine when that is the out-parameter allocation itself
            for nd_ev in self.node_events:
                for ev in nd_ev:
                    if ev[0] == 'addr' and ev[1] in PH:
                        res['addrTaken'] = True
        # objects that borrow the caller's memory: `Create(h, .., caller's array, ..)` puts a pointer the caller owns into the
        # block; a later call that frees that path of the block frees the caller's array (flow-insensitive, so conservative)
        borrowed = set()
        for c in f.calls:
            cn = callee_name(c); args = kids(c)[1:]
            for dst, path, src in P.stores_path.get(cn, ()):
                if dst < len(args) and src < len(args):
                    a = sp(args[dst])
                    if a is not None and var_ref(a) in PH and f.rooted(args[src]) in ('param', 'paramvar') and var_ref(sp(args[src])) not in PH:
                        borrowed.add(path)
        res['freesBorrowed'] = False
        if borrowed:
            for c in f.calls:
                cn = callee_name(c); args = kids(c)[1:]
                for idx, path in P.frees_path.get(cn, ()):
                    a = sp(args[idx]) if idx < len(args) else None
                    if a is not None and var_ref(a) in PH and tuple(path) in borrowed: res['freesBorrowed'] = True
        arm_cache = {}
        def arm_rel(arm):
            if arm is None: return False
            if id(arm) not in arm_cache: arm_cache[id(arm)] = self.arm_releases(arm, PH)
            return arm_cache[id(arm)]

        # state: (status, holders, facts, bypass, unstable, killed)
        def set_fact(facts, k, val):
            d = dict(facts)
            if val is None: d.pop(k, None)
            else: d[k] = val
            return tuple(sorted(d.items(), key=repr))
        def kill(st, pred):
            status, holders, facts, bypass, ug, killed = st
            d = dict(facts); dead = [k for k in d if pred(k)]
            if not dead: return st
            for k in dead: d.pop(k)
            if status == 'L': killed = killed | frozenset(dead)
            return (status, holders, tuple(sorted(d.items(), key=repr)), bypass, ug, killed)
        def fact_from_rhs(facts, rhs):
            c = const_of(rhs)
            if c is not None: return ('eq', c)
            k = gkey(rhs)
            if k is not None: return dict(facts).get(k)
            return None

        def apply_events(i, st):
            """-> list of successor states after the node's events (empty: the path ended in a no-return call)"""
            for ev in self.node_events[i]:
                status, holders, facts, bypass, ug, killed = st
                t = ev[0]
                if t == 'unknown': res['notUnderstood'] = True; continue
                if t == 'addr':
                    _, vid, cond, incall = ev
                    if ('v', vid) in R: st = kill(st, lambda k: k == ('v', vid))
                    continue
                if t == 'modify':
                    tgt = strip(ev[1], casts=False); vid = var_ref(tgt)
                    if vid is not None and vid in holders:
                        holders = holders - {vid}
                        if status == 'L' and not holders: res['lost'] = True
                        st = (status, holders, facts, bypass, ug, killed)
                    st = self.kill_for_write(st, ev[1], kill)
                    continue
                if t in ('assign', 'declinit'):
                    if t == 'assign': lhs, rhs, cond = ev[1], ev[2], ev[3]; lv = var_ref(strip(lhs, casts=False))
                    else: lhs, rhs, cond = None, ev[2], False; lv = ev[1]
                    r = sp(rhs)
                    if r is site['call'] and site['kind'] == 'local':
                        if cond: res['notUnderstood'] = True
                        if status == 'L' and not (holders - {lv}): res['lost'] = True
                        st = ('L', frozenset([lv]), facts, '', False, frozenset()); continue
                    rv = var_ref(r) if r is not None else None
                    if rv is not None and rv in holders:
                        if lv is not None and f.is_plain_local(lv):
                            if lv not in holders: st = (status, holders | {lv}, facts, bypass, ug, killed)
                        else:
                            where = f.rooted(lhs) if lhs is not None else 'static'
                            if where in ('param', 'global', 'static'):
                                if status == 'L' and not cond: st = ('H', holders, facts, bypass, ug, killed); res['handed'] = True
                            elif status == 'L': res['escapes'] = True
                            st = self.kill_for_write(st, lhs, kill) if lhs is not None else st
                        continue
                    if lv is not None and lv in holders:
                        holders = holders - {lv}
                        if status == 'L' and not holders: res['lost'] = True
                        st = (status, holders, facts, bypass, ug, killed); continue
                    # facts
                    if lv is not None and ('v', lv) in R:
                        val = None if cond else fact_from_rhs(facts, rhs)
                        if val is None: st = kill(st, lambda k: k == ('v', lv))
                        else: st = (status, holders, set_fact(facts, ('v', lv), val), bypass, ug, killed)
                        # member paths rooted at the variable die with it
                        st = kill(st, lambda k: k[0] != 'v' and key_root(k) == lv)
                    elif lv is not None:
                        if lv in Rroots: st = kill(st, lambda k: k[0] != 'v' and key_root(k) == lv)
                    elif lhs is not None:
                        k0 = gkey(lhs)
                        st = self.kill_for_write(st, lhs, kill)
                        if k0 is not None and k0 in R and not cond:
                            val = fact_from_rhs(st[2], rhs)
                            if val is not None: st = (st[0], st[1], set_fact(st[2], k0, val), st[3], st[4], st[5])
                    continue
                if t == 'call':
                    call, cond = ev[1], ev[2]
                    cn = callee_name(call); args = kids(call)[1:]
                    if cn in P.noret and not cond: return []
                    if call is site['call'] and site['kind'] == 'outparam':
                        if status == 'L' and not (holders - {v0}): res['lost'] = True
                        st = ('L', frozenset([v0]), facts, '', False, frozenset())
                        status, holders, facts, bypass, ug, killed = st
                    else:
                        for j in P.free.get(cn, ()):
                            a = sp(args[j]) if j < len(args) else None
                            if a is not None and var_ref(a) in holders:
                                if status == 'L':
                                    if not cond: status = 'F'; res['freed'] = True
                                elif status == 'F': res['doubleFree'] = True
                                elif status == 'H': res['freeAfterHandover'] = True
                        for j in P.owner.get(cn, ()):
                            a = sp(args[j]) if j < len(args) else None
                            if a is not None and var_ref(a) in holders and status == 'L' and not cond:
                                status = 'H'; res['handed'] = True
                        st = (status, holders, facts, bypass, ug, killed)
                    # kills (allocators and releasers themselves write nothing but the block they return / take)
                    if cn in P.alloc or cn in P.free: continue
                    fw = P.fieldwrites.get(cn) if cn in P.by_name else (set('*') if (cn is None or any(passes_record(a) for a in args)) else set())
                    def dies(k):
                        if k[0] == 'v': return k[1] in f.addr_taken
                        if key_root(k) in f.addr_taken: return True
                        return '*' in fw or bool(key_fields(k) & fw)
                    st = kill(st, dies)
                    continue
            return [st]

        def assume(st, label):
            """-> state or None (infeasible)"""
            if label is None: return st
            c, truth, ifs = label
            status, holders, facts, bypass, ug, killed = st
            t = atom_test(c)
            if t is not None:
                x, K, iseq = t
                eq = iseq if truth else (not iseq)             # on this edge: x == K (eq) or x != K
                sv = subject_var(x)
                if sv is not None and sv in holders and K == ZERO:
                    res['nullChecked'] = True
                    if eq:
                        if status == 'L': status = 'Z'
                    else:
                        if status == 'Z': return None
                else:
                    k = gkey(x)
                    if k is None and sv is not None: k = ('v', sv)
                    if k is not None and k in R:
                        d = dict(facts); cur = d.get(k)
                        if eq:
                            if cur is not None:
                                if cur[0] == 'eq' and cur[1] != K: return None
                                if cur[0] == 'ne' and K in cur[1]: return None
                            d[k] = ('eq', K)
                        else:
                            if cur is not None and cur[0] == 'eq':
                                if cur[1] == K: return None
                            else:
                                s = set(cur[1]) if cur is not None else set()
                                s.add(K); d[k] = ('ne', tuple(sorted(s, key=repr)))
                        facts = tuple(sorted(d.items(), key=repr))
            if ifs is not None and status == 'L':
                ch = ifs.get('inner') or []
                other = (ch[2] if len(ch) > 2 else None) if truth else (ch[1] if len(ch) > 1 else None)
                if arm_rel(other):
                    bypass = clip(('' if not truth else 'else of: ') + show(ch[0]))
                    ug = False
                    for n in walk(ch[0]):
                        k = gkey(n)
                        if k is not None and k in killed: ug = True
            return (status, holders, facts, bypass, ug, killed)

        init = ('N', frozenset(), (), '', False, frozenset())
        seen = [set() for _ in g.nodes]; wide = [False] * len(g.nodes)
        work = [(0, init)]; seen[0].add(init)
        while work:
            i, st = work.pop()
            nd = g.nodes[i]
            if nd['kind'] == 'exit': continue
            if nd['kind'] == 'unknown': res['notUnderstood'] = True
            outs = apply_events(i, st)
            for o in outs:
                if nd['kind'] == 'ret':
                    status, holders, facts, bypass, ug, killed = o
                    r = sp(nd['e']) if nd['e'] is not None else None
                    if r is not None and var_ref(r) in holders and status == 'L': status = 'H'; res['handed'] = True
                    if status == 'L': res['leaks'].add(('return', nd['line'], nd['cause'], nd['ccall'], bypass, ug))
                    continue
                if nd['kind'] == 'end':
                    if o[0] == 'L': res['leaks'].add(('end', 0, '', '', o[3], o[4]))
                    continue
                for j, label in nd['succ']:
                    s2 = assume(o, label)
                    if s2 is None: continue
                    if wide[j]: s2 = (s2[0], s2[1], (), s2[3], s2[4], s2[5])
                    if s2 in seen[j]: continue
                    if len(seen[j]) >= STATE_CAP and not wide[j]:
                        wide[j] = True; res['widened'] = True
                        s2 = (s2[0], s2[1], (), s2[3], s2[4], s2[5])
                        if s2 in seen[j]: continue
                    seen[j].add(s2); work.append((j, s2))
        return res

    def kill_for_write(self, st, lhs, kill):
        """a store to `lhs`: member facts with a field of that name die; a store through a pointer / into an array kills the
        facts of variables whose address is taken; assignment of a whole struct kills every member fact"""
        f = self.f
        t = strip(lhs, casts=False) if lhs is not None else None
        if t is None: return st
        if var_ref(t):
            vid = var_ref(t)
            return kill(st, lambda k: key_root(k) == vid)
        names = set(); whole = is_record_type(t.get('dty', '') or t.get('ty', ''))
        u = t
        while u is not None and u.get('kind') in ('MemberExpr', 'ArraySubscriptExpr', 'ParenExpr', 'ImplicitCastExpr', 'CStyleCastExpr'):
            if u.get('kind') == 'MemberExpr': names.add(u.get('name')); break
            u = kids(u)[0] if kids(u) else None
        indirect = not names
        def dies(k):
            if k[0] == 'v': return indirect and k[1] in f.addr_taken
            if whole: return True
            if indirect: return key_root(k) in f.addr_taken
            return bool(key_fields(k) & names)
        return kill(st, dies)

# ----------------------------------------------------------------------------- text cross-check
def pp_regions(text):
    """line -> True when the line lies inside some #if / #ifdef / #ifndef ... #endif region"""
    depth = 0; out = {}
    for ln, line in enumerate(text.split('\n'), 1):
        s = line.lstrip()
        if re.match(r'#\s*(if|ifdef|ifndef)\b', s): depth += 1; out[ln] = True; continue
        if re.match(r'#\s*endif\b', s):
            out[ln] = True; depth = max(0, depth - 1); continue
        out[ln] = depth > 0
    return out

def text_tokens(text, names):
    """[(line, name)] of `name (` tokens in the comment-stripped text, preprocessor #define lines excluded"""
    t = X.strip_comments_keep_lines(text)
    rx = re.compile(r'\b(' + '|'.join(sorted(map(re.escape, names), key=len, reverse=True)) + r')\s*\(')
    out = []
    for ln, line in enumerate(t.split('\n'), 1):
        if re.match(r'\s*#\s*define\b', line): continue
        for m in rx.finditer(line): out.append((ln, m.group(1)))
    return out

# ----------------------------------------------------------------------------- whole run
def analyse(results, texts):
    """-> (records, problems, stats)"""
    P = Program(results)
    problems = []
    for a in MUST_HAVE_ALLOC:
        if a in P.by_name and a not in P.alloc: problems.append('allocator %s not derived' % a)
    recs = {}
    astlines = {}        # rel -> {line: count}  (max over configurations)
    for f in P.fns:
        if not (any(callee_name(c) in P.alloc or callee_name(c) in P.outalloc or callee_name(c) in P.free for c in f.calls)): continue
        SA = SiteAnalysis(P, f)
        text = texts[f.rel]
        per_line = {}
        for s in SA.sites:
            call = s['call']
            if s['kind'] != 'outparam': per_line[call['line']] = per_line.get(call['line'], 0) + 1
            if call['tl'] and s['kind'] != 'outparam' and text[call['off']:call['off'] + len(s['allocator'])] != s['allocator']:
                problems.append('%s:%d: location of the call of %s does not match the source text' % (f.rel, call['line'], s['allocator']))
            vname = f.vname.get(s['var'], '') if s['var'] else s.get('target', '')
            key = (f.rel, f.name, call['line'], call['off'], s['kind'] == 'outparam', vname)
            rec = dict(file=f.rel, func=f.name, line=call['line'], var=vname, allocator=s['allocator'], kind=s['kind'],
                       leaks=set(), doubleFree=False, freeAfterHandover=False, lost=False, escapes=False, addrTaken=False, notUnderstood=False,
                       freed=False, handed=False, nullChecked=False, widened=False, toGlobal=False, freesBorrowed=False)
            if s['kind'] in ('local', 'outparam'):
                r = SA.analyse(s)
                for k in ('doubleFree', 'freeAfterHandover', 'lost', 'escapes', 'addrTaken', 'notUnderstood', 'freed', 'handed', 'nullChecked', 'widened', 'freesBorrowed'): rec[k] = r[k]
                rec['leaks'] = set(r['leaks'])
                if s['kind'] == 'outparam':
                    # `&v` at the allocating call itself is the allocation, not an escape: recompute addrTaken without it
                    rec['addrTaken'] = addr_elsewhere(SA, s)
            elif s['kind'] == 'stored':
                rec['handed'] = True; rec['toGlobal'] = s.get('root') in ('global', 'static')
            elif s['kind'] == 'returned': rec['handed'] = True
            else: rec['notUnderstood'] = True
            old = recs.get(key)
            if old is None: recs[key] = rec
            else:                                       # second configuration: the worse verdict wins
                old['leaks'] |= rec['leaks']
                for k in ('doubleFree', 'freeAfterHandover', 'lost', 'escapes', 'addrTaken', 'notUnderstood', 'widened', 'toGlobal', 'freesBorrowed'): old[k] = old[k] or rec[k]
                for k in ('freed', 'handed', 'nullChecked'): old[k] = old[k] and rec[k]
                if old['kind'] != rec['kind']: old['kind'] = 'other'; old['notUnderstood'] = True
        for pf in SA.paramfrees:
            key = (f.rel, f.name, pf['line'], pf['call']['off'], 'pf', pf['what'])
            if key not in recs:
                recs[key] = dict(file=f.rel, func=f.name, line=pf['line'], var=pf['what'], allocator=pf['callee'], kind='paramfree',
                                 leaks=set(), doubleFree=False, freeAfterHandover=False, lost=False, escapes=False, addrTaken=False, notUnderstood=False,
                                 freed=True, handed=False, nullChecked=False, widened=False, toGlobal=False, freesBorrowed=False)
        al = astlines.setdefault(f.rel, {})
        cfgl = al.setdefault(f.ci, {})
        for ln, c in per_line.items(): cfgl[ln] = cfgl.get(ln, 0) + c
    # text cross-check
    names = set(P.alloc) | set(ALLOC_MACROS)
    ntext = 0; nast = 0
    for r in results:
        rel = r['rel']; text = texts[rel]
        toks = text_tokens(text, names)
        if not toks and not astlines.get(rel): continue
        decl_at = set()
        for c in r['cfgs']:
            for name, line in c['decls']:
                if name in names: decl_at.add((name, line))
        kept = []; used = set()
        for ln, nm in toks:                              # the name in a declaration / definition of the allocator is not a call
            if (nm, ln) in decl_at and (nm, ln) not in used: used.add((nm, ln)); continue
            kept.append((ln, nm))
        toks = kept
        per_cfg = astlines.get(rel, {})
        merged = {}
        for ci, d in per_cfg.items():
            for ln, c in d.items(): merged[ln] = max(merged.get(ln, 0), c)
        tl = {}
        for ln, nm in toks: tl[ln] = tl.get(ln, 0) + 1
        reg = pp_regions(text)
        for ln in sorted(set(tl) | set(merged)):
            a = merged.get(ln, 0); t = tl.get(ln, 0)
            nast += a; ntext += t
            if a == t: continue
            if a < t and reg.get(ln):
                for _ in range(t - a):
                    key = (rel, '(inactive)', ln, 0, 'in', '')
                    recs[key] = dict(file=rel, func='', line=ln, var='', allocator='', kind='inactive',
                                     leaks=set(), doubleFree=False, freeAfterHandover=False, lost=False, escapes=False, addrTaken=False, notUnderstood=False,
                                     freed=False, handed=False, nullChecked=False, widened=False, toGlobal=False, freesBorrowed=False)
                continue
            problems.append('%s:%d: %d allocator tokens in the text, %d allocation calls in the syntax tree' % (rel, ln, t, a))
    out = sorted(recs.values(), key=lambda x: (x['file'], x['line'], x['func'], x['kind'], x['var']))
    for r in out: r['leaks'] = sorted(r['leaks'])
    stats = dict(allocators=sorted(P.alloc - PRIM_ALLOC), outalloc={k: sorted(v) for k, v in P.outalloc.items()}, owners={k: sorted(v) for k, v in P.owner.items()},
                 free={k: sorted(v) for k, v in P.free.items()}, noret=sorted(P.noret - PRIM_NORETURN), ntext=ntext, nast=nast, nfuncs=len(P.fns))
    return out, problems, stats

def addr_elsewhere(SA, site):
    PH = SA.potential_holders(site['var'])
    for i, evs in enumerate(SA.node_events):
        for ev in evs:
            if ev[0] == 'addr' and ev[1] in PH:
                # is this `&v` the argument of the allocating call of an out-parameter site of the same variable?
                ok = False
                for e2 in evs:
                    if e2[0] == 'call':
                        cn = callee_name(e2[1]); args = kids(e2[1])[1:]
                        for j in SA.P.outalloc.get(cn, ()):
                            a = sp(args[j]) if j < len(args) else None
                            if a is not None and a.get('kind') == 'UnaryOperator' and a.get('opcode') == '&':
                                t = sp(kids(a)[0])
                                if t is not None and var_ref(t) == ev[1]: ok = True
                if not ok: return True
    return False

# ----------------------------------------------------------------------------- driver
def scan_results(repo):
    root = os.path.dirname(os.path.dirname(os.path.abspath(__file__)))
    cachedir = os.path.join(root, '.work', 'leakscan-cache'); os.makedirs(cachedir, exist_ok=True)
    srcs = sorted(glob.glob(os.path.join(repo, 'SRC', '*.c')))
    if not srcs: raise RuntimeError('no sources under ' + repo)
    hdrs = sorted(glob.glob(os.path.join(repo, 'SRC', '*.h'))) + sorted(glob.glob(os.path.join(repo, 'CBLAS', '*.h')))
    hh = hashlib.sha256()
    for h in hdrs:
        hh.update(os.path.basename(h).encode()); hh.update(open(h, 'rb').read())
    hh.update(open(os.path.abspath(X.__file__), 'rb').read()); hh.update(REDUCE_VERSION.encode())
    hbase = hh.hexdigest()
    incs = ['-I' + os.path.join(repo, 'SRC'), '-I' + os.path.join(repo, 'CBLAS')]
    jobs = []; keys = set(); texts = {}
    for s in srcs:
        rel = os.path.relpath(s, repo)
        raw = open(s, 'rb').read(); texts[rel] = raw.decode('latin1')
        k = hashlib.sha256((hbase + rel).encode() + raw).hexdigest()[:32]
        keys.add(k + '.json'); jobs.append((s, rel, incs, k, cachedir))
    results = [None] * len(jobs); miss = []
    for i, j in enumerate(jobs):                          # cached files are read here; only the others go to the pool
        cpath = os.path.join(cachedir, j[3] + '.json')
        if os.path.exists(cpath):
            try: results[i] = json.load(open(cpath)); continue
            except Exception: pass
        miss.append(i)
    if miss:
        with ProcessPoolExecutor(min(len(miss), os.cpu_count() or 4)) as ex:
            for i, r in zip(miss, ex.map(file_job, [jobs[i] for i in miss], chunksize=2)): results[i] = r
    others = [f for f in os.listdir(cachedir) if f.endswith('.json') and f not in keys]
    if len(others) > 800:
        others.sort(key=lambda f: os.path.getmtime(os.path.join(cachedir, f)))
        for f in others[:len(others) - 800]:
            try: os.unlink(os.path.join(cachedir, f))
            except OSError: pass
    return results, texts

REDUCE_VERSION = 'leakscan-reduce-1'      # bump when reduced_file / file_job change (the analysis itself is not cached)

LEAN_HEADER = '''/- GENERATED by tools/leakscan.py from the working tree of the SuperLU repository on every `./check run C19`.
   Do not edit.  One record per allocation call of SRC/ (and per release of something reached from a parameter); see the
   header of tools/leakscan.py for the exact rules.  Input of `Slu.C19.no_local_block_escapes_unreleased`. -/
namespace Slu.Gen

/-- a function exit that some path reaches with the block still allocated and still owned by the function -/
structure LeakExit where
  exit : String          -- return | end (falls off the end of the function)
  line : Nat             -- line of the `return` (0 for end); informative only
  cause : String         -- condition of the innermost `if` arm that contains the `return`
  causeCall : String     -- first function called in that condition ("" if none)
  bypass : String        -- condition of the last `if` on the path whose arm NOT taken released the block ("" if none)
  unstable : Bool        -- that condition mentions a guard that was known after the allocation and may have changed since
deriving Repr, DecidableEq

structure LeakSite where
  file : String          -- translation unit, relative to the repository
  func : String          -- enclosing function
  line : Nat
  var : String           -- the local variable that receives the block (kind local / outparam); the target otherwise
  allocator : String     -- the allocating function called (for paramfree: the releasing function)
  kind : String          -- local | outparam | stored | returned | other | inactive | paramfree
  releasedOnAllPaths : Bool   -- no path reaches an exit with the block live, and the last holder is never overwritten
  freed : Bool           -- some path frees it here
  handedOver : Bool      -- some path stores it into the caller's objects / returns it / gives it to an owner
  nullChecked : Bool     -- the result is tested against NULL
  unstableGuard : Bool   -- some leaking path skipped a release whose guard may have changed since the allocation
  doubleFree : Bool      -- some path frees it twice
  freeAfterHandover : Bool
  lost : Bool            -- the last variable holding it is overwritten while it is live
  escapes : Bool         -- its address is also stored into memory the scanner does not follow
  addrTaken : Bool       -- the address of a variable holding it is taken
  notUnderstood : Bool
  toGlobal : Bool        -- stored into an object with static storage duration
  freesParam : Bool      -- (paramfree) the routine releases something reached from one of its parameters
  freesBorrowed : Bool   -- the block was given pointers the caller owns (Create_*(block, .., caller's arrays)) and is passed to a routine that frees them
  leaks : List LeakExit
deriving Repr, DecidableEq

'''

def emit(gen, ok, msg, stats, recs):
    b = lambda v: 'true' if v else 'false'
    out = [LEAN_HEADER]
    out.append('/-- false when the translator failed or its self check did not pass; then the table below is not to be trusted -/\n')
    out.append('def leakOk : Bool := %s\n' % b(ok))
    out.append('def leakMessage : String := %s\n' % lean_str(msg))
    out.append('/-- files of SRC/ scanned -/\ndef leakFiles : Nat := %d\n' % stats.get('nfiles', 0))
    out.append('/-- function definitions scanned -/\ndef leakFunctions : Nat := %d\n' % stats.get('nfuncs', 0))
    out.append('/-- allocation calls in the syntax trees (= allocator tokens of the text outside declarations and inactive code) -/\ndef leakAllocCalls : Nat := %d\n' % stats.get('nast', 0))
    out.append('/-- the derived allocating functions -/\ndef leakAllocators : List String := [%s]\n' % ', '.join(lean_str(a) for a in stats.get('allocators', [])))
    out.append('/-- functions that store a fresh block through a parameter -/\ndef leakOutAllocators : List String := [%s]\n' % ', '.join(lean_str(a) for a in sorted(stats.get('outalloc', {}))))
    out.append('/-- functions that take ownership of a pointer argument -/\ndef leakOwners : List String := [%s]\n\n' % ', '.join(lean_str(a) for a in sorted(stats.get('owners', {}))))
    out.append('def leakSites : List LeakSite := [\n')
    rows = []
    for r in recs:
        lk = ', '.join('{ exit := %s, line := %d, cause := %s, causeCall := %s, bypass := %s, unstable := %s }' % (
            lean_str(l[0]), l[1], lean_str(l[2]), lean_str(l[3]), lean_str(l[4]), b(l[5])) for l in r['leaks'])
        rows.append('  { file := %s, func := %s, line := %d, var := %s, allocator := %s, kind := %s,\n'
                    '    releasedOnAllPaths := %s, freed := %s, handedOver := %s, nullChecked := %s, unstableGuard := %s, doubleFree := %s,\n'
                    '    freeAfterHandover := %s, lost := %s, escapes := %s, addrTaken := %s, notUnderstood := %s, toGlobal := %s, freesParam := %s, freesBorrowed := %s,\n'
                    '    leaks := [%s] }' % (
            lean_str(r['file']), lean_str(r['func']), r['line'], lean_str(r['var']), lean_str(r['allocator']), lean_str(r['kind']),
            b(not r['leaks'] and not r['lost'] and r['kind'] not in ('other', 'inactive')), b(r['freed']), b(r['handed']), b(r['nullChecked']),
            b(any(l[5] for l in r['leaks'])), b(r['doubleFree']), b(r['freeAfterHandover']), b(r['lost']), b(r['escapes']), b(r['addrTaken']),
            b(r['notUnderstood']), b(r['toGlobal']), b(r['kind'] == 'paramfree'), b(r['freesBorrowed']), lk))
    out.append(',\n'.join(rows))
    out.append('\n]\n\nend Slu.Gen\n')
    text = ''.join(out)
    os.makedirs(gen, exist_ok=True)
    path = os.path.join(gen, 'LeakSites.lean')
    if os.path.exists(path) and open(path).read() == text: return
    tmp = path + '.tmp%d' % os.getpid()
    open(tmp, 'w').write(text); os.replace(tmp, path)

def scan(repo, gen, want_json=False):
    results, texts = scan_results(repo)
    recs, problems, stats = analyse(results, texts)
    stats['nfiles'] = len(results)
    have = {}
    for r in recs:
        if r['kind'] in ('local', 'outparam'): have[r['func']] = have.get(r['func'], 0) + 1
    for fn in MUST_HAVE_FUNCS:
        if not have.get(fn): problems.append('no analysed allocation site in %s' % fn)
    nan = sum(have.values())
    if nan < MIN_ANALYSED: problems.append('only %d analysed sites (expected at least %d)' % (nan, MIN_ANALYSED))
    for a in MUST_HAVE_ALLOC:
        if a not in stats['allocators']: problems.append('allocator %s not derived' % a)
    try: st = selftest(quiet=True)                       # the built-in self test runs with every scan
    except Exception as e: st = ['exception: %s' % str(e)[:200]]
    if st: problems.append('self test failed: ' + '; '.join(st)[:400])
    ok = not problems
    emit(gen, ok, 'ok' if ok else '; '.join(problems)[:900], stats, recs)
    if want_json: print(json.dumps(recs, indent=1))
    return recs, problems, stats

def site_bad(r):
    return bool(r['leaks'] or r['doubleFree'] or r['freeAfterHandover'] or r['lost'] or r['escapes'] or r['addrTaken'] or r['notUnderstood'] or r['toGlobal'] or r['freesBorrowed'])

def main():
    a = [x for x in sys.argv[1:] if not x.startswith('--')]
    if '--selftest' in sys.argv: return selftest()
    if len(a) < 2:
        print(__doc__); return 2
    repo, gen = a[0], a[1]
    try:
        recs, problems, stats = scan(repo, gen, '--json' in sys.argv)
    except Exception as e:
        msg = 'leakscan translator failed: %s' % (str(e)[:500])
        try: emit(gen, False, msg, {}, [])
        except Exception: pass
        print(msg, file=sys.stderr)
        return 1
    if '--report' in sys.argv:
        for r in recs:
            if r['kind'] in ('paramfree', 'inactive') or not site_bad(r): continue
            fl = [k for k in ('doubleFree', 'freeAfterHandover', 'lost', 'escapes', 'addrTaken', 'notUnderstood', 'toGlobal', 'freesBorrowed', 'widened') if r[k]]
            print('%s:%d %s %s %s = %s %s' % (r['file'], r['line'], r['func'], r['kind'], r['var'], r['allocator'], ' '.join(fl)))
            for l in r['leaks']: print('     leak at %s line %d cause [%s] call [%s] bypass [%s]%s' % (l[0], l[1], l[2], l[3], l[4], ' UNSTABLE' if l[5] else ''))
    if '--json' not in sys.argv:
        k = {}
        for r in recs: k[r['kind']] = k.get(r['kind'], 0) + 1
        print('leakscan: %d files, %d functions, %d allocation calls; records: %s; %d sites with a possible leak / not understood' % (
            stats['nfiles'], stats['nfuncs'], stats['nast'], ', '.join('%s %d' % kv for kv in sorted(k.items())),
            sum(1 for r in recs if r['kind'] not in ('paramfree', 'inactive') and site_bad(r))))
    if problems:
        print('leakscan self check FAILED: ' + '; '.join(problems), file=sys.stderr)
        return 1
    return 0

# ----------------------------------------------------------------------------- self test
SELFTEST_PRE = r"""
typedef unsigned long size_t;
extern void *malloc(size_t); extern void free(void *); extern void exit(int);
typedef struct { int t; void *Store; int *perm; } Mat;
extern void superlu_abort_and_exit(char *);
#define ABORT(m) { char msg[8]; superlu_abort_and_exit(msg); }
void *superlu_malloc(size_t n) { void *buf; buf = (void *) malloc(n); return (buf); }
void superlu_free(void *a) { free(a); }
#define SUPERLU_MALLOC(n) superlu_malloc(n)
#define SUPERLU_FREE(a) superlu_free(a)
int *intMalloc(int n) { int *buf; buf = (int *) SUPERLU_MALLOC(n * sizeof(int)); if (!buf) { ABORT("x"); } return (buf); }
extern int pivot(int j, int *usepr, int *perm);
extern int work(int *p, int n);
void Create_Mat(Mat *A, int t, int *perm) { A->t = t; A->perm = perm; }
void Destroy_Mat(Mat *A) { SUPERLU_FREE(A->perm); }
void set_t(Mat *A) { A->t = 0; }
void Destroy_Store(Mat *A) { SUPERLU_FREE(A->Store); }
void out_alloc(int n, int **res) { *res = intMalloc(n); }
"""
SELFTEST_C = SELFTEST_PRE + r"""
int usepr_bug(int fact, int m, int *perm_r) {                  /* the guard of the free goes to pivot() by address */
    int *iperm_r = 0; int usepr, k;
    usepr = (fact == 3);
    if (usepr) { iperm_r = intMalloc(m); }
    for (k = 0; k < m; k++) pivot(k, &usepr, perm_r);
    if (usepr) SUPERLU_FREE(iperm_r);
    return 0;
}
int flag_ok(int fact, int m, int *perm_r) {                    /* the flag idiom of [sdcz]gstrf */
    int *iperm_r = 0; int usepr, allocated = 0, k;
    usepr = (fact == 3);
    if (usepr) { iperm_r = intMalloc(m); allocated = 1; }
    for (k = 0; k < m; k++) pivot(k, &usepr, perm_r);
    if (allocated) SUPERLU_FREE(iperm_r);
    return 0;
}
int same_guard_ok(int x, int m) {                              /* x is not written in between */
    int *p;
    if (x) p = intMalloc(m);
    work(&m, m);
    if (x) SUPERLU_FREE(p);
    return 0;
}
int guard_written(int x, int m) {                              /* x is written in between */
    int *p;
    if (x) p = intMalloc(m);
    x = work(&m, m);
    if (x) SUPERLU_FREE(p);
    return 0;
}
int early_return(int m, int *info) {                           /* the error return skips the free */
    int *p = intMalloc(m);
    if ((*info = work(p, m)) != 0) return 1;
    SUPERLU_FREE(p);
    return 0;
}
int goto_cleanup_ok(int m) {
    int *p = intMalloc(m), *q = intMalloc(m); int r = 0;
    if (work(p, m)) { r = 1; goto done; }
    r = work(q, m);
done:
    SUPERLU_FREE(p); SUPERLU_FREE(q);
    return r;
}
int goto_skips(int m) {
    int *p = intMalloc(m);
    if (work(p, m)) goto out;
    SUPERLU_FREE(p);
out:
    return 0;
}
int loop_ok(int m) {
    int i; int *p;
    for (i = 0; i < m; i++) { p = intMalloc(i + 1); work(p, i); SUPERLU_FREE(p); }
    return 0;
}
int loop_lost(int m) {                                         /* allocated again while the previous block is live */
    int i; int *p = 0;
    for (i = 0; i < m; i++) { p = intMalloc(i + 1); work(p, i); }
    SUPERLU_FREE(p);
    return 0;
}
int null_paths_ok(int m) {
    int *p, *q;
    if ( !(p = (int *) SUPERLU_MALLOC(m)) ) ABORT("p");
    q = (int *) SUPERLU_MALLOC(m);
    if (q == 0) { SUPERLU_FREE(p); return -1; }
    SUPERLU_FREE(p); SUPERLU_FREE(q);
    return 0;
}
int *handover_ok(int m, Mat *A, int **out) {
    int *a = intMalloc(m), *b = intMalloc(m), *c = intMalloc(m), *d = intMalloc(m), *e;
    A->Store = a; *out = b; Create_Mat(A, 1, c);
    e = d;
    return e;
}
int double_free(int m) {
    int *p = intMalloc(m);
    SUPERLU_FREE(p);
    if (m > 3) SUPERLU_FREE(p);
    return 0;
}
int free_after_handover(int m, Mat *A) {
    int *p = intMalloc(m);
    A->perm = p;
    if (work(p, m)) SUPERLU_FREE(p);
    return 0;
}
void frees_param(int *w, Mat *A) { SUPERLU_FREE(w); SUPERLU_FREE(A->Store); }
int outparam_ok(int m) { int *p; out_alloc(m, &p); work(p, m); SUPERLU_FREE(p); return 0; }
int outparam_leak(int m) { int *p; out_alloc(m, &p); if (work(p, m)) return 1; SUPERLU_FREE(p); return 0; }
int alias_ok(int m) { int *p = intMalloc(m), *q; q = p; SUPERLU_FREE(q); return 0; }
int member_guard_ok(Mat *A, int m) {
    int *p = 0;
    if (A->t == 1) p = intMalloc(m);
    work(p, m);
    if (A->t == 1) SUPERLU_FREE(p);
    return 0;
}
int member_guard_written(Mat *A, Mat *B, int m) {              /* set_t may write the field */
    int *p = 0;
    if (A->t == 1) p = intMalloc(m);
    set_t(B);
    if (A->t == 1) SUPERLU_FREE(p);
    return 0;
}
int not_understood(int m, int **tab) { int *p = intMalloc(m); int *loc[2]; loc[0] = p; work(loc[0], m); return 0; }
int stored_direct(Mat *A, int m) { A->perm = intMalloc(m); if (!A->perm) return 1; return 0; }
int conditional_free_in_expr(int m) { int *p = intMalloc(m); (m > 2) ? SUPERLU_FREE(p) : (void) 0; return 0; }
void falls_off_end(int m) { int *p = intMalloc(m); if (m > 2) SUPERLU_FREE(p); }
int borrow_ok(Mat *A, int *perm) { Mat *AA = (Mat *) SUPERLU_MALLOC(sizeof(Mat)); Create_Mat(AA, 1, perm); Destroy_Store(AA); SUPERLU_FREE(AA); return 0; }
int borrow_freed(Mat *A, int *perm) { Mat *AA = (Mat *) SUPERLU_MALLOC(sizeof(Mat)); Create_Mat(AA, 1, A->perm); Destroy_Mat(AA); SUPERLU_FREE(AA); return 0; }
#ifdef NOPE
int hidden(int m) { int *p = intMalloc(m); return 0; }
#endif
"""
def run_snippet(code, name='dtest.c'):
    d = tempfile.mkdtemp(prefix='leakst')
    try:
        src = os.path.join(d, name); open(src, 'w').write(code)
        res = file_job((src, name, [], 'k', None))
        return analyse([res], {name: code})
    finally:
        shutil.rmtree(d, ignore_errors=True)

def selftest(quiet=False):
    recs, problems, stats = run_snippet(SELFTEST_C)
    bad = list(problems)
    by = {}
    for r in recs: by.setdefault(r['func'], []).append(r)
    def site(func, var, kind=None):
        for r in by.get(func, []):
            if r['var'] == var and (kind is None or r['kind'] == kind): return r
        bad.append('%s: no record for %s' % (func, var)); return None
    def clean(func, var, kind='local'):
        r = site(func, var, kind)
        if r is not None and site_bad(r): bad.append('%s.%s: expected clean, got leaks=%s flags=%s' % (func, var, r['leaks'], [k for k in r if r[k] is True]))
    def leaks(func, var, expect, kind='local', **flags):
        r = site(func, var, kind)
        if r is None: return
        got = sorted((l[0], l[2], l[3], l[4], l[5]) for l in r['leaks'])
        if got != sorted(expect): bad.append('%s.%s: leaks %s, expected %s' % (func, var, got, sorted(expect)))
        for k, v in flags.items():
            if r[k] != v: bad.append('%s.%s: %s = %s, expected %s' % (func, var, k, r[k], v))
    leaks('usepr_bug', 'iperm_r', [('return', '', '', 'usepr', True)])
    clean('flag_ok', 'iperm_r')
    clean('same_guard_ok', 'p')
    leaks('guard_written', 'p', [('return', '', '', 'x', True)])
    leaks('early_return', 'p', [('return', '*info = work(p, m) != 0', 'work', '', False)])
    clean('goto_cleanup_ok', 'p'); clean('goto_cleanup_ok', 'q')
    leaks('goto_skips', 'p', [('return', '', '', '', False)])
    clean('loop_ok', 'p')
    leaks('loop_lost', 'p', [], lost=True)
    clean('null_paths_ok', 'p'); clean('null_paths_ok', 'q')
    for v in 'abcd': clean('handover_ok', v)
    leaks('double_free', 'p', [], doubleFree=True)
    leaks('free_after_handover', 'p', [], freeAfterHandover=True)
    clean('outparam_ok', 'p', 'outparam')
    leaks('outparam_leak', 'p', [('return', 'work(p, m)', 'work', '', False)], kind='outparam')
    clean('alias_ok', 'p')
    clean('member_guard_ok', 'p')
    leaks('member_guard_written', 'p', [('return', '', '', 'A->t == 1', True)])
    leaks('not_understood', 'p', [('return', '', '', '', False)], escapes=True)
    leaks('conditional_free_in_expr', 'p', [('return', '', '', '', False)])
    clean('borrow_ok', 'AA')
    leaks('borrow_freed', 'AA', [], freesBorrowed=True)
    leaks('falls_off_end', 'p', [('end', '', '', 'm > 2', False)])
    r = site('stored_direct', 'A->perm', 'stored')
    if r is not None and site_bad(r): bad.append('stored_direct: expected handed over at birth')
    pf = sorted(r['var'] for r in by.get('frees_param', []) if r['kind'] == 'paramfree')
    if pf != ['A->Store', 'w']: bad.append('frees_param: paramfree records %s' % pf)
    if not any(r['kind'] == 'paramfree' and r['func'] == 'Destroy_Mat' for r in recs): bad.append('Destroy_Mat: no paramfree record')
    if sum(1 for r in recs if r['kind'] == 'inactive') != 1: bad.append('the allocation inside #ifdef NOPE is not listed as inactive')
    for a in ('superlu_malloc', 'intMalloc'):
        if a not in stats['allocators']: bad.append('allocator %s not derived' % a)
    if 'out_alloc' not in stats['outalloc']: bad.append('out_alloc not derived as an out-parameter allocator')
    if stats['owners'].get('Create_Mat') != [2]: bad.append('owners of Create_Mat: %s' % stats['owners'].get('Create_Mat'))
    if stats['free'].get('superlu_free') != [0]: bad.append('superlu_free not a releaser')
    # an allocation the text does not show (hidden in a macro) must fail the text / syntax-tree cross-check
    t2 = SELFTEST_PRE + '#define GET(n) intMalloc(n)\nint f(int m) { int *p = GET(m); SUPERLU_FREE(p); return 0; }\n'
    _, p2, _ = run_snippet(t2, 'dtest2.c')
    if not any('in the text' in x for x in p2): bad.append('allocation hidden in a macro not noticed by the cross-check')
    if quiet: return bad
    if bad:
        print('leakscan selftest FAILED:\n  ' + '\n  '.join(bad)); return 1
    print('leakscan selftest ok (%d records)' % len(recs)); return 0

if __name__ == "__main__":
    sys.exit(main())
