#!/usr/bin/env python3
"""tools/seedrun.py <patch.diff> <Cxx> [<Cyy> ...] [--tier quick|thorough] [--seed N]
Runs the registered checks of the given properties against a scratch worktree of /repo with the
patch applied (VERIF_REPO), prints the verdict lines, and removes the scratch worktree.
The checks run inside a scratch COPY of /verif (the translators rewrite lean/Slu/Gen/ from the tree
they are pointed at, and evidence/replay files are written): nothing in /verif itself is touched,
so any number of these runs can go on next to ordinary work."""
import sys, os, subprocess, shutil
ROOT = os.path.dirname(os.path.dirname(os.path.abspath(__file__)))
args = sys.argv[1:]
tier = 'quick'; seed = os.environ.get('VERIF_SEED', '1')
if '--tier' in args: i = args.index('--tier'); tier = args[i+1]; del args[i:i+2]
if '--seed' in args: i = args.index('--seed'); seed = args[i+1]; del args[i:i+2]
fams = []
while '--fam' in args: i = args.index('--fam'); fams.append(args[i+1].split()); del args[i:i+2]   # --fam "ilu 20000 1 asan ty=d": ./check fam ... on the patched tree
patch = os.path.abspath(args[0]); props = args[1:]
wt = '/tmp/seedrepo-%d' % os.getpid()
vc = '/tmp/seedverif-%d' % os.getpid()
subprocess.run(['git', '-C', '/repo', 'worktree', 'add', '--detach', '-q', wt], check=True)
try:
    subprocess.run(['rsync', '-a', '--exclude', '.git', '--exclude', 'replays', '--exclude', '.work/tree-*', '--exclude', '.work/cap',
                    '--exclude', '.work/seed-evidence', '--exclude', 'seeded', ROOT + '/', vc + '/'], check=True)
    # files that exist in /repo's working tree but are not tracked (generated config header)
    for f in ('SRC/superlu_config.h',):
        if os.path.exists('/repo/' + f) and not os.path.exists(os.path.join(wt, f)): shutil.copy('/repo/' + f, os.path.join(wt, f))
    r = subprocess.run(['git', '-C', wt, 'apply', patch], capture_output=True, text=True)
    if r.returncode: print('PATCH DOES NOT APPLY:', r.stderr); sys.exit(2)
    env = dict(os.environ, VERIF_REPO=wt, VERIF_SEED=seed, VERIF_EVIDENCE_DIR=os.path.join(vc, '.work', 'seed-evidence'))
    for fa in fams:
        r = subprocess.run([os.path.join(vc, 'check'), 'fam'] + fa, capture_output=True, text=True, env=env, cwd=vc)
        print('== fam %s exit=%d' % (' '.join(fa), r.returncode)); print(r.stdout[-3000:])
    for p in props:
        r = subprocess.run([os.path.join(vc, 'check'), 'run', p, '--tier', tier], capture_output=True, text=True, env=env, cwd=vc)
        lines = [l for l in r.stdout.split('\n') if l.startswith(('VIOLATION', 'KNOWN-FINDING', p))]
        print('== %s exit=%d' % (p, r.returncode)); print('\n'.join(l[:300] for l in lines))
        for l in lines:
            if l.startswith('VIOLATION'):
                rp = l.split('replay=')[1].split()[0]
                try:
                    import json; d = json.load(open(os.path.join(vc, rp))); print('   ->', str(d.get('message') or d.get('broken'))[:300])
                except Exception as e: pass
finally:
    subprocess.run(['git', '-C', '/repo', 'worktree', 'remove', '--force', wt])
    shutil.rmtree(vc, ignore_errors=True)
