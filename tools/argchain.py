#!/usr/bin/env python3
"""tools/argchain.py <repo> <lean/Slu/Gen dir>   —   C18 translator (DESIGN.md section 4).

For each driver / computational routine x precision it takes the clang-14 JSON AST of the function,
symbolically executes the statements from the top of the body down to the argument-screening exit

        if (*info != 0) { ...; input_error(name, &i); return; }

and emits lean/Slu/Gen/ArgChains.lean (core Lean only):

  * `Args`: one Int field per scalar fact the chains read, named after the C expression
    (`A->nrow` -> `A_nrow`, `Bstore->lda` with `Bstore = B->Store` -> `B_Store_lda`,
    first character of a `char*` argument -> `<arg>_ch`, results of loops the translator does not
    interpret -> opaque inputs `<var>_<arrays read>`, e.g. `rcmin_R`: sign of the value);
  * `<fn>_<local>`: the boolean / integer locals (nofact, notran, rowequ, colequ, onenrm ...) as defined
    in the C code;
  * `check_<fn> : Args -> Int`: the value of the info variable when the screening exit is reached,
    a literal translation of the if / else-if chain (sequenced tests become `let`s);
  * `errparam_<fn>`: the number handed to input_error on the error path;
  * `prewrites_<fn>` (caller objects written before the screening exit), `precalls_<fn>` (functions
    called before it), `errexit_<fn>` (anything on the error path besides input_error + return).

Anything that cannot be translated becomes an explicit opaque input named after the C expression,
or makes the translation of that routine FAIL: the script then exits non-zero, and the routine's
`check_` is emitted as the impossible value 1 so that its theorems in SluProofs/Props/C18.lean stop
checking (a broken obligation) while the driver still builds and the hand-written spec still judges
the implementation.

python3 stdlib only.  Results are cached under <verif>/.work/argchain-cache keyed by the content hash
of the C file, SRC/*.h and this script.
"""
import sys, os, re, json, hashlib, subprocess, glob
from concurrent.futures import ThreadPoolExecutor

PRECS = 'sdcz'
ROUTINES = [  # (generic name, file pattern, function pattern)
    ('gssv', '{p}gssv.c', '{p}gssv'), ('gssvx', '{p}gssvx.c', '{p}gssvx'), ('gsisx', '{p}gsisx.c', '{p}gsisx'),
    ('gstrs', '{p}gstrs.c', '{p}gstrs'), ('gsrfs', '{p}gsrfs.c', '{p}gsrfs'), ('gscon', '{p}gscon.c', '{p}gscon'),
    ('gsequ', '{p}gsequ.c', '{p}gsequ'), ('sp_trsv', '{p}sp_blas2.c', 'sp_{p}trsv'), ('sp_gemv', '{p}sp_blas2.c', 'sp_{p}gemv'),
]
# Fields always present in Args (so that the hand-written spec keeps compiling when a test disappears
# from the source); anything else the chains read is appended.
BASE_FIELDS = (
    ['options_Fact', 'options_Trans', 'options_Equil', 'trans', 'lwork', 'incx', 'incy',
     'equed_ch', 'norm_ch', 'uplo_ch', 'trans_ch', 'diag_ch', 'rcmin_R', 'rcmin_C', 'B_Store_lda', 'X_Store_lda'] +
    ['%s_%s' % (m, f) for m in 'ALUBX' for f in ('nrow', 'ncol', 'Stype', 'Dtype', 'Mtype')])
FLOAT_T = {'double', 'float', 'doublecomplex', 'singlecomplex', 'flops_t'}

class Fail(Exception):
    pass

# ------------------------------------------------------------------------------------ AST access
def clang_ast(repo, cfile, fn):
    r = subprocess.run(['clang-14', '-fsyntax-only', '-w', '-Xclang', '-ast-dump=json', '-Xclang', '-ast-dump-filter=' + fn,
                        '-I' + os.path.join(repo, 'SRC'), cfile], capture_output=True, text=True)
    if r.returncode != 0:
        raise Fail('clang-14 failed on %s: %s' % (cfile, r.stderr[-400:]))
    s = r.stdout; dec = json.JSONDecoder(); i = 0; n = len(s)
    while i < n:
        while i < n and s[i].isspace(): i += 1
        if i >= n: break
        o, i = dec.raw_decode(s, i)
        if o.get('kind') == 'FunctionDecl' and o.get('name') == fn and any(c.get('kind') == 'CompoundStmt' for c in o.get('inner', [])):
            return slim(o)
    raise Fail('definition of %s not found in %s' % (fn, cfile))

KEEP = ('kind', 'name', 'opcode', 'value', 'isArrow', 'castKind', 'isPostfix')
def slim(n):
    """keep only what the translator reads (the cache stays small)"""
    o = {k: n[k] for k in KEEP if k in n}
    if 'type' in n: o['type'] = n['type'].get('qualType', '')
    if 'referencedDecl' in n: o['ref'] = [n['referencedDecl'].get('kind'), n['referencedDecl'].get('name')]
    line = n.get('range', {}).get('begin', {}).get('line') or n.get('loc', {}).get('line')
    if line: o['line'] = line
    if 'inner' in n: o['inner'] = [slim(c) for c in n['inner']]
    return o

def enums(repo, only=None):
    """name -> value of every enumerator declared in SRC/*.h (simple `typedef enum {..} t;` lists)"""
    out = {}
    for h in sorted(glob.glob(os.path.join(repo, 'SRC', only or '*.h'))):
        txt = re.sub(r'/\*.*?\*/', ' ', open(h, errors='replace').read(), flags=re.S)
        txt = re.sub(r'//[^\n]*', ' ', txt)
        for m in re.finditer(r'\benum\b[^{;]*\{([^}]*)\}', txt):
            v = -1
            for item in m.group(1).split(','):
                item = item.strip()
                if not item: continue
                mm = re.match(r'^(\w+)\s*(?:=\s*(-?\w+))?$', item)
                if not mm: continue
                if mm.group(2) is not None:
                    try: v = int(mm.group(2), 0)
                    except ValueError: v = out.get(mm.group(2), v + 1)
                else: v += 1
                out.setdefault(mm.group(1), v)
    return out

# ------------------------------------------------------------------------------------ symbolic values
# ('int',k) ('enum',name) ('fld',name) ('ptr',path) ('str',s) ('opq',name,kind) ('loc',name,kind) ('var',name)
# ('bin',op,x,y) ('not',x) ('neg',x) ('ite',c,x,y) ('strncmp',path,ch) ('let',[(name,val)],body) ('true',) ('false',)
CMP = {'==': '=', '!=': '≠', '<': '<', '<=': '≤', '>': '>', '>=': '≥'}
def kind(v):
    t = v[0]
    if t in ('int', 'enum', 'fld', 'var', 'neg', 'strncmp'): return 'I'
    if t in ('true', 'false', 'not'): return 'B'
    if t == 'ptr': return 'P'
    if t == 'str': return 'S'
    if t in ('opq', 'loc'): return v[2]
    if t == 'bin': return 'B' if (v[1] in CMP or v[1] in ('&&', '||')) else kind(v[2])
    if t == 'ite': return 'B' if 'B' in (kind(v[2]), kind(v[3])) else kind(v[2])
    if t == 'cond': return 'I'
    if t == 'let': return kind(v[2])
    raise Fail('kind of %r' % (v,))
def atomic(v): return v[0] in ('int', 'enum', 'fld', 'var', 'true', 'false', 'opq', 'loc', 'ptr', 'str')

def sanitize(s):
    s = re.sub(r'->', '_', s); s = re.sub(r'[^A-Za-z0-9_]+', '_', s).strip('_')
    return s or 'x'

class Tr:
    def __init__(self, fn, enumv):
        self.fn = fn; self.enumv = enumv
        self.defs = []          # (name, kind, value)
        self.defver = {}
        self.fields = []        # Args fields read, in order of first use
        self.prewrites = []; self.precalls = []; self.errexit = []
        self.nlet = 0
        self.enums_used = []
        self.info_key = None    # '$*info' (output argument) or '$info' (local)

    # -------------------------------------------------------------- helpers
    def fld(self, name):
        return ('fld', name)
    def opq(self, name, k):
        return ('opq', sanitize(name), k)
    def collect(self, v, fields, locs, enums_):
        """fields of Args, local definitions and enumerators an emitted expression depends on"""
        t = v[0]
        if t == 'fld' or (t == 'opq' and v[2] != 'P'):
            if v[1] not in fields: fields.append(v[1])
        elif t == 'enum':
            if v[1] not in enums_: enums_.append(v[1])
        elif t == 'loc':
            if v[1] not in locs:
                for name, kd, val in self.defs:
                    if name == v[1]: self.collect(val, fields, locs, enums_)
                locs.append(v[1])          # after its dependencies: definition order
        elif t == 'let':
            for nm, val in v[1]: self.collect(val, fields, locs, enums_)
            self.collect(v[2], fields, locs, enums_)
        else:
            for x in v[1:]:
                if isinstance(x, tuple): self.collect(x, fields, locs, enums_)
    def tobool(self, v):
        k = kind(v)
        if k == 'B': return v
        if v[0] == 'int': return ('true',) if v[1] != 0 else ('false',)
        if v[0] == 'strncmp': return ('bin', '!=', self.charval(v[1]), ('int', ord(v[2])))
        if v[0] == 'ite': return ('ite', v[1], self.tobool(v[2]), self.tobool(v[3]))
        if k == 'I': return ('bin', '!=', v, ('int', 0))
        if k == 'F' and v[0] == 'opq': return ('bin', '!=', v, ('int', 0))
        raise Fail('%s: cannot use %r as a condition' % (self.fn, v))
    def charval(self, path, env=None):
        env = env if env is not None else self.env
        return env.get('*' + path) or self.fld(sanitize(path) + '_ch')
    def define(self, var, v):
        """bind a non-atomic boolean/integer local as a named definition `<fn>_<var>`"""
        if atomic(v) or kind(v) not in ('I', 'B') or v[0] == 'strncmp' or getattr(self, 'nodefine', False): return v
        k = self.defver.get(var, 0); self.defver[var] = k + 1
        name = '%s_%s%s' % (self.fn, var, '' if k == 0 else '_%d' % k)
        v = fold(v)
        if atomic(v): return v
        self.defs.append((name, kind(v), v))
        return ('loc', name, kind(v))

    # -------------------------------------------------------------- expressions
    def ev(self, n):
        k = n.get('kind'); inner = n.get('inner', [])
        if k in ('ImplicitCastExpr', 'ParenExpr', 'CStyleCastExpr', 'ConstantExpr'):
            v = self.ev(inner[0])
            ty = n.get('type', '')
            if k == 'CStyleCastExpr' and kind(v) == 'F' and ty not in FLOAT_T and '*' not in ty:
                return self.opq('int_of_' + v[1], 'I')
            return v
        if k == 'IntegerLiteral': return ('int', int(n['value']))
        if k == 'CharacterLiteral': return ('int', int(n['value']))
        if k == 'FloatingLiteral':
            f = float(n['value'])
            if f == int(f): return ('int', int(f))
            return self.opq('float_' + n['value'], 'F')
        if k == 'StringLiteral': return ('str', json.loads(n['value']))
        if k == 'DeclRefExpr':
            rk, rn = n['ref']
            if rk == 'EnumConstantDecl':
                if rn not in self.enumv: raise Fail('%s: unknown enumerator %s' % (self.fn, rn))
                if rn not in self.enums_used: self.enums_used.append(rn)
                return ('enum', rn)
            if rk == 'FunctionDecl': return ('str', rn)
            if rn in self.env: return self.env[rn]
            ty = n.get('type', '')
            return self.opq('uninit_' + rn, 'F' if ty in FLOAT_T else ('P' if '*' in ty or '[' in ty else 'I'))
        if k == 'MemberExpr':
            b = self.ev(inner[0]); ty = n.get('type', '')
            if b[0] != 'ptr': raise Fail('%s: member %s of non-pointer %r' % (self.fn, n.get('name'), b))
            path = b[1] + ('->' if n.get('isArrow') else '.') + n['name']
            if path in self.env: return self.env[path]
            if '*' in ty: return ('ptr', path)
            if ty in FLOAT_T: return self.opq(path, 'F')
            return self.fld(sanitize(path))
        if k == 'UnaryOperator':
            op = n['opcode']
            if op == '*':
                b = self.ev(inner[0])
                if b[0] != 'ptr': raise Fail('%s: deref of %r' % (self.fn, b))
                key = '*' + b[1]
                if key in self.env: return self.env[key]
                ty = n.get('type', '')
                if 'char' in ty: return self.fld(sanitize(b[1]) + '_ch')
                if ty in FLOAT_T: return self.opq('deref_' + b[1], 'F')
                if '*' in ty: return ('ptr', '*' + b[1])
                return self.fld('deref_' + sanitize(b[1]))
            if op == '!': return ('not', self.tobool(self.ev(inner[0])))
            if op == '-':
                v = self.ev(inner[0])
                if v[0] == 'int': return ('int', -v[1])
                if kind(v) == 'I': return ('neg', v)
                return self.opq('neg_' + str(v[1]), 'F')
            if op == '+': return self.ev(inner[0])
            if op == '&':
                c = inner[0]
                while c.get('kind') in ('ParenExpr',): c = c['inner'][0]
                if c.get('kind') == 'DeclRefExpr': return ('ptr', '&' + c['ref'][1])
                return ('ptr', '&?')
            raise Fail('%s: unary operator %s (line %s)' % (self.fn, op, n.get('line')))
        if k == 'BinaryOperator':
            op = n['opcode']
            if op == '=' or op == ',': raise Fail('%s: assignment inside an expression (line %s)' % (self.fn, n.get('line')))
            x = self.ev(inner[0]); y = self.ev(inner[1])
            if op in ('&&', '||'): return ('bin', op, self.tobool(x), self.tobool(y))
            if op in ('<', '<=', '>', '>=') and any('unsigned' in c.get('type', '') for c in inner[:2]) and not (x[0] == 'int' and y[0] == 'int'):
                # an ordering comparison carried out in an UNSIGNED type (enumerations without negative enumerators are
                # unsigned): not the integer comparison of the model -> explicit opaque input
                nm = {'<': 'lt', '<=': 'le', '>': 'gt', '>=': 'ge'}[op]
                return self.opq('ucmp_%s_%s_%s' % (x[1] if len(x) > 1 else 'e', nm, y[1] if len(y) > 1 else 'e'), 'B')
            if op in CMP:
                if x[0] == 'strncmp' or y[0] == 'strncmp':
                    s, o = (x, y) if x[0] == 'strncmp' else (y, x)
                    if o != ('int', 0) or op not in ('==', '!='): raise Fail('%s: strncmp compared with %r' % (self.fn, o))
                    return ('bin', op, self.charval(s[1]), ('int', ord(s[2])))
                kx, ky = kind(x), kind(y)
                if kx == 'B' or ky == 'B': raise Fail('%s: comparison of a truth value (line %s)' % (self.fn, n.get('line')))
                if 'F' in (kx, ky):
                    # only "opaque float loop result compared with literal 0" keeps a meaning (its sign)
                    f, o = (x, y) if kx == 'F' else (y, x)
                    if o == ('int', 0) and f[0] == 'opq': return ('bin', op, x, y)
                    return self.opq('cmp_%s_%s_%s' % (x[1], {'==': 'eq', '!=': 'ne', '<': 'lt', '<=': 'le', '>': 'gt', '>=': 'ge'}[op], y[1]), 'B')
                if 'P' in (kx, ky) or 'S' in (kx, ky): return self.opq('ptrcmp_%s_%s' % (x[1], y[1]), 'B')
                return ('bin', op, x, y)
            if op in ('+', '-', '*'):
                if kind(x) == 'I' and kind(y) == 'I':
                    if x[0] == 'int' and y[0] == 'int': return ('int', {'+': x[1] + y[1], '-': x[1] - y[1], '*': x[1] * y[1]}[op])
                    return ('bin', op, x, y)
                return self.opq('fexpr_line%s' % n.get('line'), 'F')
            if op in ('/', '%'):
                if kind(x) == 'I' and kind(y) == 'I': return self.opq('%s_%s_%s' % (x[1], 'div' if op == '/' else 'mod', y[1]), 'I')
                return self.opq('fexpr_line%s' % n.get('line'), 'F')
            raise Fail('%s: binary operator %s (line %s)' % (self.fn, op, n.get('line')))
        if k == 'ConditionalOperator':
            c = self.tobool(self.ev(inner[0])); x = self.ev(inner[1]); y = self.ev(inner[2])
            if 'F' in (kind(x), kind(y)): return self.opq('fexpr_line%s' % n.get('line'), 'F')
            if 'B' in (kind(x), kind(y)): return ('ite', c, self.tobool(x), self.tobool(y))
            return ('cond', c, x, y)
        if k == 'CallExpr':
            callee = self.ev(inner[0]); args = [self.ev(a) for a in inner[1:]]
            name = callee[1] if callee[0] == 'str' else '?'
            if name == 'strncmp' and len(args) == 3:
                p, s, cnt = args
                q, t = (p, s) if s[0] == 'str' else (s, p)
                if q[0] == 'ptr' and t[0] == 'str' and cnt == ('int', 1) and len(t[1]) >= 1:
                    return ('strncmp', q[1], t[1][0])
                raise Fail('%s: strncmp form not understood (line %s)' % (self.fn, n.get('line')))
            self.note_call(name, args)
            ty = n.get('type', '')
            tag = name + ''.join('_' + sanitize(a[1]) for a in args if a[0] == 'str')
            return self.opq(tag, 'F' if ty in FLOAT_T else ('P' if '*' in ty else 'I'))
        if k == 'ArraySubscriptExpr':
            b = self.ev(inner[0]); i = self.ev(inner[1]); ty = n.get('type', '')
            nm = '%s_at_%s' % (b[1] if len(b) > 1 else 'x', i[1] if len(i) > 1 else 'i')
            return self.opq(nm, 'F' if ty in FLOAT_T else ('P' if '*' in ty else 'I'))
        if k == 'UnaryExprOrTypeTraitExpr': return self.opq('sizeof_line%s' % n.get('line'), 'I')
        if k == 'InitListExpr':   # aggregate initialiser of a local (complex constants): never a scalar fact
            return ('opq', 'initlist', 'F')
        raise Fail('%s: expression kind %s (line %s)' % (self.fn, k, n.get('line')))

    def note_call(self, name, args):
        if name not in self.precalls: self.precalls.append(name)
        for a in args:   # a local whose address escapes is no longer known
            if a[0] == 'ptr' and a[1].startswith('&') and a[1][1:] in self.env:
                self.env[a[1][1:]] = self.opq('%s_after_%s' % (a[1][1:], name), 'I')

    # -------------------------------------------------------------- statements
    def lvalue(self, n):
        """('local', name) | ('info',) | ('mem', text, key)"""
        while n.get('kind') in ('ParenExpr',): n = n['inner'][0]
        k = n.get('kind')
        if k == 'DeclRefExpr' and n['ref'][0] in ('VarDecl', 'ParmVarDecl'):
            ty = n.get('type', '')
            return ('local', n['ref'][1])
        if k == 'UnaryOperator' and n['opcode'] == '*':
            b = self.ev(n['inner'][0])
            if b[0] == 'ptr': return ('mem', '*' + b[1], '*' + b[1])
        if k == 'MemberExpr':
            b = self.ev(n['inner'][0])
            if b[0] == 'ptr':
                p = b[1] + ('->' if n.get('isArrow') else '.') + n['name']; return ('mem', p, p)
        if k == 'ArraySubscriptExpr':
            b = self.ev(n['inner'][0])
            return ('mem', '%s[]' % (b[1] if b[0] == 'ptr' else '?'), None)
        raise Fail('%s: assignment target %s (line %s)' % (self.fn, k, n.get('line')))

    def assign(self, lhs, v, line):
        lv = self.lvalue(lhs)
        if lv[0] == 'local':
            if '$' + lv[1] == self.info_key: self.env[self.info_key] = v; return
            self.env[lv[1]] = self.define(lv[1], v) if kind(v) in ('I', 'B') else v
            return
        if '$' + lv[1] == self.info_key: self.env[self.info_key] = v; return
        # a store through a pointer: the caller's memory, or a local structure reached through a pointer
        root = re.split(r'->|\.|\[', lv[1].lstrip('*'))[0]
        if root in self.params:
            if lv[1] not in self.prewrites: self.prewrites.append(lv[1])
        if lv[2]: self.env[lv[2]] = v

    def assigned_in(self, n, acc, arrays, calls):
        k = n.get('kind')
        if k in ('BinaryOperator', 'CompoundAssignOperator') and (n['opcode'] == '=' or k == 'CompoundAssignOperator'):
            acc.append(n['inner'][0])
        if k == 'UnaryOperator' and n['opcode'] in ('++', '--'): acc.append(n['inner'][0])
        if k == 'ArraySubscriptExpr':
            c = n['inner'][0]
            while c.get('kind') in ('ImplicitCastExpr', 'ParenExpr'): c = c['inner'][0]
            if c.get('kind') == 'DeclRefExpr' and c['ref'][1] not in arrays: arrays.append(c['ref'][1])
        if k == 'CallExpr': calls.append(n)
        if k in ('ReturnStmt', 'GotoStmt'): raise Fail('%s: return/goto inside a loop ahead of the screening exit' % self.fn)
        for c in n.get('inner', []): self.assigned_in(c, acc, arrays, calls)

    def loop(self, n):
        """a loop is not interpreted: every scalar it assigns becomes an opaque input named after the
        variable and the arrays the loop reads"""
        acc, arrays, calls = [], [], []
        for c in n.get('inner', []): self.assigned_in(c, acc, arrays, calls)
        for c in calls:
            nm = c['inner'][0]
            while nm.get('kind') in ('ImplicitCastExpr', 'ParenExpr'): nm = nm['inner'][0]
            self.note_call(nm.get('ref', ['', '?'])[1], [])
        for lhs in acc:
            lv = self.lvalue(lhs)
            if lv[0] == 'local':
                if '$' + lv[1] == self.info_key: raise Fail('%s: info assigned inside a loop (line %s)' % (self.fn, n.get('line')))
                ty = lhs.get('type', '')
                self.env[lv[1]] = self.opq('_'.join([lv[1]] + arrays), 'F' if ty in FLOAT_T else 'I')
            else:
                if '$' + lv[1] == self.info_key: raise Fail('%s: info assigned inside a loop (line %s)' % (self.fn, n.get('line')))
                root = re.split(r'->|\.|\[', lv[1].lstrip('*'))[0]
                if root in self.params and lv[1] not in self.prewrites: self.prewrites.append(lv[1])

    def merge(self, c, e1, e2):
        out = {}
        for key in list(e1.keys()) + [k for k in e2.keys() if k not in e1]:
            a, b = e1.get(key), e2.get(key)
            if a == b: out[key] = a; continue
            if a is None or b is None:
                d = a if a is not None else b
                if key.startswith('*') or '->' in key:   # memory written on one path only: other path reads the caller's value
                    if key.startswith('*') and kind(d) == 'I':
                        o = self.fld(sanitize(key[1:]) + '_ch'); a, b = (a or o), (b or o)
                    else: out[key] = self.opq('maybe_' + key, kind(d)); continue
                elif kind(d) in ('I', 'B') and key != self.info_key:
                    u = self.opq('uninit_' + key, 'I'); a, b = (a or u), (b or u)
                else: out[key] = d if kind(d) in ('F', 'P') else self.opq('uninit_' + key, kind(d)); continue
            ka, kb = kind(a), kind(b)
            if 'F' in (ka, kb) or 'P' in (ka, kb) or 'S' in (ka, kb):
                out[key] = self.opq('merged_' + key, 'F' if 'F' in (ka, kb) else 'P'); continue
            if 'B' in (ka, kb): a, b = self.tobool(a), self.tobool(b)
            v = ('ite', c, a, b)
            out[key] = v if key == self.info_key or key.startswith('*') else self.define(key, v)
        return out

    def touches_info(self, n):
        """does the statement (outside its own condition) assign or read the info variable?"""
        def ref(m):
            return m.get('kind') == 'DeclRefExpr' and m.get('ref', ['', ''])[1] == 'info'
        if n.get('kind') == 'IfStmt':
            return any(self.mentions(c, ref) for c in n['inner'][1:])
        return False

    def run(self, stmts):
        """execute a statement list in self.env.  An `if` whose branches involve the info variable is
        PATH-SPLIT: both branches are continued separately with the rest of the list, so that on every
        path the info variable holds a literal constant and the result is a decision tree with
        constant leaves (tests that are sequenced in the C code, e.g. `if (colequ && *info == 0)`,
        are thereby resolved per path).  Other statements update self.env with if-merge semantics."""
        stmts = list(stmts)
        while stmts:
            s = stmts.pop(0)
            k = s.get('kind')
            if k == 'CompoundStmt':
                stmts = list(s.get('inner', [])) + stmts; continue
            if k == 'IfStmt' and self.info_key and self.env.get(self.info_key) is not None and self.touches_info(s):
                parts = s['inner']
                c = self.tobool(self.ev(parts[0]))
                base = self.env
                self.env = dict(base); self.run([parts[1]] + stmts); e1 = self.env
                self.env = dict(base); self.run(([parts[2]] if len(parts) > 2 else []) + stmts); e2 = self.env
                c = fold(c)
                if c == ('true',): self.env = e1
                elif c == ('false',): self.env = e2
                else: self.env = self.merge(c, e1, e2)
                return
            self.stmt(s)

    def stmt(self, n):
        k = n.get('kind'); inner = n.get('inner', [])
        if k in ('NullStmt', None): return
        if k == 'CompoundStmt': self.run(inner); return
        if k == 'DeclStmt':
            for d in inner:
                if d.get('kind') == 'VarDecl' and d.get('inner'):
                    init = [c for c in d['inner'] if c.get('kind') not in ('FullComment',)]
                    if init:
                        v = self.ev(init[-1])
                        self.env[d['name']] = self.define(d['name'], v) if kind(v) in ('I', 'B') else v
            return
        if k == 'BinaryOperator' and n['opcode'] == '=':
            self.assign(inner[0], self.ev(inner[1]), n.get('line')); return
        if k == 'CompoundAssignOperator' or (k == 'UnaryOperator' and n.get('opcode') in ('++', '--')):
            lv = self.lvalue(inner[0])
            if lv[0] == 'local' and '$' + lv[1] != self.info_key:
                self.env[lv[1]] = self.opq('%s_line%s' % (lv[1], n.get('line')), 'F' if inner[0].get('type') in FLOAT_T else 'I'); return
            raise Fail('%s: compound assignment to %s (line %s)' % (self.fn, lv[1], n.get('line')))
        if k == 'IfStmt':
            parts = [c for c in inner]
            c = self.tobool(self.ev(parts[0]))
            base = self.env
            self.env = dict(base); self.run([parts[1]]); e1 = self.env
            self.env = dict(base)
            if len(parts) > 2: self.run([parts[2]])
            e2 = self.env
            self.env = self.merge(c, e1, e2); return
        if k in ('ForStmt', 'WhileStmt', 'DoStmt'): self.loop(n); return
        if k == 'CallExpr': self.ev(n); return
        if k in ('ImplicitCastExpr', 'ParenExpr', 'CStyleCastExpr'): self.stmt(inner[0]); return
        raise Fail('%s: statement kind %s ahead of the screening exit (line %s)' % (self.fn, k, n.get('line')))

    # -------------------------------------------------------------- whole function
    def is_info0(self, n):
        if n.get('kind') != 'BinaryOperator' or n.get('opcode') != '=': return None
        l, r = n['inner']
        while r.get('kind') in ('ImplicitCastExpr', 'ParenExpr'): r = r['inner'][0]
        if r.get('kind') != 'IntegerLiteral' or int(r['value']) != 0: return None
        while l.get('kind') == 'ParenExpr': l = l['inner'][0]
        if l.get('kind') == 'DeclRefExpr' and l['ref'][1] == 'info': return '$info'
        if l.get('kind') == 'UnaryOperator' and l['opcode'] == '*':
            c = l['inner'][0]
            while c.get('kind') in ('ImplicitCastExpr', 'ParenExpr'): c = c['inner'][0]
            if c.get('kind') == 'DeclRefExpr' and c['ref'][1] == 'info': return '$*info'
        return None

    def mentions(self, n, pred):
        if pred(n): return True
        return any(self.mentions(c, pred) for c in n.get('inner', []))

    def translate(self, fdecl):
        body = [c for c in fdecl['inner'] if c.get('kind') == 'CompoundStmt'][0]['inner']
        self.params = [c['name'] for c in fdecl['inner'] if c.get('kind') == 'ParmVarDecl']
        self.env = {}
        for c in fdecl['inner']:
            if c.get('kind') != 'ParmVarDecl': continue
            ty = c.get('type', '')
            if '*' in ty or '[' in ty: self.env[c['name']] = ('ptr', c['name'])
            elif ty in FLOAT_T: self.env[c['name']] = ('opq', sanitize(c['name']), 'F')
            else: self.env[c['name']] = ('fld', c['name'])   # registered in Args only when a chain reads it
        s0 = None
        for i, s in enumerate(body):
            key = self.is_info0(s)
            if key: s0 = i; self.info_key = key; break
        if s0 is None: raise Fail('%s: no `info = 0` statement at the top level of the body' % self.fn)
        is_ie = lambda n: n.get('kind') == 'DeclRefExpr' and n.get('ref', ['', ''])[1] == 'input_error'
        is_ret = lambda n: n.get('kind') == 'ReturnStmt'
        is_info = lambda n: n.get('kind') == 'DeclRefExpr' and n.get('ref', ['', ''])[1] == 'info'
        s1 = None
        for i in range(s0 + 1, len(body)):
            s = body[i]
            if s.get('kind') == 'IfStmt' and self.mentions(s['inner'][0], is_info) and self.mentions(s['inner'][1], is_ie) \
               and self.mentions(s['inner'][1], is_ret):
                s1 = i; break
            if self.mentions(s, is_ret): raise Fail('%s: a return precedes the screening exit (line %s)' % (self.fn, s.get('line')))
        if s1 is None: raise Fail('%s: no `if (info != 0) { input_error(..); return; }` after `info = 0`' % self.fn)
        # the info variable is "a local named info" when it is not a parameter
        if self.info_key == '$info' and 'info' in self.params: raise Fail('%s: info parameter assigned directly' % self.fn)
        if self.info_key == '$*info':
            # `*info` is reached through assign(): lvalue '*info' -> key '$*info'
            pass
        self.run(body[:s0]); pre = self.env.get(self.info_key)
        if pre is not None: raise Fail('%s: info assigned before `info = 0`' % self.fn)
        self.env[self.info_key] = ('int', 0)
        self.run(body[s0 + 1:s1])
        self.check = fold(self.env[self.info_key])
        # the screening exit itself
        ex = body[s1]
        cond = self.ev_cond_info(ex['inner'][0])
        if len(ex['inner']) > 2: raise Fail('%s: screening exit has an else branch' % self.fn)
        then = ex['inner'][1]; stm = then['inner'] if then.get('kind') == 'CompoundStmt' else [then]
        self.errparam = None; self.srname = ''
        saved_info = self.env[self.info_key]; self.env[self.info_key] = ('var', 'info')
        seen_ret = False; self.nodefine = True
        for s in stm:
            k = s.get('kind')
            if seen_ret: self.errexit.append('stmt-after-return:%s' % k); continue
            if k == 'ReturnStmt':
                seen_ret = True
                if s.get('inner'):
                    rv = self.ev(s['inner'][0])
                    if rv != ('int', 0): self.errexit.append('return-value:%s' % (rv[1],))
                continue
            if k == 'DeclStmt' or (k == 'BinaryOperator' and s.get('opcode') == '=' and self.lvalue(s['inner'][0])[0] == 'local'
                                   and '$' + self.lvalue(s['inner'][0])[1] != self.info_key):
                before = list(self.precalls); self.stmt(s)
                for c in self.precalls[len(before):]: self.errexit.append('call:' + c)
                self.precalls = before
                continue
            if k == 'CallExpr' and self.mentions(s['inner'][0], is_ie):
                a = [self.ev(x) for x in s['inner'][1:]]
                if len(a) != 2 or a[0][0] != 'str': raise Fail('%s: input_error call not understood' % self.fn)
                self.srname = a[0][1]
                p = a[1]
                if p[0] == 'ptr' and p[1].startswith('&') and p[1][1:] in self.env: self.errparam = self.env[p[1][1:]]
                elif p[0] == 'ptr' and p[1] == '&info' and self.info_key == '$info': self.errparam = ('var', 'info')
                elif p == ('ptr', 'info') and self.info_key == '$*info': self.errparam = ('var', 'info')
                else: raise Fail('%s: cannot tell which number is passed to input_error (%r)' % (self.fn, p))
                continue
            self.errexit.append('stmt:%s:line%s' % (k, s.get('line')))
        if not seen_ret: raise Fail('%s: screening exit does not return' % self.fn)
        if self.errparam is None: raise Fail('%s: screening exit does not call input_error' % self.fn)
        self.env[self.info_key] = saved_info
        self.exit_cond = cond
        fields, locs, en = [], [], []
        self.collect(self.check, fields, locs, en); self.collect(self.errparam, fields, locs, en)
        self.fields = fields; self.enums_used = en
        self.defs = [d for nm in locs for d in self.defs if d[0] == nm]
        self.precalls = [c for c in self.precalls if c != 'input_error']
        return self

    def ev_cond_info(self, n):
        """the exit condition must be `info != 0` (or plain `info`)"""
        saved = self.env[self.info_key]; self.env[self.info_key] = ('var', 'info')
        c = self.tobool(self.ev(n)); self.env[self.info_key] = saved
        if c not in (('bin', '!=', ('var', 'info'), ('int', 0)), ('bin', '!=', ('int', 0), ('var', 'info'))):
            raise Fail('%s: screening exit condition is not `info != 0`: %r' % (self.fn, c))
        return c

# patch: `*info` as lvalue / rvalue goes through the env key '$*info'
_orig_lvalue = Tr.lvalue
def _lvalue(self, n):
    m = n
    while m.get('kind') == 'ParenExpr': m = m['inner'][0]
    if m.get('kind') == 'UnaryOperator' and m.get('opcode') == '*':
        c = m['inner'][0]
        while c.get('kind') in ('ImplicitCastExpr', 'ParenExpr'): c = c['inner'][0]
        if c.get('kind') == 'DeclRefExpr' and c['ref'][1] == 'info' and self.info_key == '$*info': return ('local', '*info')
    return _orig_lvalue(self, n)
Tr.lvalue = _lvalue
_orig_ev = Tr.ev
def _ev(self, n):
    if self.info_key and n.get('kind') == 'UnaryOperator' and n.get('opcode') == '*' and self.info_key == '$*info':
        c = n['inner'][0]
        while c.get('kind') in ('ImplicitCastExpr', 'ParenExpr'): c = c['inner'][0]
        if c.get('kind') == 'DeclRefExpr' and c['ref'][1] == 'info':
            v = self.env.get('$*info')
            if v is None: raise Fail('%s: info read before `*info = 0`' % self.fn)
            return v
    if self.info_key == '$info' and n.get('kind') == 'DeclRefExpr' and n.get('ref', ['', ''])[1] == 'info' and n['ref'][0] == 'VarDecl':
        v = self.env.get('$info')
        if v is None: raise Fail('%s: info read before `info = 0`' % self.fn)
        return v
    return _orig_ev(self, n)
Tr.ev = _ev

def fold(v):
    """constant folding of comparisons between literals and of connectives with a literal operand"""
    t = v[0]
    if t == 'bin':
        op, x, y = v[1], fold(v[2]), fold(v[3])
        if op in CMP and x[0] == 'ite' and kind(x) == 'I' and atomic(y):
            return fold(('ite', x[1], ('bin', op, x[2], y), ('bin', op, x[3], y)))
        if op in CMP and y[0] == 'ite' and kind(y) == 'I' and atomic(x):
            return fold(('ite', y[1], ('bin', op, x, y[2]), ('bin', op, x, y[3])))
        if op in CMP and x[0] == 'int' and y[0] == 'int':
            r = {'==': x[1] == y[1], '!=': x[1] != y[1], '<': x[1] < y[1], '<=': x[1] <= y[1], '>': x[1] > y[1], '>=': x[1] >= y[1]}[op]
            return ('true',) if r else ('false',)
        if op == '&&':
            if ('false',) in (x, y): return ('false',)
            if x == ('true',): return y
            if y == ('true',): return x
        if op == '||':
            if ('true',) in (x, y): return ('true',)
            if x == ('false',): return y
            if y == ('false',): return x
        return ('bin', op, x, y)
    if t == 'not':
        x = fold(v[1])
        if x == ('true',): return ('false',)
        if x == ('false',): return ('true',)
        return ('not', x)
    if t == 'ite':
        c, x, y = fold(v[1]), fold(v[2]), fold(v[3])
        if c == ('true',): return x
        if c == ('false',): return y
        if x == y: return x
        if kind(x) == 'B' or kind(y) == 'B':
            x, y = (x if kind(x) == 'B' else (('true',) if x[1] else ('false',))), (y if kind(y) == 'B' else (('true',) if y[1] else ('false',)))
            if x == ('false',): return fold(('bin', '&&', ('not', c), y))
            if y == ('false',): return fold(('bin', '&&', c, x))
            if x == ('true',): return fold(('bin', '||', c, y))
            if y == ('true',): return fold(('bin', '||', ('not', c), x))
            return ('ite', c, x, y)
        # `if r then (if q then v else T) else T`  ==  `if r ∧ q then v else T`  (a test nested in a guard
        # whose continuation is the same on both sides, as produced by path-splitting `if (r) { if (q) info = v; }`)
        if x[0] == 'ite' and x[3] == y: return fold(('ite', ('bin', '&&', c, x[1]), x[2], y))
        # two consecutive tests with the same outcome: `if c1 then v else if c2 then v else r` == `if c1 ∨ c2 then v else r`
        if y[0] == 'ite' and y[2] == x and x[0] == 'int': return ('ite', ('bin', '||', c, y[1]), x, y[3])
        return ('ite', c, x, y)
    if t == 'cond': return ('cond', fold(v[1]), fold(v[2]), fold(v[3]))
    if t == 'neg': return ('neg', fold(v[1]))
    return v

# ------------------------------------------------------------------------------------ Lean emission
def lint(k): return str(k) if k >= 0 else '(%d)' % k
def emit(v, ind=2):
    t = v[0]
    if t == 'int': return lint(v[1])
    if t == 'enum': return v[1]
    if t == 'fld': return 'a.' + v[1]
    if t == 'opq': return 'a.' + v[1] if v[2] != 'B' else '(a.%s ≠ 0)' % v[1]
    if t == 'loc': return '%s a' % v[1]
    if t == 'var': return v[1]
    if t == 'true': return 'True'
    if t == 'false': return 'False'
    if t == 'not': return '¬ (%s)' % emit(v[1], ind)
    if t == 'neg': return '(-(%s))' % emit(v[1], ind)
    if t == 'bin':
        op = v[1]; x = emit(v[2], ind); y = emit(v[3], ind)
        if op in CMP: return '%s %s %s' % (par(v[2], x), CMP[op], par(v[3], y))
        if op == '&&': return '(%s) ∧ (%s)' % (x, y)
        if op == '||': return '(%s) ∨ (%s)' % (x, y)
        return '%s %s %s' % (par(v[2], x), op, par(v[3], y))
    if t == 'ite' and kind(v) == 'B':
        c, x, y = v[1], v[2], v[3]
        if x == ('false',): return '(¬ (%s)) ∧ (%s)' % (emit(c, ind), emit(y, ind))
        if y == ('false',): return '(%s) ∧ (%s)' % (emit(c, ind), emit(x, ind))
        if x == ('true',): return '(%s) ∨ (%s)' % (emit(c, ind), emit(y, ind))
        if y == ('true',): return '(¬ (%s)) ∨ (%s)' % (emit(c, ind), emit(x, ind))
        return '((%s) ∧ (%s)) ∨ ((¬ (%s)) ∧ (%s))' % (emit(c, ind), emit(x, ind), emit(c, ind), emit(y, ind))
    if t == 'cond':
        return 'if %s then %s else %s' % (emit(v[1], ind), emit(v[2], ind), emit(v[3], ind))
    if t == 'ite':
        pad = ' ' * ind
        th = emit(v[2], ind + 2)
        if v[2][0] == 'ite': th = '(%s)' % th
        return 'if %s then %s\n%selse %s' % (emit(v[1], ind + 2), th, pad, emit(v[3], ind))
    if t == 'let':
        pad = ' ' * (ind + 2)
        s = '('
        for nm, val in v[1]:
            s += '\n%slet %s : Int := %s' % (pad, nm, emit(val, ind + 4))
        return s + '\n%s%s)' % (pad, emit(v[2], ind + 2))
    raise Fail('emit %r' % (v,))
def par(v, s):
    return s if v[0] in ('int', 'enum', 'fld', 'opq', 'var') and not s.startswith('-') else '(%s)' % s

def lean_text(results, enumv, failures, repo):
    fields = list(BASE_FIELDS)
    for r in results:
        for f in r.get('fields', []):
            if f not in fields: fields.append(f)
    used = []
    for r in results:
        for e in r.get('enums', []):
            if e not in used: used.append(e)
    # every enumerator of the matrix tags and option enumerations, so that the hand-written spec can name them
    for h in ('supermatrix.h', 'superlu_enum_consts.h'):
        for e in enums(repo, only=h):
            if e not in used: used.append(e)
    o = []
    o.append('/- GENERATED by tools/argchain.py from the C sources in SRC/ — do not edit.\n'
             '   Literal translation of the argument-screening chains of the driver and computational\n'
             '   routines (DESIGN.md section 4, property C18).  Fields of `Args` are named after the C\n'
             '   expression they stand for; `<x>_ch` is the first character of the string argument x;\n'
             '   `rcmin_R`, `rcmin_C` are the SIGN (-1, 0, 1) of the floating-point minimum the code\n'
             '   computes over R resp. C (an opaque input: the loop is not interpreted). -/\n')
    o.append('namespace Slu.ArgChains\n')
    o.append('/-! enumerators (values read from SRC/*.h) -/')
    for e in used: o.append('abbrev %s : Int := %d' % (e, enumv[e]))
    o.append('\nstructure Args where')
    for f in fields: o.append('  %s : Int := 0' % f)
    o.append('deriving Inhabited\n')
    o.append('def Args.fieldNames : List String := [%s]\n' % ', '.join('"%s"' % f for f in fields))
    o.append('def Args.ofFn (f : String → Int) : Args :=\n  { ' + ',\n    '.join('%s := f "%s"' % (f, f) for f in fields) + ' }\n')
    o.append('def Args.get (a : Args) (k : String) : Int :=\n' + '\n'.join('  if k = "%s" then a.%s else' % (f, f) for f in fields) + '\n  0\n')
    for r in results:
        fn = r['fn']
        o.append('/-! ### %s  (%s) -/' % (fn, r['file']))
        if r.get('failed'):
            o.append('/- TRANSLATION FAILED: %s -/' % r['failed'].replace('-/', '- /'))
            o.append('def check_%s (_ : Args) : Int := 1   -- impossible value: the obligations of this routine do not check' % fn)
            o.append('def errparam_%s (_ : Args) : Int := 0' % fn)
            o.append('def reads_%s : List String := []\ndef prewrites_%s : List String := ["TRANSLATION FAILED"]' % (fn, fn))
            o.append('def precalls_%s : List String := []\ndef errexit_%s : List String := []\ndef srname_%s : String := ""\n' % (fn, fn, fn))
            continue
        for name, kd, val in r['defs']:
            ty = 'Prop' if kd == 'B' else 'Int'
            o.append('abbrev %s (a : Args) : %s :=\n  %s' % (name, ty, emit(tuple_(val), 2)))
        o.append('def check_%s (a : Args) : Int :=\n  %s' % (fn, emit(tuple_(r['check']), 2)))
        ep = tuple_(r['errparam'])
        o.append('def errparam_%s (a : Args) : Int :=\n  let info : Int := check_%s a\n  %s' % (fn, fn, emit(ep, 2)))
        o.append('def reads_%s : List String := [%s]' % (fn, ', '.join('"%s"' % f for f in r['fields'])))
        o.append('def prewrites_%s : List String := [%s]' % (fn, ', '.join('"%s"' % f for f in r['prewrites'])))
        o.append('def precalls_%s : List String := [%s]' % (fn, ', '.join('"%s"' % f for f in r['precalls'])))
        o.append('def errexit_%s : List String := [%s]' % (fn, ', '.join('"%s"' % f for f in r['errexit'])))
        o.append('def srname_%s : String := %s\n' % (fn, json.dumps(r['srname'])))
    names = [r['fn'] for r in results]
    o.append('def checkTable : List (String × (Args → Int)) := [\n' + ',\n'.join('  ("%s", check_%s)' % (f, f) for f in names) + ']')
    o.append('def errparamTable : List (String × (Args → Int)) := [\n' + ',\n'.join('  ("%s", errparam_%s)' % (f, f) for f in names) + ']')
    o.append('def readsTable : List (String × List String) := [\n' + ',\n'.join('  ("%s", reads_%s)' % (f, f) for f in names) + ']')
    o.append('def prewritesTable : List (String × List String) := [\n' + ',\n'.join('  ("%s", prewrites_%s)' % (f, f) for f in names) + ']')
    o.append('def srnameTable : List (String × String) := [\n' + ',\n'.join('  ("%s", srname_%s)' % (f, f) for f in names) + ']')
    o.append('def translationFailures : List String := [%s]' % ', '.join(json.dumps(f) for f in failures))
    # tactic that unfolds everything generated here (chains, locals, enumerators) down to integer facts
    gen_names = list(used)
    for r in results:
        gen_names += ['check_' + r['fn'], 'errparam_' + r['fn']] + [d[0] for d in r.get('defs', [])]
    o.append('\n/-- unfold the generated chains, their locals and the enumerators (used by SluProofs/Props/C18.lean) -/')
    o.append('macro "argchain_gen_unfold" : tactic => `(tactic| simp only [\n    ' + ',\n    '.join(', '.join(gen_names[i:i + 8]) for i in range(0, len(gen_names), 8)) + '] at *)')
    o.append('\nend Slu.ArgChains\n')
    return '\n'.join(o)

def tuple_(x):
    if isinstance(x, list): return tuple(tuple_(e) for e in x)
    return x

# ------------------------------------------------------------------------------------ driver
def work_one(job):
    repo, cfile, fn, enumv, cache_dir, hdr_hash = job
    rec = dict(fn=fn, file=os.path.relpath(cfile, repo))
    try:
        if not os.path.exists(cfile): raise Fail('%s: source file %s is missing' % (fn, rec['file']))
        h = hashlib.sha256(); h.update(hdr_hash.encode()); h.update(fn.encode()); h.update(open(cfile, 'rb').read())
        cpath = os.path.join(cache_dir, fn + '-' + h.hexdigest()[:20] + '.json')
        if os.path.exists(cpath):
            ast = json.load(open(cpath))
        else:
            ast = clang_ast(repo, cfile, fn)
            for old in glob.glob(os.path.join(cache_dir, fn + '-*.json')):
                try: os.unlink(old)
                except OSError: pass
            tmp = cpath + '.tmp%d' % os.getpid(); json.dump(ast, open(tmp, 'w')); os.rename(tmp, cpath)
        t = Tr(fn, enumv).translate(ast)
        rec.update(defs=t.defs, check=t.check, errparam=t.errparam, fields=t.fields, prewrites=t.prewrites,
                   precalls=t.precalls, errexit=t.errexit, srname=t.srname, enums=t.enums_used)
        emit(t.check)   # surface emission problems here
    except Fail as e:
        rec['failed'] = str(e)
    except (KeyError, IndexError, TypeError, ValueError) as e:
        rec['failed'] = '%s: translator error %s: %s' % (fn, type(e).__name__, e)
    return rec

def main():
    if len(sys.argv) < 3:
        print(__doc__); return 2
    repo, gen = sys.argv[1], sys.argv[2]
    root = os.path.dirname(os.path.dirname(os.path.abspath(__file__)))
    cache_dir = os.path.join(root, '.work', 'argchain-cache'); os.makedirs(cache_dir, exist_ok=True)
    hh = hashlib.sha256()
    for f in sorted(glob.glob(os.path.join(repo, 'SRC', '*.h'))) + [os.path.abspath(__file__)]:
        hh.update(os.path.basename(f).encode()); hh.update(open(f, 'rb').read())
    enumv = enums(repo)
    jobs = []
    for gname, fpat, fnpat in ROUTINES:
        for p in PRECS:
            jobs.append((repo, os.path.join(repo, 'SRC', fpat.format(p=p)), fnpat.format(p=p), enumv, cache_dir, hh.hexdigest()))
    with ThreadPoolExecutor(min(16, os.cpu_count() or 4)) as ex:
        results = list(ex.map(work_one, jobs))
    failures = [r['failed'] for r in results if r.get('failed')]
    # round-trip through JSON so that cached and fresh runs emit identical text
    results = json.loads(json.dumps(results))
    text = lean_text(results, enumv, failures, repo)
    os.makedirs(gen, exist_ok=True)
    path = os.path.join(gen, 'ArgChains.lean')
    if not (os.path.exists(path) and open(path).read() == text):
        tmp = path + '.tmp%d' % os.getpid(); open(tmp, 'w').write(text); os.rename(tmp, path)
    if failures:
        for f in failures: print('argchain: TRANSLATION FAILED: ' + f, file=sys.stderr)
        return 1
    return 0

if __name__ == '__main__':
    sys.exit(main())
