#!/usr/bin/env python3
"""xpandscan.py <repo> <lean/Slu/Gen dir> [--selftest] [--json]

TRANSLATOR for properties C07 / C08 (DESIGN.md section 4).  The theorems of Props/C07.lean are about
an abstract client of the allocator that re-reads the base pointers of the four growable arrays from
`Glu` after every expansion.  This script ties that hypothesis to the source text: it lists every place
in <repo>/SRC (outside [sdcz]memory.c) where the factor storage may move and, for each, every use of a
local copy of `Glu->lusup | ucol | lsub | usub` that may still hold the address from before the move.
It emits <gen>/XpandSites.lean, the input of theorem `clients_refresh_pointers` (Props/C07.lean).

What is a site.  A call of a *mover*:
  direct : [sdcz]LUMemXpand(jcol, next, TYPE, &maxlen, Glu) or [sdcz]expand(&len, TYPE, ...); memType is
           the enumeration constant written at the call ("?" if it is not a constant: everything moves);
  whole  : [sdcz]LUMemInit, [sdcz]LUWorkFree, [sdcz]StackCompress (memType "ALL": every array may move);
  via    : a call of a function defined in SRC that itself contains a site (fixed point); memType is
           the earliest array any of its sites can grow.
Which arrays move when TYPE grows: in a caller workspace the arrays are stored in the order
LUSUP, UCOL, LSUB, USUB and growing one slides every later one ([sdcz]expand, user_bcopy); under library
allocation the grown array itself is reallocated.  So a copy of field f can be stale iff f >= TYPE.

What is a stale use.  Per function, from the clang-14 JSON AST (`-Xclang -ast-dump=json`, guard
-DSLU_VERIF on; a file that mentions SLU_VERIF is analysed with the guard off as well and the results
are merged), a control-flow graph over full expressions is built (if / while / do / for / switch /
break / continue / goto / return; an unknown statement kind becomes one node that loops on itself) and a
forward may-analysis is run to a fixed point, so a use that is textually before the call but inside the
same loop is found through the back edge.
  tracked variables V : every pointer-typed variable of the function that is somewhere assigned (or
        initialised with) an expression that mentions `<GlobalLU_t>->lusup|ucol|lsub|usub` or another
        variable of V (so `p = &lusup[k]` makes p tracked with the fields of lusup);
  gen   : after a site of type T every v in V with a field >= T may be stale w.r.t. that site;
  kill  : an assignment `v = E` / initialisation that is evaluated unconditionally in its full
        expression gives v the staleness of the tracked variables E mentions (none for
        `v = (cast) Glu->f`); a full expression that also contains a site never kills;
  use   : every other reference to v (read, index, pass, ++, &v).  References in the same full
        expression as a site are reported as after it.
Everything that is not understood errs towards reporting (sound for "may be stale").

errorChecked.  The value returned by the mover is tested before anything else happens:
`if ((X = CALL)) R`, `if ((X = CALL) != 0) R`, `if (CALL) R`, or `X = CALL;` / `T X = CALL;` immediately
followed by `if (X) R` / `if (X != 0) R`, where R is `return ...;` or a block of call-free expression
statements that do not mention V and ends in `return ...;` -- or the call statement `X = CALL;` / `CALL;`
is followed, to the end of its block, by such an R (the function is left whatever the code).  `returnsCode` is false for movers of type
void (nothing to check).

Self check (`xpandOk`): every file family column_bmod, column_dfs, copy_to_ucol, snode_dfs, gstrf,
gsitrf, ilu_column_dfs, ilu_copy_to_ucol, ilu_snode_dfs exists for s, d, c, z with at least one direct
site; the number of direct sites the AST walk found in each file equals the number of
`[sdcz]LUMemXpand(` / `[sdcz]expand(` tokens in its comment-stripped text (a call the preprocessor
removes, or one the walk misses, fails the check); every reported line was verified against the source
text.  On any failure XpandSites.lean is rewritten with `xpandOk := false`.

Limits: aliases of the arrays that do not come from `Glu` (e.g. through `L->Store`), addresses stored in
memory rather than in a variable, and index arithmetic are not examined.  Results are cached per file
under <verif>/.work/xpandscan-cache keyed by file text, headers and this script.
"""
import sys, os, re, json, hashlib, subprocess, tempfile, shutil, glob, bisect
from concurrent.futures import ProcessPoolExecutor

VERSION = 'xpandscan-3'
sys.setrecursionlimit(20000)
FIELDS = ['lusup', 'ucol', 'lsub', 'usub']
FIELD_ORD = {f: i for i, f in enumerate(FIELDS)}
TYPE_ORD = {'ALL': 0, '?': 0, 'LUSUP': 0, 'UCOL': 1, 'LSUB': 2, 'USUB': 3}
TYPE_NAME = ['LUSUP', 'UCOL', 'LSUB', 'USUB']
FAMILIES = ['column_bmod', 'column_dfs', 'copy_to_ucol', 'snode_dfs', 'gstrf', 'gsitrf']
ILU_FAMILIES = ['column_dfs', 'copy_to_ucol', 'snode_dfs']
MIN_DIRECT = 60

PRIM = [  # (regex on callee name, kind, index of the MemType argument or None)
    (re.compile(r'^[sdcz]LUMemXpand$'), 'direct', 2),
    (re.compile(r'^[sdcz]expand$'), 'direct', 1),
    (re.compile(r'^[sdcz](LUMemInit|LUWorkFree|StackCompress)$'), 'whole', None),
]
DIRECT_TEXT_RE = re.compile(r'\b[sdcz](?:LUMemXpand|expand)\s*\(')

def prim_of(name):
    for rx, kind, idx in PRIM:
        if rx.match(name or ''): return kind, idx
    return None

# ----------------------------------------------------------------------------- AST reduction
KEEP = ('kind', 'id', 'name', 'opcode', 'castKind', 'isArrow', 'storageClass', 'targetLabelDeclId', 'declId', 'isPostfix', 'init', 'value')

def strip_comments_keep_lines(text):
    out = []; i = 0; n = len(text)
    while i < n:
        if text.startswith('/*', i):
            j = text.find('*/', i + 2); j = n if j < 0 else j + 2
            out.append(re.sub(r'[^\n]', ' ', text[i:j])); i = j
        elif text.startswith('//', i):
            j = text.find('\n', i); j = n if j < 0 else j
            out.append(' ' * (j - i)); i = j
        elif text[i] == '"':
            j = i + 1
            while j < n and text[j] != '"' and text[j] != '\n':
                j += 2 if text[j] == '\\' else 1
            out.append('"' + ' ' * max(0, j - i - 1) + '"'); i = j + 1
        elif text[i] == "'":
            j = i + 1
            while j < n and text[j] != "'" and text[j] != '\n':
                j += 2 if text[j] == '\\' else 1
            out.append(text[i:j + 1]); i = j + 1
        else:
            out.append(text[i]); i += 1
    return ''.join(out)

def begin_offset(n):
    """offset (in the main file) where node n begins; macro expansions count at the expansion point"""
    b = (n.get('range') or {}).get('begin') or {}
    if 'expansionLoc' in b: return b['expansionLoc'].get('offset', -1), 0      # tokLen 0: inside a macro, text not comparable
    return b.get('offset', -1), b.get('tokLen', 0)

def reduce_node(n, nl):
    r = {k: n[k] for k in KEEP if k in n}
    off, tl = begin_offset(n)
    r['off'] = off; r['tl'] = tl
    r['line'] = bisect.bisect_right(nl, off) + 1 if off >= 0 else 0
    ty = n.get('type') or {}
    if ty: r['ty'] = ty.get('qualType', ''); r['dty'] = ty.get('desugaredQualType') or ty.get('qualType', '')
    rd = n.get('referencedDecl')
    if rd: r['ref'] = dict(id=rd.get('id'), kind=rd.get('kind'), name=rd.get('name'), ty=(rd.get('type') or {}).get('qualType', ''))
    inner = n.get('inner')
    if inner is not None:
        r['inner'] = [reduce_node(c, nl) if isinstance(c, dict) and c else None for c in inner]
    return r

def run(cmd, **kw):
    return subprocess.run(cmd, stdout=subprocess.PIPE, stderr=subprocess.PIPE, **kw)

def clang_ast(src, incs, defs):
    r = run(['clang-14', '-fsyntax-only', '-w', '-Xclang', '-ast-dump=json'] + incs + defs + [src])
    if r.returncode != 0:
        raise RuntimeError('clang-14 failed on %s: %s' % (src, r.stderr.decode('latin1')[-600:]))
    return json.loads(r.stdout)

def reduced_functions(src, incs, defs, text):
    """function definitions of the main file, reduced"""
    ast = clang_ast(src, incs, defs)
    nl = [m.start() for m in re.finditer('\n', text)]
    out = []
    for n in ast.get('inner') or []:
        if n.get('kind') != 'FunctionDecl': continue
        if not any(isinstance(c, dict) and c.get('kind') == 'CompoundStmt' for c in n.get('inner') or []): continue
        loc = n.get('loc') or {}
        if 'offset' not in loc: loc = loc.get('expansionLoc') or {}
        o = loc.get('offset', -1); name = n.get('name', '')
        if o < 0 or text[o:o + len(name)] != name: continue          # defined in a header
        r = reduce_node(n, nl)
        r['fline'] = bisect.bisect_right(nl, o) + 1
        r['void'] = ((n.get('type') or {}).get('qualType', '').split('(')[0].strip() == 'void')
        out.append(r)
    return out

def file_job(args):
    src, rel, incs, key, cachedir = args
    cpath = os.path.join(cachedir, key + '.json') if cachedir else None
    if cpath and os.path.exists(cpath):
        try: return json.load(open(cpath))
        except Exception: pass
    text = open(src, encoding='latin1').read()
    cfgs = [reduced_functions(src, incs, ['-DSLU_VERIF'], text)]
    if 'SLU_VERIF' in text: cfgs.append(reduced_functions(src, incs, [], text))
    res = dict(rel=rel, cfgs=cfgs, ntext=len(DIRECT_TEXT_RE.findall(strip_comments_keep_lines(text))))
    if cpath:
        tmp = cpath + '.tmp%d' % os.getpid()
        json.dump(res, open(tmp, 'w')); os.replace(tmp, cpath)
    return res

# ----------------------------------------------------------------------------- expression helpers
def kids(n):
    return [c for c in (n.get('inner') or []) if c]

def strip(n, casts=True):
    """remove parentheses and (optionally) casts"""
    while n is not None:
        k = n.get('kind')
        if k == 'ParenExpr' or (casts and k in ('ImplicitCastExpr', 'CStyleCastExpr')):
            ks = kids(n)
            if len(ks) != 1: return n
            n = ks[0]
        else: return n
    return n

def is_ptr(t):
    t = (t or '').strip()
    return t.endswith('*') or bool(re.search(r'\*\s*(const|restrict|volatile|\s)*$', t)) or bool(re.search(r'\[[^\]]*\]$', t)) or '(*' in t

def walk(n):
    yield n
    for c in kids(n):
        yield from walk(c)

def var_ref(n):
    """id of the variable a DeclRefExpr names, else None"""
    if n.get('kind') == 'DeclRefExpr' and (n.get('ref') or {}).get('kind') in ('VarDecl', 'ParmVarDecl'):
        return n['ref']['id']
    return None

def glu_field(n):
    """`X->f` / `X.f` with f one of the four arrays and X of type GlobalLU_t [*]"""
    if n.get('kind') == 'MemberExpr' and n.get('name') in FIELD_ORD:
        ks = kids(n)
        if ks and 'GlobalLU_t' in (ks[0].get('ty', '') + ' ' + ks[0].get('dty', '')): return n['name']
    return None

def callee_name(call):
    ks = kids(call)
    if not ks: return None
    c = strip(ks[0])
    if c.get('kind') == 'DeclRefExpr' and (c.get('ref') or {}).get('kind') == 'FunctionDecl': return c['ref']['name']
    return None

def lv_key(e):
    e = strip(e)
    if e is None: return None
    k = e.get('kind')
    if k == 'DeclRefExpr' and var_ref(e): return ('v', var_ref(e))
    if k == 'UnaryOperator' and e.get('opcode') == '*':
        s = lv_key(kids(e)[0]); return ('*', s) if s else None
    if k == 'MemberExpr':
        s = lv_key(kids(e)[0]); return ('.', e.get('name'), s) if s else None
    return None

def is_zero(e):
    e = strip(e)
    return e is not None and e.get('kind') == 'IntegerLiteral' and e.get('value') == '0'

def uncond_parts(e):
    """sub-expressions of the full expression e that are evaluated whenever e is (no &&, ||, ?: arms)"""
    out = []
    def rec(n):
        out.append(n)
        k = n.get('kind')
        ks = kids(n)
        if k in ('ParenExpr', 'ImplicitCastExpr', 'CStyleCastExpr', 'UnaryOperator', 'ArraySubscriptExpr', 'MemberExpr', 'CallExpr', 'CompoundAssignOperator'):
            for c in ks: rec(c)
        elif k == 'BinaryOperator':
            if n.get('opcode') in ('&&', '||'): rec(ks[0])
            else:
                for c in ks: rec(c)
        elif k == 'ConditionalOperator':
            rec(ks[0])
    rec(e)
    return out

# ----------------------------------------------------------------------------- per-function analysis
class Fn:
    def __init__(self, fn, movers):
        self.fn = fn; self.movers = movers
        self.name = fn.get('name', '?')
        self.body = next(c for c in kids(fn) if c.get('kind') == 'CompoundStmt')
        self.vars = {}          # id -> (name, type)
        for p in kids(fn):
            if p.get('kind') == 'ParmVarDecl': self.vars[p['id']] = (p.get('name', ''), p.get('ty', ''))
        for n in walk(self.body):
            if n.get('kind') == 'VarDecl': self.vars[n['id']] = (n.get('name', ''), n.get('ty', ''))
        self.find_tracked()
        self.sites = []         # dict(node=CallExpr, callee, kind, memType, types(set of ord), returnsCode)
        self.find_sites()

    # ---- tracked variables
    def assignments(self):
        """(variable id, rhs expression) of every `v = E` and `T v = E` in the body"""
        out = []
        for n in walk(self.body):
            k = n.get('kind')
            if k == 'BinaryOperator' and n.get('opcode') == '=':
                l, r = kids(n)[0], kids(n)[1]
                ls = strip(l, casts=False)
                if var_ref(ls): out.append((var_ref(ls), r))
            elif k == 'VarDecl' and n.get('init') and kids(n):
                out.append((n['id'], kids(n)[-1]))
        return out

    def mentions(self, e):
        vs = set(); fs = set()
        for n in walk(e):
            v = var_ref(n)
            if v: vs.add(v)
            f = glu_field(n)
            if f: fs.add(f)
        return vs, fs

    def find_tracked(self):
        asg = [(w, self.mentions(r)) for w, r in self.assignments() if w in self.vars and is_ptr(self.vars[w][1])]
        fields = {}
        changed = True
        while changed:
            changed = False
            for w, (vs, fs) in asg:
                new = set(fs)
                for v in vs:
                    new |= fields.get(v, set())
                if new - fields.get(w, set()):
                    fields.setdefault(w, set()).update(new); changed = True
        self.fields = fields          # id -> set of field names ; V = keys
        self.V = set(fields)

    # ---- sites
    def find_sites(self):
        for n in walk(self.body):
            if n.get('kind') != 'CallExpr': continue
            cn = callee_name(n)
            if cn is None: continue
            p = prim_of(cn)
            if p:
                kind, idx = p
                if idx is None: mt = 'ALL'
                else:
                    args = kids(n)[1:]
                    a = strip(args[idx]) if idx < len(args) else None
                    mt = a['ref']['name'] if a is not None and a.get('kind') == 'DeclRefExpr' and (a.get('ref') or {}).get('kind') == 'EnumConstantDecl' and a['ref']['name'] in TYPE_ORD else '?'
                self.sites.append(dict(node=n, callee=cn, kind=kind, memType=mt, ord=TYPE_ORD[mt], returnsCode=not (n.get('ty', '').strip() == 'void')))
            elif cn in self.movers:
                o = self.movers[cn]
                self.sites.append(dict(node=n, callee=cn, kind='via', memType=TYPE_NAME[o], ord=o, returnsCode=not (n.get('ty', '').strip() == 'void')))

    # ---- control-flow graph
    def build(self):
        self.nodes = []         # dict(uses=[(var, line, off, tl)], gens=[site index], kills=[(w, rhs vars)], succ=set())
        self.site_of = {id(s['node']): i for i, s in enumerate(self.sites)}
        self.labels = {}; self.gotos = []
        self.brk = []; self.cont = []; self.sw = []
        self.stmt(self.body, set())
        for fr, lab in self.gotos:
            tgt = self.labels.get(lab)
            for p in fr:
                if tgt is not None: self.nodes[p]['succ'].add(tgt)
                else: self.nodes[p]['succ'].update(range(len(self.nodes)))     # unknown target: anywhere

    def new(self, frontier, **kw):
        i = len(self.nodes)
        nd = dict(uses=[], gens=[], kills=[], succ=set()); nd.update(kw)
        self.nodes.append(nd)
        for p in frontier: self.nodes[p]['succ'].add(i)
        return i

    def events(self, e, decl=None):
        """uses / gens / kills of one full expression e (or of the initialiser e of variable `decl`)"""
        uses = []; gens = []; kills = []
        unc = {id(x) for x in uncond_parts(e)}
        lhs_skip = set()
        for n in walk(e):
            if n.get('kind') == 'CallExpr' and id(n) in self.site_of: gens.append(self.site_of[id(n)])
            if n.get('kind') == 'BinaryOperator' and n.get('opcode') == '=':
                l, r = kids(n)[0], kids(n)[1]
                ls = strip(l, casts=False)
                w = var_ref(ls)
                if w in self.V:
                    lhs_skip.add(id(ls))
                    if id(n) in unc: kills.append((w, sorted(self.mentions(r)[0] & self.V)))
        if decl is not None and decl in self.V:
            kills.append((decl, sorted(self.mentions(e)[0] & self.V)))
        for n in walk(e):
            v = var_ref(n)
            if v in self.V and id(n) not in lhs_skip: uses.append((v, n['line'], n['off'], n['tl']))
        return dict(uses=uses, gens=gens, kills=kills)

    def expr(self, e, frontier):
        """a full expression; top-level comma operands are sequenced"""
        if e is None: return frontier
        s = strip(e, casts=False)
        if s.get('kind') == 'BinaryOperator' and s.get('opcode') == ',':
            frontier = self.expr(kids(s)[0], frontier)
            return self.expr(kids(s)[1], frontier)
        return {self.new(frontier, **self.events(e))}

    def stmt(self, s, frontier):
        if s is None: return frontier
        k = s.get('kind'); ch = s.get('inner') or []
        if k == 'CompoundStmt':
            for c in ch: frontier = self.stmt(c, frontier)
            return frontier
        if k == 'DeclStmt':
            for d in kids(s):
                if d.get('kind') == 'VarDecl' and d.get('init') and kids(d):
                    frontier = {self.new(frontier, **self.events(kids(d)[-1], decl=d['id']))}
            return frontier
        if k == 'NullStmt': return frontier
        if k == 'IfStmt':
            c = self.expr(ch[0], frontier)
            t = self.stmt(ch[1] if len(ch) > 1 else None, set(c))
            e = self.stmt(ch[2], set(c)) if len(ch) > 2 and ch[2] else set(c)
            return t | e
        if k == 'WhileStmt':
            head = self.new(frontier)
            c = self.expr(ch[0], {head})
            self.brk.append(set()); self.cont.append(set())
            b = self.stmt(ch[-1], set(c))
            for p in b | self.cont.pop(): self.nodes[p]['succ'].add(head)
            return set(c) | self.brk.pop()
        if k == 'DoStmt':
            head = self.new(frontier)
            self.brk.append(set()); self.cont.append(set())
            b = self.stmt(ch[0], {head})
            c = self.expr(ch[1] if len(ch) > 1 else None, b | self.cont.pop())
            for p in c: self.nodes[p]['succ'].add(head)
            return set(c) | self.brk.pop()
        if k == 'ForStmt':
            init, cond, inc, body = ch[0], ch[2], ch[3], ch[4]
            frontier = self.stmt(init, frontier) if init and init.get('kind') == 'DeclStmt' else self.expr(init, frontier)
            head = self.new(frontier)
            c = self.expr(cond, {head})
            self.brk.append(set()); self.cont.append(set())
            b = self.stmt(body, set(c))
            i = self.expr(inc, b | self.cont.pop())
            for p in i: self.nodes[p]['succ'].add(head)
            return set(c) | self.brk.pop()           # (an absent condition never exits: kept, harmless over-approximation)
        if k == 'SwitchStmt':
            c = self.expr(ch[0], frontier)
            self.brk.append(set()); self.sw.append(dict(cases=[], default=False))
            b = self.stmt(ch[-1], set())
            sw = self.sw.pop()
            for j in sw['cases']:
                for p in c: self.nodes[p]['succ'].add(j)
            out = b | self.brk.pop()
            if not sw['default']: out |= set(c)
            return out
        if k in ('CaseStmt', 'DefaultStmt'):
            j = self.new(frontier)
            if self.sw:
                self.sw[-1]['cases'].append(j)
                if k == 'DefaultStmt': self.sw[-1]['default'] = True
            return self.stmt(ch[-1] if ch else None, {j})
        if k == 'BreakStmt':
            if self.brk: self.brk[-1] |= frontier
            return set()
        if k == 'ContinueStmt':
            if self.cont: self.cont[-1] |= frontier
            return set()
        if k == 'ReturnStmt':
            if kids(s): self.expr(kids(s)[0], frontier)
            return set()
        if k == 'LabelStmt':
            j = self.new(frontier); self.labels[s.get('declId')] = j
            return self.stmt(ch[-1] if ch else None, {j})
        if k == 'GotoStmt':
            self.gotos.append((set(frontier), s.get('targetLabelDeclId'))); return set()
        if k == 'AttributedStmt':
            return self.stmt(ch[-1] if ch else None, frontier)
        if k.endswith('Stmt'):
            # not understood (asm, indirect goto, ...): one node with every event inside, looping on itself
            ev = dict(uses=[], gens=[], kills=[])
            for n in walk(s):
                v = var_ref(n)
                if v in self.V: ev['uses'].append((v, n['line'], n['off'], n['tl']))
                if n.get('kind') == 'CallExpr' and id(n) in self.site_of: ev['gens'].append(self.site_of[id(n)])
            j = self.new(frontier, **ev); self.nodes[j]['succ'].add(j)
            return {j}
        return self.expr(s, frontier)

    # ---- data flow
    def moved(self, si):
        o = self.sites[si]['ord']
        return {v for v in self.V if any(FIELD_ORD[f] >= o for f in self.fields[v])}

    def solve(self):
        """returns {site index: set of (var, field, line)} ; also self.checklocs = [(off, tl, expected text)]"""
        self.build()
        n = len(self.nodes)
        preds = [set() for _ in range(n)]
        for i, nd in enumerate(self.nodes):
            for j in nd['succ']: preds[j].add(i)
        OUT = [dict() for _ in range(n)]        # var -> frozenset(site)
        moved = {si: self.moved(si) for si in range(len(self.sites))}
        def IN(i):
            acc = {}
            for p in preds[i]:
                for v, ss in OUT[p].items():
                    if ss: acc[v] = acc.get(v, frozenset()) | ss
            return acc
        def transfer(i, inn):
            nd = self.nodes[i]
            out = dict(inn)
            if nd['gens']:
                for si in nd['gens']:
                    for v in moved[si]: out[v] = out.get(v, frozenset()) | {si}
            else:
                cur = dict(inn)
                for w, rv in nd['kills']:
                    acc = frozenset()
                    for q in rv: acc |= cur.get(q, frozenset())
                    cur[w] = acc
                out = cur
            return {v: s for v, s in out.items() if s}
        work = list(range(n)); inq = set(work)
        while work:
            i = work.pop(0); inq.discard(i)
            o = transfer(i, IN(i))
            if o != OUT[i]:
                OUT[i] = o
                for j in self.nodes[i]['succ']:
                    if j not in inq: work.append(j); inq.add(j)
        res = {si: set() for si in range(len(self.sites))}
        self.checklocs = []
        for i, nd in enumerate(self.nodes):
            inn = IN(i)
            for v, line, off, tl in nd['uses']:
                ss = set(inn.get(v, ()))
                for si in nd['gens']:
                    if v in moved[si]: ss.add(si)
                for si in ss:
                    o = self.sites[si]['ord']
                    for f in sorted(self.fields[v], key=FIELD_ORD.get):
                        if FIELD_ORD[f] >= o: res[si].add((self.vars[v][0], f, line))
                    self.checklocs.append((off, tl, self.vars[v][0]))
        return res

    # ---- is the returned code tested at once?
    def clean_return(self, s):
        def simple(e):
            for n in walk(e):
                if n.get('kind') == 'CallExpr' or var_ref(n) in self.V: return False
                if n.get('kind', '').endswith('Stmt'): return False
            return True
        if s is None: return False
        if s.get('kind') == 'ReturnStmt': return all(simple(c) for c in kids(s))
        if s.get('kind') == 'CompoundStmt':
            ks = kids(s)
            return bool(ks) and ks[-1].get('kind') == 'ReturnStmt' and all(simple(c) for c in kids(ks[-1])) and all(simple(c) for c in ks[:-1])
        return False

    def cond_tests(self, cond, call=None, key=None):
        """cond is `E` or `E != 0` / `0 != E` where E is the call, `X = call`, or (key given) the lvalue X"""
        c = strip(cond)
        if c.get('kind') == 'BinaryOperator' and c.get('opcode') == '!=':
            a, b = kids(c)
            if is_zero(b): c = strip(a)
            elif is_zero(a): c = strip(b)
            else: return False
        if key is not None: return lv_key(c) == key
        if c is call: return True
        if c.get('kind') == 'BinaryOperator' and c.get('opcode') == '=':
            return strip(kids(c)[1]) is call and lv_key(kids(c)[0]) is not None
        return False

    def error_checked(self):
        """set of site indices whose result is tested immediately"""
        ok = set()
        calls = {id(s['node']): i for i, s in enumerate(self.sites)}
        def visit(s):
            k = s.get('kind'); ch = s.get('inner') or []
            if k == 'IfStmt' and ch and ch[0]:
                for n in walk(ch[0]):
                    if id(n) in calls and self.cond_tests(ch[0], call=n) and self.clean_return(ch[1] if len(ch) > 1 else None):
                        ok.add(calls[id(n)])
            if k == 'CompoundStmt':
                for a, b in zip(ch, ch[1:]):
                    if a is None or b is None or b.get('kind') != 'IfStmt': continue
                    key = None; call = None
                    if a.get('kind') == 'DeclStmt' and len(kids(a)) == 1 and kids(a)[0].get('kind') == 'VarDecl' and kids(kids(a)[0]):
                        call = strip(kids(kids(a)[0])[-1]); key = ('v', kids(a)[0]['id'])
                    else:
                        e = strip(a, casts=False)
                        if e.get('kind') == 'BinaryOperator' and e.get('opcode') == '=':
                            call = strip(kids(e)[1]); key = lv_key(kids(e)[0])
                    if call is not None and key is not None and id(call) in calls:
                        bch = b.get('inner') or []
                        if bch and bch[0] and self.cond_tests(bch[0], key=key) and self.clean_return(bch[1] if len(bch) > 1 else None):
                            ok.add(calls[id(call)])
                for i, a in enumerate(ch):            # `X = CALL;` / `CALL;` and the rest of the block leaves the function
                    if a is None or a.get('kind', '').endswith('Stmt'): continue
                    e = strip(a)
                    if e.get('kind') == 'BinaryOperator' and e.get('opcode') == '=' and lv_key(kids(e)[0]) is not None: e = strip(kids(e)[1])
                    if id(e) in calls and self.clean_return(dict(kind='CompoundStmt', inner=ch[i + 1:])):
                        ok.add(calls[id(e)])
            for c in ch:
                if c: visit(c)
        visit(self.body)
        return ok

# ----------------------------------------------------------------------------- whole-program part
def analyse(results, texts):
    """results: list of file_job outputs; texts: rel -> source text.  Returns (records, problems, ndirect)"""
    problems = []
    # movers: fixed point over function definitions that contain a site
    allfns = []
    for r in results:
        for ci, fns in enumerate(r['cfgs']):
            for fn in fns: allfns.append((r['rel'], ci, fn))
    movers = {}
    while True:
        new = dict(movers)
        for rel, ci, fn in allfns:
            body = next(c for c in kids(fn) if c.get('kind') == 'CompoundStmt')
            best = None
            for n in walk(body):
                if n.get('kind') != 'CallExpr': continue
                cn = callee_name(n)
                if cn is None or cn == fn.get('name'): continue
                p = prim_of(cn)
                if p:
                    kind, idx = p; o = 0
                    if idx is not None:
                        args = kids(n)[1:]; a = strip(args[idx]) if idx < len(args) else None
                        nm = (a.get('ref') or {}).get('name') if a is not None else None
                        o = TYPE_ORD.get(nm, 0) if a is not None and (a.get('ref') or {}).get('kind') == 'EnumConstantDecl' else 0
                elif cn in movers: o = movers[cn]
                else: continue
                best = o if best is None else min(best, o)
            if best is not None and prim_of(fn.get('name', '')) is None:
                new[fn['name']] = min(best, new.get(fn['name'], 9))
        if new == movers: break
        movers = new
    records = {}; ndirect = {}
    for rel, ci, fn in allfns:
        F = Fn(fn, movers)
        if not F.sites: continue
        stale = F.solve(); ok = F.error_checked()
        text = texts[rel]
        for off, tl, name in F.checklocs:
            if tl and text[off:off + len(name)] != name: problems.append('%s: location of a use of %s does not match the source text' % (rel, name))
        for i, s in enumerate(F.sites):
            n = s['node']
            if n['tl'] and text[n['off']:n['off'] + len(s['callee'])] != s['callee']:
                problems.append('%s:%d: location of the call of %s does not match the source text' % (rel, n['line'], s['callee']))
            key = (rel, F.name, n['line'], n['off'], s['callee'])
            rec = records.get(key)
            if rec is None:
                rec = records[key] = dict(file=rel, func=F.name, line=n['line'], callee=s['callee'], kind=s['kind'], memType=s['memType'],
                                          returnsCode=s['returnsCode'], errorChecked=(i in ok), stale=set())
                if s['kind'] == 'direct': ndirect[rel] = ndirect.get(rel, 0) + 1
            else:                                   # second configuration of the same file: merge conservatively
                rec['errorChecked'] = rec['errorChecked'] and (i in ok)
                if TYPE_ORD[s['memType']] < TYPE_ORD[rec['memType']]: rec['memType'] = s['memType']
            rec['stale'] |= stale[i]
    for r in results:
        if ndirect.get(r['rel'], 0) != r['ntext']:
            problems.append('%s: %d expansion calls in the text, %d in the syntax tree' % (r['rel'], r['ntext'], ndirect.get(r['rel'], 0)))
    recs = sorted(records.values(), key=lambda x: (x['file'], x['line'], x['func'], x['callee']))
    for r in recs: r['stale'] = sorted(r['stale'], key=lambda t: (t[2], t[0], t[1]))
    return recs, problems, sum(ndirect.values())

def lean_str(s):
    return '"' + s.replace('\\', '\\\\').replace('"', '\\"').replace('\n', ' ') + '"'

LEAN_HEADER = '''/- GENERATED by tools/xpandscan.py from the working tree of the SuperLU repository on every `./check run C07`
   (and C08).  Do not edit.  One record per place outside [sdcz]memory.c where the factor storage may move
   (see the header of tools/xpandscan.py for the exact rules).  Input of `Slu.Mem.clients_refresh_pointers`. -/
namespace Slu.Gen

/-- a use of a local copy of `Glu-><field>` that a path from the site reaches without the copy having been
re-read from `Glu` -/
structure StaleUse where
  var : String
  field : String         -- lusup | ucol | lsub | usub
  useLine : Nat
deriving Repr, DecidableEq

structure XpandSite where
  file : String          -- translation unit, relative to the repository
  func : String          -- enclosing function
  line : Nat
  callee : String
  kind : String          -- direct ([sdcz]LUMemXpand / [sdcz]expand) | whole (LUMemInit, LUWorkFree, StackCompress) | via (callee contains a site)
  memType : String       -- LUSUP | UCOL | LSUB | USUB as written at the call; ALL ; ? (not a constant)
  returnsCode : Bool     -- the callee returns the error code (false: void)
  errorChecked : Bool    -- the returned code is tested and the function left when it is nonzero (or left anyway) before anything else happens
  stale : List StaleUse
deriving Repr, DecidableEq

'''

def emit(gen, ok, msg, nfiles, ndirect, recs):
    b = lambda v: 'true' if v else 'false'
    out = [LEAN_HEADER]
    out.append('/-- false when the translator failed or its self check did not pass; then the table below is not to be trusted -/\n')
    out.append('def xpandOk : Bool := %s\n' % b(ok))
    out.append('def xpandMessage : String := %s\n' % lean_str(msg))
    out.append('/-- number of files of SRC/ that contain at least one site -/\ndef xpandFiles : Nat := %d\n' % nfiles)
    out.append('/-- number of direct sites -/\ndef xpandDirect : Nat := %d\n\n' % ndirect)
    out.append('def xpandSites : List XpandSite := [\n')
    rows = []
    for r in recs:
        st = ', '.join('{ var := %s, field := %s, useLine := %d }' % (lean_str(v), lean_str(f), l) for v, f, l in r['stale'])
        rows.append('  { file := %s, func := %s, line := %d, callee := %s, kind := %s, memType := %s,\n    returnsCode := %s, errorChecked := %s, stale := [%s] }' % (
            lean_str(r['file']), lean_str(r['func']), r['line'], lean_str(r['callee']), lean_str(r['kind']), lean_str(r['memType']),
            b(r['returnsCode']), b(r['errorChecked']), st))
    out.append(',\n'.join(rows))
    out.append('\n]\n\nend Slu.Gen\n')
    text = ''.join(out)
    os.makedirs(gen, exist_ok=True)
    path = os.path.join(gen, 'XpandSites.lean')
    if os.path.exists(path) and open(path).read() == text: return
    tmp = path + '.tmp%d' % os.getpid()
    open(tmp, 'w').write(text); os.replace(tmp, path)

def candidate_sources(repo):
    """files of SRC/ that can contain a site: they mention GlobalLU_t or one of the primitive movers"""
    out = []
    for s in sorted(glob.glob(os.path.join(repo, 'SRC', '*.c'))):
        if re.fullmatch(r'[sdcz]memory\.c', os.path.basename(s)): continue
        t = open(s, encoding='latin1').read()
        if 'GlobalLU_t' in t or DIRECT_TEXT_RE.search(t) or re.search(r'\b[sdcz](LUMemInit|LUWorkFree|StackCompress)\b', t):
            out.append(s)
    return out

def scan(repo, gen, want_json=False):
    root = os.path.dirname(os.path.dirname(os.path.abspath(__file__)))
    cachedir = os.path.join(root, '.work', 'xpandscan-cache'); os.makedirs(cachedir, exist_ok=True)
    srcs = candidate_sources(repo)
    if not srcs: raise RuntimeError('no sources under ' + repo)
    hdrs = sorted(glob.glob(os.path.join(repo, 'SRC', '*.h'))) + sorted(glob.glob(os.path.join(repo, 'CBLAS', '*.h')))
    hh = hashlib.sha256()
    for h in hdrs:
        hh.update(os.path.basename(h).encode()); hh.update(open(h, 'rb').read())
    hh.update(open(os.path.abspath(__file__), 'rb').read()); hh.update(VERSION.encode())
    hbase = hh.hexdigest()
    incs = ['-I' + os.path.join(repo, 'SRC'), '-I' + os.path.join(repo, 'CBLAS')]
    jobs = []; keys = set(); texts = {}
    for s in srcs:
        rel = os.path.relpath(s, repo)
        raw = open(s, 'rb').read(); texts[rel] = raw.decode('latin1')
        k = hashlib.sha256((hbase + rel).encode() + raw).hexdigest()[:32]
        keys.add(k + '.json'); jobs.append((s, rel, incs, k, cachedir))
    with ProcessPoolExecutor(os.cpu_count() or 4) as ex:
        results = list(ex.map(file_job, jobs, chunksize=2))
    others = [f for f in os.listdir(cachedir) if f.endswith('.json') and f not in keys]
    if len(others) > 400:
        others.sort(key=lambda f: os.path.getmtime(os.path.join(cachedir, f)))
        for f in others[:len(others) - 400]:
            try: os.unlink(os.path.join(cachedir, f))
            except OSError: pass
    recs, problems, ndirect = analyse(results, texts)
    # self check: every family present for the four precisions with a direct site
    have = {}
    for r in recs:
        if r['kind'] == 'direct': have[os.path.basename(r['file'])] = have.get(os.path.basename(r['file']), 0) + 1
    for p in 'sdcz':
        for f in FAMILIES:
            if not have.get('%s%s.c' % (p, f)): problems.append('no direct site found in SRC/%s%s.c' % (p, f))
        for f in ILU_FAMILIES:
            if not have.get('ilu_%s%s.c' % (p, f)): problems.append('no direct site found in SRC/ilu_%s%s.c' % (p, f))
    if ndirect < MIN_DIRECT: problems.append('only %d direct sites found (expected at least %d)' % (ndirect, MIN_DIRECT))
    nfiles = len(set(r['file'] for r in recs))
    ok = not problems
    emit(gen, ok, 'ok' if ok else '; '.join(problems)[:900], nfiles, ndirect, recs)
    if want_json: print(json.dumps(recs, indent=1))
    return recs, problems, nfiles, ndirect, len(srcs)

# ----------------------------------------------------------------------------- self test
SELFTEST_PRE = r'''
typedef enum {LUSUP, UCOL, LSUB, USUB} MemType;
typedef struct { int *xsup; void *lusup; void *ucol; int *lsub; int *usub; int nzlmax; } GlobalLU_t;
extern int (dLUMemXpand)(int, int, MemType, int *, GlobalLU_t *);   /* parenthesised: the textual cross-check counts `name(` */
extern void dStackCompress(GlobalLU_t *);
extern void sink(double *, int *);
'''
SELFTEST_C = SELFTEST_PRE + r'''
int good(int n, int *perm, GlobalLU_t *Glu) {              /* (i) the correct pattern, twice */
    int *lsub = Glu->lsub, *usub; double *ucol; int nzumax = 0, mem_error, i, next = 0;
    ucol = (double *) Glu->ucol; usub = Glu->usub;
    for (i = 0; i < n; i++) {
        while (next + perm[i] > nzumax) {
            mem_error = dLUMemXpand(i, next, UCOL, &nzumax, Glu);
            if (mem_error) return (mem_error);
            ucol = (double *) Glu->ucol;
            if ((mem_error = dLUMemXpand(i, next, USUB, &nzumax, Glu)) != 0)
                return (mem_error);
            usub = Glu->usub;
            lsub = Glu->lsub;
        }
        usub[next] = lsub[i]; ucol[next] = 1.0; next++;
    }
    return 0;
}
int missing(int n, GlobalLU_t *Glu) {                      /* (ii) lsub not re-read after UCOL grew */
    int *lsub = Glu->lsub; double *ucol = (double *) Glu->ucol; int nzumax = 0, mem_error, s = 0;
    while (n > nzumax) {
        mem_error = dLUMemXpand(0, 0, UCOL, &nzumax, Glu);
        if (mem_error) return (mem_error);
        ucol = (double *) Glu->ucol;
    }
    s = lsub[0];                                           /* mark 33: stale */
    ucol[0] = s;
    return 0;
}
int nextiter(int n, GlobalLU_t *Glu) {                     /* (iii) the use is above the call, in the same loop */
    int *lsub = Glu->lsub; int nzlmax = Glu->nzlmax, mem_error, k, nextl = 0;
    for (k = 0; k < n; k++) {
        lsub[nextl++] = k;                                 /* mark 40: stale on the next iteration */
        if (nextl >= nzlmax) {
            mem_error = dLUMemXpand(0, nextl, LSUB, &nzlmax, Glu);
            if (mem_error) return (mem_error);
        }
    }
    return 0;
}
int unchecked(int n, GlobalLU_t *Glu) {                    /* (iv) the code is not tested */
    int *lsub; int nzlmax = 0, mem_error;
    mem_error = dLUMemXpand(0, n, LSUB, &nzlmax, Glu);
    lsub = Glu->lsub;
    lsub[0] = mem_error;
    return 0;
}
int earlier_not_moved(int n, GlobalLU_t *Glu) {            /* lusup is stored before LSUB: does not move, not the grown one */
    double *lusup = (double *) Glu->lusup; int *usub = Glu->usub; int nzlmax = 0, e;
    if ((e = dLUMemXpand(0, n, LSUB, &nzlmax, Glu))) return e;
    lusup[0] = 1.0;                                        /* fine */
    usub[0] = 1;                                           /* mark 60: stale (USUB is after LSUB) */
    return 0;
}
int moved_up(int n, GlobalLU_t *Glu) {                     /* the refresh was moved above the call */
    int *lsub = Glu->lsub; int nzlmax = 0, e;
    while (n >= nzlmax) {
        lsub = Glu->lsub;
        e = dLUMemXpand(0, n, LSUB, &nzlmax, Glu);
        if (e) { return e; }
    }
    lsub[0] = 1;                                           /* mark 70: stale */
    return 0;
}
int derived(int n, GlobalLU_t *Glu) {                      /* a pointer computed from a copy */
    double *lusup = (double *) Glu->lusup, *col; int nzlumax = 0, e;
    col = &lusup[n];
    if ((e = dLUMemXpand(0, n, LUSUP, &nzlumax, Glu)) != 0) return e;
    lusup = (double *) Glu->lusup;
    col[0] = 0.0;                                          /* mark 78: stale through col */
    col = lusup + n; col[1] = 0.0;                         /* fine */
    return 0;
}
int caller(int n, GlobalLU_t *Glu) {                       /* via a callee that contains a site; whole-storage mover */
    int *lsub = Glu->lsub; int e;
    if ((e = nextiter(n, Glu)) != 0) return e;
    sink(0, lsub);                                         /* mark 85: stale after nextiter may have grown LSUB */
    lsub = Glu->lsub;
    dStackCompress(Glu);
    return lsub[0];                                        /* mark 88: stale */
}
int branches(int n, GlobalLU_t *Glu) {                     /* refreshed on one branch only; switch; goto; dead afterwards */
    int *lsub = Glu->lsub; int nzlmax = 0, e;
    e = dLUMemXpand(0, n, LSUB, &nzlmax, Glu);
    if (e != 0) return e;
    switch (n) { case 1: lsub = Glu->lsub; break; case 2: break; default: lsub = Glu->lsub; }
    if (n == 7) goto out;
    lsub[0] = 1;                                           /* mark 96: stale through case 2 */
    lsub = Glu->lsub;
out:
    return lsub[1];                                        /* mark 99: stale through the goto */
}
int leaves(int n, int *info, GlobalLU_t *Glu) {             /* not tested, but the function is left at once */
    int nzlmax = 0;
    if (n < 0) {
        *info = dLUMemXpand(0, n, LSUB, &nzlmax, Glu);
        n = *info - 1;
        return n;
    }
    *info = dLUMemXpand(0, n, LSUB, &nzlmax, Glu);
    sink(0, info);                                         /* a call: not "left at once" */
    return 0;
}
int not_reported(int n, GlobalLU_t *Glu) {                 /* only re-assigned afterwards; checked through a declaration */
    int *lsub = Glu->lsub; int nzlmax = 0;
    lsub[0] = 0;
    { int error = dLUMemXpand(0, n, LSUB, &nzlmax, Glu);
      if (error) { n = error; return n; } }
    lsub = Glu->lsub;
    return 0;
}
'''
def selftest():
    d = tempfile.mkdtemp(prefix='xpandst')
    try:
        src = os.path.join(d, 'dtest.c'); open(src, 'w').write(SELFTEST_C)
        res = file_job((src, 'dtest.c', [], 'k', None))
        recs, problems, ndirect = analyse([res], {'dtest.c': SELFTEST_C})
        by = {}
        for r in recs: by.setdefault(r['func'], []).append(r)
        bad = list(problems)
        L = lambda k: 1 + SELFTEST_C[:SELFTEST_C.index('mark %d:' % k)].count('\n')      # line of the comment `mark k:`
        def expect(func, idx, memType, kind, checked, stale):
            rs = by.get(func, [])
            if idx >= len(rs): bad.append('%s: site %d missing' % (func, idx)); return
            r = rs[idx]
            got = (r['memType'], r['kind'], r['errorChecked'], [tuple(x) for x in r['stale']])
            if got != (memType, kind, checked, stale): bad.append('%s[%d]: got %s, expected %s' % (func, idx, got, (memType, kind, checked, stale)))
        expect('good', 0, 'UCOL', 'direct', True, [])
        expect('good', 1, 'USUB', 'direct', True, [])
        expect('missing', 0, 'UCOL', 'direct', True, [('lsub', 'lsub', L(33))])
        expect('nextiter', 0, 'LSUB', 'direct', True, [('lsub', 'lsub', L(40))])
        expect('unchecked', 0, 'LSUB', 'direct', False, [])
        expect('earlier_not_moved', 0, 'LSUB', 'direct', True, [('usub', 'usub', L(60))])
        expect('moved_up', 0, 'LSUB', 'direct', True, [('lsub', 'lsub', L(70))])
        expect('derived', 0, 'LUSUP', 'direct', True, [('col', 'lusup', L(78))])
        expect('caller', 0, 'LSUB', 'via', True, [('lsub', 'lsub', L(85))])
        expect('caller', 1, 'ALL', 'whole', False, [('lsub', 'lsub', L(88))])
        expect('branches', 0, 'LSUB', 'direct', True, [('lsub', 'lsub', L(96)), ('lsub', 'lsub', L(99))])
        expect('not_reported', 0, 'LSUB', 'direct', True, [])
        expect('leaves', 0, 'LSUB', 'direct', True, [])
        expect('leaves', 1, 'LSUB', 'direct', False, [])
        if ndirect != 12: bad.append('direct sites: %d, expected 12' % ndirect)
        if res['ntext'] != 12: bad.append('textual count: %d, expected 12' % res['ntext'])
        caller1 = by.get('caller', [None, None])[1]
        if caller1 and caller1['returnsCode']: bad.append('dStackCompress returns void')
        # a call removed by the preprocessor must fail the text/AST cross-check
        src2 = os.path.join(d, 'dtest2.c')
        t2 = SELFTEST_PRE + 'int f(GlobalLU_t *Glu) { int m = 0;\n#ifdef NOPE\n dLUMemXpand(0, 0, LSUB, &m, Glu);\n#endif\n return dLUMemXpand(0, 0, USUB, &m, Glu); }\n'
        open(src2, 'w').write(t2)
        _, p2, _ = analyse([file_job((src2, 'dtest2.c', [], 'k', None))], {'dtest2.c': t2})
        if not any('in the text' in x for x in p2): bad.append('inactive call not noticed by the cross-check')
        if bad:
            print('xpandscan selftest FAILED:\n  ' + '\n  '.join(bad)); return 1
        print('xpandscan selftest ok (%d sites)' % len(recs)); return 0
    finally:
        shutil.rmtree(d, ignore_errors=True)

def main():
    a = [x for x in sys.argv[1:] if not x.startswith('--')]
    if '--selftest' in sys.argv: return selftest()
    if len(a) < 2:
        print(__doc__); return 2
    repo, gen = a[0], a[1]
    try:
        recs, problems, nfiles, ndirect, nsrc = scan(repo, gen, '--json' in sys.argv)
    except Exception as e:
        msg = 'xpandscan translator failed: %s' % (str(e)[:500])
        try: emit(gen, False, msg, 0, 0, [])
        except Exception: pass
        print(msg, file=sys.stderr)
        return 1
    if '--json' not in sys.argv:
        print('xpandscan: %d candidate files, %d with sites; %d sites (%d direct), %d unchecked, %d with possibly stale uses' % (
            nsrc, nfiles, len(recs), ndirect, sum(1 for r in recs if r['returnsCode'] and not r['errorChecked']), sum(1 for r in recs if r['stale'])))
    if problems:
        print('xpandscan self check FAILED: ' + '; '.join(problems), file=sys.stderr)
        return 1
    return 0

if __name__ == '__main__':
    sys.exit(main())
