#!/usr/bin/env python3
"""Regenerates /verif/MANIFEST.json from tools/props.py (run after editing props.py)."""
import json, os, sys
ROOT = os.path.dirname(os.path.dirname(os.path.abspath(__file__)))
sys.path.insert(0, os.path.join(ROOT, 'tools'))
import props
ALL = ['C%02d' % i for i in range(1, 21)]
checks = []
for pid in ALL:
    if pid not in props.PROPS or not props.PROPS[pid].get('claimed', True): continue
    P = props.PROPS[pid]
    checks.append(dict(
        property_id=pid,
        quick_cmd='./check run %s --tier quick' % pid,
        thorough_cmd='./check run %s --tier thorough' % pid,
        evidence_file='evidence/%s.json' % pid,
        replay_cmd_template='./check replay {path}',
        engine='lean4+correspondence',
        level_claimed=dict(category='proof', text=P['level_text'], design_ref=P.get('design_ref', 'DESIGN.md section 6, ' + pid)),
        level_note=P['level_note'],
        technique=P.get('technique', 'Lean 4 theorems about an executable model + differential correspondence check against the C code')))
na = [dict(property_id=pid, reason=props.NOT_CLAIMED.get(pid, 'check not built yet (work in progress; see DESIGN.md section 10)'))
      for pid in ALL if pid not in [c['property_id'] for c in checks]]
m = dict(version=1, setup_cmd='./check setup',
         hooks=dict(guard='SLU_VERIF', enable="-DSLU_VERIF on the check's own compile lines (the check compiles SRC/, CBLAS/, FORTRAN/c_fortran_*.c itself)",
                    baseline_off_cmd='./check baseline', source_commits=props.HOOK_COMMITS, add_only=True),
         engines=[dict(name='lean4+correspondence', path='check', serves_properties=[c['property_id'] for c in checks],
                       kind_free_text='Lean 4 model + theorems (lean/), C harness built from /repo working tree with ASan/UBSan (harness/), line-protocol differential check')],
         checks=checks, not_applicable=na,
         notes='See DESIGN.md. Every check rebuilds SuperLU from /repo\'s working tree (content-hashed cache under .work/).')
json.dump(m, open(os.path.join(ROOT, 'MANIFEST.json'), 'w'), indent=1)
print('wrote MANIFEST.json with', len(checks), 'checks;', len(na), 'not claimed')
