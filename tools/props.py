"""Per-property configuration for /verif/check: correspondence families, case counts, variants."""
PROPS = {}
def prop(pid, families, **kw):
    d = dict(families=families); d.update(kw); PROPS[pid] = d

prop('C11', [dict(name='equil', quick=800, thorough=20000)],
     rule='gsequ+laqgs on generated m-by-n matrices (patterns x value modes: ordinary, wide exponent range, row/column scaled, mixed; explicit zero rows/columns); non-trivial = at least 2 stored entries and info = 0 or a zero row/column reported; distinct by hash of the case text',
     trusted_base=['IEEE double/single arithmetic of Lean Float/Float32 equals the C compiler\'s (start-up self test)', 'dmach/smach constants are passed to the model as parameters and compared'],
     assumptions=['machine constants: sfmin = DBL_MIN/FLT_MIN, eps = DBL_EPSILON/2 resp. FLT_EPSILON/2 as returned by dmach/smach'])
