"""Per-property configuration for /verif/check: correspondence families, case counts, variants."""
PROPS = {}
NOT_CLAIMED = {}
HOOK_COMMITS = ['1939bdb']
def prop(pid, families, **kw):
    d = dict(families=families); d.update(kw); PROPS[pid] = d

prop('C11', [dict(name='equil', quick=800, thorough=20000)],
     level_text='Proof (Lean 4): for every m-by-n entry list and machine constants 0<sml<=big the modelled gsequ/laqgs produce factors in [1/big,1/sml], make each row/column maximum exactly 1 unless clamped, report the first zero row/column by position, the documented ratios and the N/R/C/B rule with exact application. The model is a statement-order mirror of the four C files and is compared bit-for-bit with them on every run.',
     level_note='Theorems are in exact rational arithmetic (every finite float is a rational); the floating-point instance is tied by bit-exact correspondence on sampled inputs, not by proof. Overflow of the intermediate product cj*r[i] and underflow are outside "up to rounding". Machine constants come from dmach/smach at run time.',
     technique='Lean 4 proof over a bit-mirror model + bit-exact differential check (s,d,c,z)',
     rule='gsequ+laqgs on generated m-by-n matrices (patterns x value modes: ordinary, wide exponent range, row/column scaled, mixed; explicit zero rows/columns); non-trivial = at least 2 stored entries and info = 0 or a zero row/column reported; distinct by hash of the case text',
     trusted_base=['IEEE double/single arithmetic of Lean Float/Float32 equals the C compiler\'s (start-up self test)', 'dmach/smach constants are passed to the model as parameters and compared'],
     assumptions=['machine constants: sfmin = DBL_MIN/FLT_MIN, eps = DBL_EPSILON/2 resp. FLT_EPSILON/2 as returned by dmach/smach'])
