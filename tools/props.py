"""Per-property configuration for /verif/check: correspondence families, case counts, variants."""
PROPS = {}
NOT_CLAIMED = {}
HOOK_COMMITS = ['1939bdb', '502bacd', '48237db', '597f78f', '6306afa']
def prop(pid, families=None, **kw):
    d = dict(families=families); d.update(kw); PROPS[pid] = d

import glob as _glob, os as _os
for _f in sorted(_glob.glob(_os.path.join(_os.path.dirname(_os.path.abspath(__file__)), 'props.d', '*.py'))):
    exec(compile(open(_f).read(), _f, 'exec'))
