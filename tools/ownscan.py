#!/usr/bin/env python3
"""ownscan.py <repo> <lean/Slu/Gen dir> [--selftest] [--json] [--report]

TRANSLATOR for property C19 (DESIGN.md section 4), the OBJECT half.  tools/leakscan.py ties "blocks a routine allocates
for its own use are released on every path" to the source text; this script ties "what a Destroy_* / *Free routine
frees is exactly what the object holds" to it.  It reuses leakscan's loading (same clang-14 JSON syntax trees of EVERY
file of <repo>/SRC, same cache, same -I/-D flags: guard -DSLU_VERIF on, files that mention SLU_VERIF also with the guard
off, records of both configurations united) and its whole-program summaries (allocators, releasers), and emits
<gen>/Ownership.lean, the input of `destroy_frees_what_is_owned`, `constructors_allocate_what_is_owned` and
`ownership_scan_complete` (Props/C19.lean).

Access paths.  Every pointer expression is resolved to (parameter of the enclosing function, field path): `A->Store`,
`((NCformat *)A->Store)->rowind` (casts dropped), `Lstore->nzval_colptr` with `Lstore = L->Store` (a local pointer that
is assigned exactly once is replaced by what it was assigned), `stat->ops`, `*at` (path `*`: what an output pointer
parameter points to), `Glu->expanders[k].mem` (`expanders->*->mem`).  The parameter ITSELF has the empty path.

Releaser records (role `releaser`).  For every function and every call of `free` / `superlu_free` / a derived wrapper on
an expression with a path: one record (routine, parameter, path, guard, order).  Calls of routines that themselves have
releaser records are composed, one level (`Destroy_SuperMatrix_Store(AA)` inside F with AA a parameter of F gives F a record
`AA: Store`, via the callee; such a record is informative: `twice` / `useAfterFree` are decided among the releases in the
routine's OWN text only, because what the callee does after its release - reset the pointer, return an error - is not seen).  `twice` / `useAfterFree` are not raised for a path through an array element (`expanders->*->mem`:
the index is not known).  guard = conjunction of the conditions of the enclosing `if` arms (`!(c)` for an else arm,
`loop(c)` inside a loop, `switch(..)`), "" when unconditional.  `twice`: the same path is released again later in the
routine by a release that is not in the other arm of the same `if`, without the path having been assigned in between.
`useAfterFree`: a later expression (same exclusions) dereferences the released pointer (its path properly extends the
released path) or passes the released pointer itself to a call.  An assignment to the path (`Glu->expanders = NULL`), or a
`return` in the arm that contains the release, ends the released state.  Statement order stands for execution order
(loops are not unrolled).

Constructor records (role `constructor`).  For every assignment `LV = E` with LV of pointer type and a non-empty path:
  fresh     E is a call of an allocating function (leakscan's derived set: whatever returns what malloc returned);
  storage   E is a call of [sdcz]expand (the growable factor storage: a malloc'ed block under library allocation, a
            piece of the caller's work area otherwise);
  workarea  E is a call of [sdcz]user_malloc (a piece of the caller's work area);
  borrowed  E is a pointer parameter (source = its name: `Astore->nzval = nzval`) or has a path of its own
            (source = that path: `ACstore->nzval = Astore->nzval` gives source `A->Store->nzval`);
  null      E is the constant 0 (not emitted);
  other     anything else (source = the text of E; emitted for stores in the routine's own text only).
A local variable on the right is replaced by EACH of its defining assignments, the guard of the definition joined to the
guard of the store (`if (Glu->MemModel == SYSTEM) xsup = int32Malloc(..) else xsup = Xuser_malloc(..)` ... `Glu->xsup =
xsup` gives a fresh and a workarea record with their guards).  Calls of routines that have constructor records are
composed: the callee's path is appended to the path of the actual argument, a callee-borrowed parameter is replaced by the
classification of the actual argument (`dCreate_CompCol_Matrix(U, .., Glu->ucol, ..)` inside dgstrf: `U: Store` fresh via
the callee, `U: Store->nzval` borrowed from `Glu->ucol`; `dallocateA(.., nzval, rowind, colptr)` inside dreadhb:
`nzval: *` fresh).  ONE level of composition (records a callee itself got by composition are not passed on), so the tables stay small and every record
names the routine in whose text the store / release stands.  What the storage layer ([sdcz]LUMemInit, LUMemXpand, expand, LUWorkInit,
SetupSpace, StackCompress) stores into Glu is listed at those routines and not passed on to their callers (every routine of the
factorization would otherwise repeat it; the growth of the factor storage is the subject of tools/xpandscan.py, C07/C08).

Self check (`ownOk`): the built-in self test passes (small C routines with known answers: alias resolution, a guarded
release, a release in both arms, double release, use after release, release + NULL, composition through a callee,
fresh / borrowed / out-parameter constructors); the anchors (Destroy_CompCol_Matrix, StatFree, dCreate_CompCol_Matrix,
sp_preorder, dgstrf, dLUMemInit, dallocateA) all have records; every `free`-family call whose argument is rooted at a
parameter through at least one field either got a path or is counted in `ownUnresolved` (the theorem bounds that count).

Limits: paths are syntactic (two different paths to the same block are different; aliasing through memory is not
followed); execution order inside a routine is statement order; a release inside a loop is recorded once with a `loop`
guard; which of several same-named fields of DIFFERENT record types is meant is reported in `inType` (the record type the
last field is selected from), not decided.  The scanner is part of the trusted base of the three theorems.
"""
import sys, os, re, json
sys.path.insert(0, os.path.dirname(os.path.abspath(__file__)))
import xpandscan as X
from xpandscan import kids, strip, walk, var_ref, callee_name, lean_str
import leakscan as L
from leakscan import sp, show, const_of, events_of, FnInfo, Program

VERSION = 'ownscan-1'
STORAGE_RE = re.compile(r'^[sdcz]expand$')
WORKAREA_RE = re.compile(r'^[sdcz]user_malloc$')
STORAGE_LAYER_RE = re.compile(r'^[sdcz](LUMemInit|LUMemXpand|expand|LUWorkInit|SetupSpace|StackCompress)$')
ANCHORS_REL = ['Destroy_SuperMatrix_Store', 'Destroy_CompCol_Matrix', 'Destroy_CompRow_Matrix', 'Destroy_SuperNode_Matrix',
               'Destroy_CompCol_Permuted', 'Destroy_Dense_Matrix', 'StatFree', 'dLUWorkFree']
ANCHORS_CON = ['dCreate_CompCol_Matrix', 'dCreate_CompRow_Matrix', 'dCreate_Dense_Matrix', 'dCreate_SuperNode_Matrix', 'StatInit',
               'sp_preorder', 'dgstrf', 'dLUMemInit', 'dallocateA', 'dCompRow_to_CompCol']
MAX_ROUNDS = 5
SEP = '\x1f'            # separates the conditions of a guard internally

def render(path):
    return '->'.join(path)

def base_type(e):
    """record type the outermost member of expression e is selected from ("" when e is not a member access)"""
    e = sp(e)
    if e is None or e.get('kind') != 'MemberExpr' or not kids(e): return ''
    b = kids(e)[0]
    while b is not None and b.get('kind') == 'ParenExpr' and len(kids(b)) == 1: b = kids(b)[0]
    t = (b.get('ty') or '') if b is not None else ''
    t = re.sub(r'\b(const|struct|volatile|restrict)\b', '', t).replace('*', '').strip()
    return t

class Guard:
    """one enclosing control construct: (id of the statement, arm, text)"""
    __slots__ = ('sid', 'arm', 'text')
    def __init__(self, sid, arm, text): self.sid = sid; self.arm = arm; self.text = text

def gtext(gs):
    return SEP.join(g.text for g in gs)

def exclusive(g1, g2):
    """the two guard stacks lie in different arms of the same `if`"""
    d = {g.sid: g.arm for g in g1 if g.arm in ('T', 'F')}
    return any(g.sid in d and g.arm in ('T', 'F') and d[g.sid] != g.arm for g in g2)

def is_prefix(gs, hs):
    return len(gs) <= len(hs) and all(a.sid == b.sid and a.arm == b.arm for a, b in zip(gs, hs))

class FnOwn:
    """ordered events of one function definition with their guards"""
    def __init__(self, P, f):
        self.P = P; self.f = f
        self.ev = []          # (kind, payload, guards, line)  kind: 'assign' | 'call' | 'ret' | 'use'
        self.defs = {}        # local variable id -> [(rhs, guards)]
        self.unresolved = 0
        self.stmt(f.body, [])

    def cond_text(self, c):
        return L.clip(show(c), 120)

    def expr(self, e, gs, decl=None):
        if e is None: return
        for ev in events_of(e, decl):
            if ev[0] == 'assign':
                self.ev.append(('assign', (ev[1], ev[2]), gs, e.get('line', 0)))
                l = strip(ev[1], casts=False)
                if l is not None and var_ref(l) and var_ref(l) in self.f.locals: self.defs.setdefault(var_ref(l), []).append((ev[2], gs))
            elif ev[0] == 'declinit':
                self.defs.setdefault(ev[1], []).append((ev[2], gs))
            elif ev[0] == 'call':
                self.ev.append(('call', ev[1], gs, ev[1].get('line', 0) or e.get('line', 0)))
        self.ev.append(('use', e, gs, e.get('line', 0)))

    def stmt(self, s, gs):
        if s is None: return
        k = s.get('kind'); ch = s.get('inner') or []
        if k == 'CompoundStmt':
            for c in ch: self.stmt(c, gs)
        elif k == 'DeclStmt':
            for d in kids(s):
                if d.get('kind') == 'VarDecl' and d.get('init') and kids(d): self.expr(kids(d)[-1], gs, d['id'])
        elif k == 'IfStmt':
            c = ch[0] if ch else None
            self.expr(c, gs)
            t = self.cond_text(c)
            self.stmt(ch[1] if len(ch) > 1 else None, gs + [Guard(id(s), 'T', t)])
            if len(ch) > 2 and ch[2]: self.stmt(ch[2], gs + [Guard(id(s), 'F', '!(%s)' % t)])
        elif k in ('WhileStmt', 'DoStmt', 'ForStmt'):
            body = ch[-1] if k != 'DoStmt' else (ch[0] if ch else None)
            conds = [c for c in ch if c is not None and c is not body]
            g = gs + [Guard(id(s), 'L', 'loop(%s)' % (self.cond_text(conds[-1]) if conds and k != 'ForStmt' else '..'))]
            for c in conds:
                if c.get('kind') == 'DeclStmt': self.stmt(c, g)
                else: self.expr(c, g)
            self.stmt(body, g)
        elif k == 'SwitchStmt':
            self.expr(ch[0] if ch else None, gs)
            self.stmt(ch[-1] if ch else None, gs + [Guard(id(s), 'S', 'switch(%s)' % self.cond_text(ch[0] if ch else None))])
        elif k in ('CaseStmt', 'DefaultStmt', 'LabelStmt'):
            for c in ch:
                if c is not None: self.stmt(c, gs) if (c.get('kind', '').endswith('Stmt')) else self.expr(c, gs)
        elif k == 'ReturnStmt':
            if kids(s): self.expr(kids(s)[0], gs)
            self.ev.append(('ret', None, gs, s.get('line', 0)))
        elif k in ('BreakStmt', 'ContinueStmt', 'GotoStmt', 'NullStmt'):
            pass
        elif k and k.endswith('Stmt') and k not in ('StmtExpr',):
            for c in ch:
                if c is not None: self.stmt(c, gs)
        else:
            self.expr(s, gs)

class Own:
    def __init__(self, P):
        self.P = P
        self.fo = {}                                   # id(FnInfo) -> FnOwn
        self.rel = {}                                  # name -> [release record dicts]   (structured, for composition)
        self.con = {}                                  # name -> [constructor record dicts]
        self.unresolved = 0
        for f in P.fns: self.fo[id(f)] = FnOwn(P, f)
        for rnd in range(MAX_ROUNDS):
            changed = False
            for name, fl in P.by_name.items():
                r = []; c = []
                for f in fl:
                    r += self.releases(f); c += self.constructs(f)
                r = self.dedup(r, ('pidx', 'path', 'guard', 'via')); c = self.dedup(c, ('pidx', 'path', 'kind', 'srck', 'guard', 'via'))
                if self.sig(r) != self.sig(self.rel.get(name, [])): self.rel[name] = r; changed = True
                if self.sig(c) != self.sig(self.con.get(name, [])): self.con[name] = c; changed = True
            if not changed: break
        self.rounds = rnd + 1

    @staticmethod
    def sig(recs):
        return sorted((r['pidx'], r['path'], r.get('kind', ''), str(r.get('src')), r['guard'], r['via'], r.get('twice', False), r.get('uaf', False)) for r in recs)

    @staticmethod
    def dedup(recs, keys):
        seen = {}; out = []
        for r in recs:
            k = tuple(str(r.get(x)) for x in keys)
            if k in seen:
                o = seen[k]
                o['twice'] = o.get('twice', False) or r.get('twice', False); o['uaf'] = o.get('uaf', False) or r.get('uaf', False)
                continue
            seen[k] = r; out.append(r)
        return out

    # ------------------------------------------------------------------ releases
    def releases(self, f):
        fo = self.fo[id(f)]
        out = []; live = []          # live: released records whose path has not been assigned since
        for kind, pl, gs, line in fo.ev:
            if kind == 'call':
                cn = callee_name(pl); args = kids(pl)[1:]
                got = []
                if not (cn in self.P.free or cn in self.rel):         # a released pointer handed to some other routine
                    for a in args:
                        pth = f.path_of(a)
                        if pth is None: continue
                        for o in live:
                            if o['pidx'] == pth[0] and o['path'] == pth[1] and not exclusive(o['gs'], gs): o['uaf'] = True
                if cn in self.P.free:
                    for j in self.P.free[cn]:
                        if j >= len(args): continue
                        pth = f.path_of(args[j])
                        if pth is None:
                            v, d = L.root_of(args[j])
                            if v in f.pidx and d >= 1: fo.unresolved += 1
                            continue
                        got.append((pth[0], pth[1], '', base_type(args[j]), ''))
                if cn in self.rel and cn not in self.P.free:
                    for cr in self.rel[cn]:
                        if cr['via'] or cr['pidx'] >= len(args): continue      # one level of composition
                        b = f.path_of(args[cr['pidx']])
                        if b is None: continue
                        got.append((b[0], b[1] + cr['path'], cr['guard'], cr['inType'], cn))
                for pidx, path, cg, ity, via in got:
                    rec = dict(routine=f.name, role='releaser', pidx=pidx, param=f.params[pidx].get('name', ''), path=path, kind='freed', src=None, srck='',
                               guard=SEP.join(x for x in (gtext(gs), cg) if x), via=via, line=line, inType=ity, twice=False, uaf=False, gs=gs, file=f.rel)
                    if via:                       # a release inside a callee: listed, but what the callee does next (reset, return) is not seen here
                        out.append(rec); continue
                    for o in live:
                        if o['pidx'] != pidx or exclusive(o['gs'], gs) or '*' in path[:-1]: continue      # element of an array of records: index unknown
                        if o['path'] == path: o['twice'] = True; rec['twice'] = True
                        elif len(o['path']) < len(path) and path[:len(o['path'])] == o['path']: o['uaf'] = True
                    out.append(rec); live.append(rec)
            elif kind == 'assign':
                pth = f.path_of(pl[0])
                if pth is not None:
                    live = [o for o in live if not (o['pidx'] == pth[0] and o['path'] == pth[1])]
            elif kind == 'ret':
                if gs: live = [o for o in live if not is_prefix(gs, o['gs'])]
                else: live = []
            elif kind == 'use' and live:
                for n in walk(pl):
                    if n.get('kind') not in ('MemberExpr', 'ArraySubscriptExpr', 'UnaryOperator'): continue
                    if n.get('kind') == 'UnaryOperator' and n.get('opcode') != '*': continue
                    pth = f.path_of(n)
                    if pth is None: continue
                    for o in live:
                        if o['pidx'] == pth[0] and len(o['path']) < len(pth[1]) and pth[1][:len(o['path'])] == o['path'] and not exclusive(o['gs'], gs):
                            o['uaf'] = True
        return out

    # ------------------------------------------------------------------ constructors
    def classify(self, f, fo, e, depth=0):
        """-> [(kind, src, guard text of the definition, via)]   src: None | ('param', index) | ('path', index, path) | ('text', s)"""
        e = sp(e)
        if e is None or depth > 6: return [('other', ('text', '?'), '', '')]
        k = e.get('kind')
        if k == 'BinaryOperator' and e.get('opcode') == '=' and len(kids(e)) == 2: return self.classify(f, fo, kids(e)[1], depth + 1)
        if k == 'CallExpr':
            cn = callee_name(e) or '?'
            if cn in self.P.alloc: return [('fresh', ('text', cn), '', '')]
            if STORAGE_RE.match(cn): return [('storage', ('text', cn), '', '')]
            if WORKAREA_RE.match(cn): return [('workarea', ('text', cn), '', '')]
            return [('other', ('text', L.clip(show(e), 60)), '', '')]
        c = const_of(e)
        if c is not None and c == L.ZERO: return [('null', None, '', '')]
        if k == 'DeclRefExpr':
            v = var_ref(e)
            if v in f.pidx:
                if X.is_ptr(f.vtype.get(v, '')) and not any(w == v for w, r, n in f.assigns) and v not in f.addr_taken:
                    return [('borrowed', ('param', f.pidx[v]), '', '')]
                return [('other', ('text', show(e)), '', '')]
            if v in f.locals and not f.is_static_local(v):
                ds = fo.defs.get(v, [])
                if not ds: return [('other', ('text', show(e) + ' (never assigned)'), '', '')]
                out = []
                for r, gs in ds:
                    for kind, src, g, via in self.classify(f, fo, r, depth + 1):
                        out.append((kind, src, SEP.join(x for x in (gtext(gs), g) if x), via))
                return out
            return [('other', ('text', show(e)), '', '')]
        pth = f.path_of(e)
        if pth is not None and pth[1]: return [('borrowed', ('path', pth[0], pth[1]), '', '')]
        if k == 'BinaryOperator' and e.get('opcode') in ('+', '-') and kids(e):
            return [(kind, src, g, via) if kind in ('other', 'null') else ('other', ('text', L.clip(show(e), 60)), g, via)
                    for kind, src, g, via in self.classify(f, fo, kids(e)[0], depth + 1)]
        return [('other', ('text', L.clip(show(e), 60)), '', '')]

    def src_text(self, f, src):
        if src is None: return ''
        if src[0] == 'param': return f.params[src[1]].get('name', '')
        if src[0] == 'path': return f.params[src[1]].get('name', '') + '->' + render(src[2])
        return src[1]

    def constructs(self, f):
        fo = self.fo[id(f)]
        out = []
        def add(pidx, path, kind, src, guard, via, line, ity):
            if kind == 'null' or (kind == 'other' and via): return
            out.append(dict(routine=f.name, role='constructor', pidx=pidx, param=f.params[pidx].get('name', ''), path=path, kind=kind, src=src,
                            srck=self.src_text(f, src), guard=guard, via=via, line=line, inType=ity, twice=False, uaf=False, file=f.rel))
        for kind, pl, gs, line in fo.ev:
            if kind == 'assign':
                lhs, rhs = pl
                l = strip(lhs, casts=False)
                if l is None or var_ref(l): continue
                if not X.is_ptr(l.get('ty', '') or ''): continue
                pth = f.path_of(lhs)
                if pth is None or not pth[1]: continue
                for k2, src, g, via in self.classify(f, fo, rhs):
                    add(pth[0], pth[1], k2, src, SEP.join(x for x in (gtext(gs), g) if x), via, line, base_type(lhs))
            elif kind == 'call':
                cn = callee_name(pl); args = kids(pl)[1:]
                if cn not in self.con or cn == f.name: continue
                if STORAGE_LAYER_RE.match(cn) and not STORAGE_LAYER_RE.match(f.name): continue     # see the header: not passed on to the callers
                for cr in self.con[cn]:
                    if cr['via'] or cr['pidx'] >= len(args): continue          # one level of composition
                    b = f.path_of(args[cr['pidx']])
                    if b is None: continue
                    path = b[1] + cr['path']
                    g0 = SEP.join(x for x in (gtext(gs), cr['guard']) if x)
                    if cr['kind'] == 'borrowed' and cr['src'] and cr['src'][0] == 'param':
                        j = cr['src'][1]
                        if j >= len(args): continue
                        for k2, src, g, via in self.classify(f, fo, args[j]):
                            add(b[0], path, k2, src, SEP.join(x for x in (g0, g) if x), cn, line, cr['inType'])
                    elif cr['kind'] == 'borrowed' and cr['src'] and cr['src'][0] == 'path':
                        j = cr['src'][1]
                        sb = f.path_of(args[j]) if j < len(args) else None
                        if sb is not None: add(b[0], path, 'borrowed', ('path', sb[0], sb[1] + cr['src'][2]), g0, cn, line, cr['inType'])
                        else: add(b[0], path, 'other', ('text', cr['srck']), g0, cn, line, cr['inType'])
                    else:
                        add(b[0], path, cr['kind'], cr['src'] if cr['src'] and cr['src'][0] == 'text' else ('text', cr['srck']), g0, cn, line, cr['inType'])
        return out

# ----------------------------------------------------------------------------- output
LEAN_HEADER = '''/- GENERATED by tools/ownscan.py from the working tree of the SuperLU repository on every `./check run C19`.
   Do not edit.  Which access paths (relative to a parameter) each routine of SRC/ releases, and which it sets to a fresh
   block / to a pointer it was handed; see the header of tools/ownscan.py for the exact rules.  Input of
   `Slu.C19.destroy_frees_what_is_owned`, `constructors_allocate_what_is_owned`, `ownership_scan_complete`. -/
namespace Slu.Gen

structure OwnRec where
  routine : String
  role : String          -- constructor | releaser
  param : String         -- the parameter of `routine` the path starts from
  path : String          -- field path, `->` separated; `*` = what the pointer points to; "" = the parameter itself
  kind : String          -- releaser: freed.  constructor: fresh | storage | workarea | borrowed | other
  source : String        -- fresh/storage/workarea: the allocating function; borrowed: the parameter / access path the pointer comes from
  guard : List String    -- the enclosing conditions, outermost first ([] = unconditional); `!(c)` = else arm, `loop(c)` = loop body
  via : String           -- the callee in whose text it happens ("" = in the routine's own text)
  inType : String        -- record type the last field of the path is selected from
  seq : Nat              -- order inside the routine
  line : Nat             -- informative only
  twice : Bool           -- (releaser) the same path is released again later, not in the other arm of the same `if`
  useAfterFree : Bool    -- (releaser) the released pointer is dereferenced or handed to a call afterwards
deriving Repr, DecidableEq

'''

def scan(repo, gen, want_json=False):
    results, texts = L.scan_results(repo)
    P = Program(results)
    O = Own(P)
    problems = []
    recs = []
    for name in sorted(set(O.rel) | set(O.con)):
        if name in L.PRIM_FREE: continue
        rows = O.rel.get(name, []) + O.con.get(name, [])
        for i, r in enumerate(rows):
            recs.append(dict(routine=name, role=r['role'], param=r['param'], path=render(r['path']), kind=r['kind'], source=r['srck'] if r['role'] == 'constructor' else '',
                             guard=[g for g in r['guard'].split(SEP) if g], via=r['via'], inType=r['inType'], seq=i, line=r['line'], twice=r['twice'], useAfterFree=r['uaf'], file=r['file']))
    unresolved = sum(fo.unresolved for fo in O.fo.values())
    have_r = set(r['routine'] for r in recs if r['role'] == 'releaser'); have_c = set(r['routine'] for r in recs if r['role'] == 'constructor')
    for a in ANCHORS_REL:
        if a not in have_r: problems.append('no releaser record for %s' % a)
    for a in ANCHORS_CON:
        if a not in have_c: problems.append('no constructor record for %s' % a)
    try: st = selftest(quiet=True)
    except Exception as e: st = ['exception: %s' % str(e)[:200]]
    if st: problems.append('self test failed: ' + '; '.join(st)[:400])
    ok = not problems
    stats = dict(nfiles=len(results), nfuncs=len(P.fns), unresolved=unresolved, rounds=O.rounds)
    emit(gen, ok, 'ok' if ok else '; '.join(problems)[:900], stats, recs)
    if want_json: print(json.dumps(recs, indent=1))
    return recs, problems, stats

def emit(gen, ok, msg, stats, recs):
    b = lambda v: 'true' if v else 'false'
    out = [LEAN_HEADER]
    out.append('/-- false when the translator failed or its self check did not pass; then the table below is not to be trusted -/\n')
    out.append('def ownOk : Bool := %s\n' % b(ok))
    out.append('def ownMessage : String := %s\n' % lean_str(msg))
    out.append('/-- files of SRC/ scanned -/\ndef ownFiles : Nat := %d\n' % stats.get('nfiles', 0))
    out.append('/-- function definitions scanned -/\ndef ownFunctions : Nat := %d\n' % stats.get('nfuncs', 0))
    out.append('/-- releases of something reached from a parameter whose access path could not be resolved -/\ndef ownUnresolved : Nat := %d\n\n' % stats.get('unresolved', 0))
    out.append('def ownTable : List OwnRec := [\n')
    rows = []
    for r in recs:
        rows.append('  { routine := %s, role := %s, param := %s, path := %s, kind := %s, source := %s,\n    guard := %s, via := %s, inType := %s, seq := %d, line := %d, twice := %s, useAfterFree := %s }' % (
            lean_str(r['routine']), lean_str(r['role']), lean_str(r['param']), lean_str(r['path']), lean_str(r['kind']), lean_str(r['source']),
            '[' + ', '.join(lean_str(g) for g in r['guard']) + ']', lean_str(r['via']), lean_str(r['inType']), r['seq'], r['line'], b(r['twice']), b(r['useAfterFree'])))
    out.append(',\n'.join(rows))
    out.append('\n]\n\nend Slu.Gen\n')
    text = ''.join(out)
    os.makedirs(gen, exist_ok=True)
    path = os.path.join(gen, 'Ownership.lean')
    if os.path.exists(path) and open(path).read() == text: return
    tmp = path + '.tmp%d' % os.getpid()
    open(tmp, 'w').write(text); os.replace(tmp, path)

# ----------------------------------------------------------------------------- self test
SELFTEST_C = r"""
typedef unsigned long size_t;
extern void *malloc(size_t); extern void free(void *);
typedef struct { int t; void *Store; int *perm; } Mat;
typedef struct { int n; double *nzval; int *rowind; } NC;
void *superlu_malloc(size_t n) { void *buf; buf = (void *) malloc(n); return (buf); }
void superlu_free(void *a) { free(a); }
#define SUPERLU_MALLOC(n) superlu_malloc(n)
#define SUPERLU_FREE(a) superlu_free(a)
int *intMalloc(int n) { int *b; b = (int *) SUPERLU_MALLOC(n * sizeof(int)); return b; }
void t_destroy(Mat *A) { SUPERLU_FREE(((NC *)A->Store)->rowind); SUPERLU_FREE(((NC *)A->Store)->nzval); SUPERLU_FREE(A->Store); }
void t_alias(Mat *A) { NC *s = A->Store; SUPERLU_FREE(s->nzval); SUPERLU_FREE(A->Store); }
void t_shallow(Mat *A) { SUPERLU_FREE(A->Store); }
void t_guarded(Mat *A, int k) { if ( k == 0 ) { SUPERLU_FREE(A->perm); } SUPERLU_FREE(A->Store); }
void t_botharms(Mat *A, int k) { if ( k ) SUPERLU_FREE(A->perm); else { SUPERLU_FREE(A->perm); } }
void t_twice(Mat *A) { SUPERLU_FREE(A->perm); SUPERLU_FREE(A->perm); }
void t_uaf(Mat *A) { SUPERLU_FREE(A->Store); SUPERLU_FREE(((NC *)A->Store)->nzval); }
void t_uaf2(Mat *A) { NC *s = A->Store; int k; SUPERLU_FREE(A->Store); k = s->n; A->t = k; }
void t_reset(Mat *A) { SUPERLU_FREE(A->perm); A->perm = 0; SUPERLU_FREE(A->perm); }
void t_retarm(Mat *A, int k) { if ( k ) { SUPERLU_FREE(A->perm); return; } A->perm[0] = 1; SUPERLU_FREE(A->perm); }
void t_compose(Mat *B, int k) { if ( k ) t_shallow(B); }
void t_create(Mat *A, int n, double *nzval, int *rowind) { NC *s; A->Store = SUPERLU_MALLOC(sizeof(NC)); s = A->Store; s->n = n; s->nzval = nzval; s->rowind = rowind; }
void t_view(Mat *A, Mat *AC) { NC *s, *c; s = A->Store; c = AC->Store = SUPERLU_MALLOC(sizeof(NC)); c->nzval = s->nzval; c->rowind = intMalloc(3); }
void t_out(int n, double **a, int **ind) { *a = (double *) SUPERLU_MALLOC(n * 8); *ind = intMalloc(n); }
void t_reader(int *n, double **nzval, int **rowind) { *n = 3; t_out(*n, nzval, rowind); }
typedef struct { int model; int *xsup; double *lusup; } G;
extern void *dexpand(int *, int, G *); extern void *duser_malloc(int, int, G *);
void t_init(G *Glu, Mat *L, int n, int same) {
    int *xsup; double *lusup;
    if ( !same ) {
        if ( Glu->model == 0 ) xsup = intMalloc(n); else xsup = (int *) duser_malloc(n, 0, Glu);
        lusup = (double *) dexpand(&n, 0, Glu);
    } else { NC *s = L->Store; xsup = s->rowind; lusup = s->nzval; }
    Glu->xsup = xsup; Glu->lusup = lusup;
}
void t_factor(Mat *L, G *Glu, int n, int same) { t_init(Glu, L, n, same); if ( same ) ((NC *)L->Store)->nzval = Glu->lusup; else t_create(L, n, Glu->lusup, Glu->xsup); }
"""

def run_snippet(code, name='otest.c'):
    import tempfile, shutil
    d = tempfile.mkdtemp(prefix='ownscan-self-')
    try:
        src = os.path.join(d, name); open(src, 'w').write(code)
        fns, decls = L.reduced_file(src, [], [], code)
        P = Program([dict(rel=name, cfgs=[dict(fns=fns, decls=decls)])])
        return Own(P)
    finally: shutil.rmtree(d, ignore_errors=True)

def selftest(quiet=False):
    O = run_snippet(SELFTEST_C)
    bad = []
    def rel(name): return [(r['param'], render(r['path']), r['guard'].replace(SEP, ' && '), r['via'], r['twice'], r['uaf']) for r in O.rel.get(name, [])]
    def con(name): return sorted((r['param'], render(r['path']), r['kind'], r['srck'], r['guard'].replace(SEP, ' && '), r['via']) for r in O.con.get(name, []))
    def expect(what, got, want):
        if got != want: bad.append('%s: got %r, expected %r' % (what, got, want))
    expect('t_destroy', rel('t_destroy'), [('A', 'Store->rowind', '', '', False, False), ('A', 'Store->nzval', '', '', False, False), ('A', 'Store', '', '', False, False)])
    expect('t_alias', rel('t_alias'), [('A', 'Store->nzval', '', '', False, False), ('A', 'Store', '', '', False, False)])
    expect('t_guarded', rel('t_guarded'), [('A', 'perm', 'k == 0', '', False, False), ('A', 'Store', '', '', False, False)])
    expect('t_botharms', rel('t_botharms'), [('A', 'perm', 'k', '', False, False), ('A', 'perm', '!(k)', '', False, False)])
    expect('t_twice', [r[4] for r in rel('t_twice')], [True])
    expect('t_uaf', [(r[1], r[5]) for r in rel('t_uaf')], [('Store', True), ('Store->nzval', False)])
    expect('t_uaf2', [(r[1], r[5]) for r in rel('t_uaf2')], [('Store', True)])
    expect('t_reset', [(r[1], r[4], r[5]) for r in rel('t_reset')], [('perm', False, False)])
    expect('t_retarm', [(r[1], r[2], r[4], r[5]) for r in rel('t_retarm')], [('perm', 'k', False, False), ('perm', '', False, False)])
    expect('t_compose', rel('t_compose'), [('B', 'Store', 'k', 't_shallow', False, False)])
    expect('t_create', con('t_create'), [('A', 'Store', 'fresh', 'superlu_malloc', '', ''), ('A', 'Store->nzval', 'borrowed', 'nzval', '', ''), ('A', 'Store->rowind', 'borrowed', 'rowind', '', '')])
    expect('t_view', con('t_view'), [('AC', 'Store', 'fresh', 'superlu_malloc', '', ''), ('AC', 'Store->nzval', 'borrowed', 'A->Store->nzval', '', ''), ('AC', 'Store->rowind', 'fresh', 'intMalloc', '', '')])
    expect('t_out', con('t_out'), [('a', '*', 'fresh', 'superlu_malloc', '', ''), ('ind', '*', 'fresh', 'intMalloc', '', '')])
    expect('t_reader', con('t_reader'), [('nzval', '*', 'fresh', 'superlu_malloc', '', 't_out'), ('rowind', '*', 'fresh', 'intMalloc', '', 't_out')])
    expect('t_init', con('t_init'), sorted([('Glu', 'xsup', 'fresh', 'intMalloc', '!same && Glu->model == 0', ''), ('Glu', 'xsup', 'workarea', 'duser_malloc', '!same && !(Glu->model == 0)', ''),
                                            ('Glu', 'xsup', 'borrowed', 'L->Store->rowind', '!(!same)', ''), ('Glu', 'lusup', 'storage', 'dexpand', '!same', ''),
                                            ('Glu', 'lusup', 'borrowed', 'L->Store->nzval', '!(!same)', '')]))
    got = con('t_factor')
    for want in [('L', 'Store', 'fresh', 'superlu_malloc', '!(same)', 't_create'), ('L', 'Store->nzval', 'borrowed', 'Glu->lusup', '!(same)', 't_create'),
                 ('L', 'Store->nzval', 'borrowed', 'Glu->lusup', 'same', ''), ('Glu', 'lusup', 'storage', 'dexpand', '!same', 't_init')]:
        if want not in got: bad.append('t_factor: missing %r in %r' % (want, got))
    if not quiet:
        print('ownscan self test: %s' % ('ok' if not bad else 'FAILED'))
        for b_ in bad: print('  ' + b_)
    return bad if quiet else (1 if bad else 0)

def main():
    a = [x for x in sys.argv[1:] if not x.startswith('--')]
    if '--selftest' in sys.argv: return selftest()
    if len(a) < 2:
        print(__doc__); return 2
    repo, gen = a[0], a[1]
    try:
        recs, problems, stats = scan(repo, gen, '--json' in sys.argv)
    except Exception as e:
        msg = 'ownscan translator failed: %s' % (str(e)[:500])
        try: emit(gen, False, msg, {}, [])
        except Exception: pass
        print(msg, file=sys.stderr)
        return 1
    if '--report' in sys.argv:
        for r in recs:
            print('%-28s %-11s %-8s %-28s %-9s %-24s [%s]%s%s%s' % (r['routine'], r['role'], r['param'], r['path'], r['kind'], r['source'], ' && '.join(r['guard']),
                  ' via ' + r['via'] if r['via'] else '', ' TWICE' if r['twice'] else '', ' USE-AFTER-FREE' if r['useAfterFree'] else ''))
    if '--json' not in sys.argv:
        print('ownscan: %d files, %d functions; %d releaser records in %d routines, %d constructor records in %d routines; %d unresolved releases; %d rounds' % (
            stats['nfiles'], stats['nfuncs'], sum(1 for r in recs if r['role'] == 'releaser'), len(set(r['routine'] for r in recs if r['role'] == 'releaser')),
            sum(1 for r in recs if r['role'] == 'constructor'), len(set(r['routine'] for r in recs if r['role'] == 'constructor')), stats['unresolved'], stats['rounds']))
    if problems:
        print('ownscan self check FAILED: ' + '; '.join(problems), file=sys.stderr)
        return 1
    return 0

if __name__ == '__main__':
    sys.exit(main())
