#!/usr/bin/env python3
"""census.py <repo> <lean/Slu/Gen dir> [--selftest] [--json]

TRANSLATOR for property C09 (DESIGN.md section 4).  Lists every object with static storage duration
that is not `const` in SRC/*.c, CBLAS/*.c and FORTRAN/c_fortran_*.c of <repo>'s working tree and
emits <gen>/Census.lean, the input of theorem `census_clean` (lean/SluProofs/Props/C09.lean).

Three independent sources are combined per translation unit (TU):

 1. the clang-14 JSON AST (`-Xclang -ast-dump=json`, compiled with the guard -DSLU_VERIF ON because
    that is the configuration the harness runs; TUs that mention SLU_VERIF are parsed a second time
    with the guard OFF and an object that exists only with the guard on is marked `guardOnly`):
    every VarDecl at file scope that is a definition (no `extern`, or `extern` with initialiser)
    and every block-scope VarDecl with storage class `static`, whose (desugared) type is not
    top-level const.  A walk over every function body of the TU classifies each reference to such an
    object: `written` (left operand of = / op=, operand of ++/--, reached through member/element
    paths), `addrTaken` (& or array decay that is not immediately subscripted/dereferenced) and
    `escapes` (the address is stored, returned, or passed to a parameter that is not proved
    read-only).  "Proved read-only" is inter-procedural: a pointer parameter is read-only if its
    type points to const, or if the callee's body (any TU of the library) only reads through it,
    adjusts it (f2c's `--p`), compares it, or passes it on to parameters that are read-only
    (greatest fixed point).  Writes/escapes of an external-linkage object are merged by name over
    all TUs.
 2. `nm` on the object file of the same TU compiled `gcc -O2` with the guard OFF: every symbol in a
    writable data section (b/B/d/D/C/s/S/g/G) must be explained by an AST record of that TU,
    otherwise a record of kind "nm-only" is emitted (which no allow-list entry matches).
 3. a textual scan of the source for declarations the preprocessor removes in this configuration
    (`#if 0`, `#ifdef DEBUG`, ...): lines that look like a `static` object or a column-0 file-scope
    object and for which the AST has no VarDecl of that name are emitted with kind "inactive",
    their controlling condition, and `insideIfZero`.

Results are cached per TU under <verif>/.work/census-cache keyed by a hash of the TU's text, all
headers and this script.  Exit status is non-zero on any failure, and in that case Census.lean is
rewritten with `censusOk := false` so that `census_clean` cannot check against a stale census.

Limits (stated in the evidence): aliasing through stored pointers is not tracked (any stored address
counts as an escape); objects hidden behind macros other than the ones active in the two
configurations are only seen by the textual scan; libc/BLAS internals are out of scope.
"""
import sys, os, re, json, hashlib, subprocess, tempfile, shutil
from concurrent.futures import ProcessPoolExecutor

VERSION = 'census-11'
sys.setrecursionlimit(20000)
WRITABLE_NM = set('bBdDCsSgG')

# ----------------------------------------------------------------------------- type helpers
def top_const(t):
    """is the object type `t` (clang qualType string) const at top level?"""
    t = t.strip()
    # arrays: constness is that of the element type
    t = re.sub(r'(\[[^\]]*\])+$', '', t).strip()
    m = re.search(r'\(\*+([^()]*)\)\s*(\(|\[)', t)       # pointer to function / array: (*const)(...)
    if m:
        return 'const' in m.group(1).split()
    if '*' in t:
        return 'const' in t[t.rfind('*') + 1:].split()
    return 'const' in t.split()

def split_params(fty):
    """parameter type strings of a function type such as `int (int *, const double *)`"""
    depth = 0; start = None; end = None
    # the parameter list is the last top-level parenthesis group
    for i, ch in enumerate(fty):
        if ch == '(':
            if depth == 0: start = i
            depth += 1
        elif ch == ')':
            depth -= 1
            if depth == 0: end = i
    if start is None or end is None: return None
    body = fty[start + 1:end].strip()
    if body == '': return None            # unprototyped: nothing known
    if body == 'void': return []
    out = []; depth = 0; cur = ''
    for ch in body:
        if ch in '([': depth += 1
        if ch in ')]': depth -= 1
        if ch == ',' and depth == 0: out.append(cur.strip()); cur = ''
        else: cur += ch
    out.append(cur.strip())
    return out

def ptr_to_const(t):
    """t is a pointer parameter type; does it point to a const-qualified object?"""
    t = t.strip()
    if '(*' in t: return False
    t = re.sub(r'(\[[^\]]*\])+$', '*', t)
    if '*' not in t: return False
    pointee = t[:t.rfind('*')].strip()
    return top_const(pointee)

def is_ptr_type(t):
    t = t.strip()
    return t.endswith('*') or bool(re.search(r'\*\s*(const|restrict|volatile|\s)*$', t)) or bool(re.search(r'\[[^\]]*\]$', t)) or '(*' in t

def qtype(n):
    ty = n.get('type') or {}
    return ty.get('desugaredQualType') or ty.get('qualType') or ''

# ----------------------------------------------------------------------------- AST analysis
ASSIGN_KINDS = ('BinaryOperator', 'CompoundAssignOperator')
# libc functions that read or write process-wide state (environment, hidden static buffers, global generators,
# locale, signal dispositions): a library routine that calls one depends on, or changes, what other calls see
IMPURE_LIBC = frozenset('''getenv secure_getenv setenv putenv unsetenv clearenv rand srand random srandom drand48 erand48 lrand48 nrand48
mrand48 jrand48 srand48 seed48 lcong48 strtok setlocale localtime gmtime asctime ctime tmpnam tempnam signal sigaction atexit
strerror getlogin ttyname readdir getpwnam getpwuid gethostbyname chdir umask __errno_location'''.split())   # (errno: thread state left by earlier calls)
CMP_OPS = ('==', '!=', '<', '>', '<=', '>=', '&&', '||')
TRANSPARENT_CASTS = ('NoOp', 'BitCast', 'LValueBitCast')

def flow(stack, i, mode):
    """stack[i] denotes (mode 'lv') an lvalue inside the object O or (mode 'pv') a pointer value into
    O; follow the enclosing expressions and say what happens to O:
      'read' | 'write' | ('pass', callee_name|None, argindex, callee_fn_type|None) | 'escape'"""
    while i > 0:
        cur = stack[i]; up = stack[i - 1]; k = up.get('kind'); inner = up.get('inner') or []
        pos = next((j for j, x in enumerate(inner) if x is cur), -1)
        if mode == 'lv':
            if k == 'ParenExpr': i -= 1; continue
            if k == 'MemberExpr' and not up.get('isArrow'): i -= 1; continue
            if k == 'ImplicitCastExpr':
                ck = up.get('castKind')
                if ck == 'LValueToRValue': return 'read'
                if ck == 'ArrayToPointerDecay': mode = 'pv'; i -= 1; continue
                if ck in TRANSPARENT_CASTS: i -= 1; continue
                return 'escape'
            if k == 'UnaryOperator':
                op = up.get('opcode')
                if op == '&': mode = 'pv'; i -= 1; continue
                if op in ('++', '--'): return 'write'
                return 'escape'
            if k in ASSIGN_KINDS and (up.get('opcode') == '=' or k == 'CompoundAssignOperator'):
                return 'write' if pos == 0 else 'escape'
            if k == 'UnaryExprOrTypeTraitExpr': return 'read'
            if k == 'CStyleCastExpr' and up.get('castKind') == 'ToVoid': return 'read'
            return 'escape'
        else:  # 'pv'
            if k in ('ParenExpr',): i -= 1; continue
            if k in ('ImplicitCastExpr', 'CStyleCastExpr'):
                ck = up.get('castKind')
                if ck in TRANSPARENT_CASTS: i -= 1; continue
                if ck in ('PointerToBoolean', 'PointerToIntegral', 'ToVoid'): return 'read'
                return 'escape'
            if k == 'BinaryOperator':
                op = up.get('opcode')
                if op in CMP_OPS: return 'read'
                if op in ('+', '-'):
                    if is_ptr_type(qtype(up)): i -= 1; continue
                    return 'read'              # pointer difference
                if op == ',':
                    if pos == 0: return 'read'
                    i -= 1; continue
                return 'escape'                # stored by '=' etc.
            if k == 'UnaryOperator':
                op = up.get('opcode')
                if op == '*': mode = 'lv'; i -= 1; continue
                if op == '!': return 'read'
                return 'escape'
            if k == 'ArraySubscriptExpr': mode = 'lv'; i -= 1; continue
            if k == 'MemberExpr' and up.get('isArrow'): mode = 'lv'; i -= 1; continue
            if k in ('IfStmt', 'WhileStmt', 'DoStmt', 'ForStmt'): return 'read'
            if k == 'ConditionalOperator':
                if pos == 0: return 'read'
                i -= 1; continue
            if k == 'CallExpr':
                if pos == 0: return 'read'     # called through (function pointer object)
                callee = inner[0]
                while callee.get('kind') in ('ImplicitCastExpr', 'ParenExpr') and callee.get('inner'):
                    callee = callee['inner'][0]
                if callee.get('kind') == 'DeclRefExpr' and (callee.get('referencedDecl') or {}).get('kind') == 'FunctionDecl':
                    rd = callee['referencedDecl']
                    return ('pass', rd.get('name'), pos - 1, (rd.get('type') or {}).get('qualType'))
                return ('pass', None, pos - 1, None)
            return 'escape'
    return 'escape'

def declloc(n):
    loc = n.get('loc') or {}
    if 'offset' not in loc: loc = loc.get('expansionLoc') or loc.get('spellingLoc') or {}
    return loc

def analyse_tu(ast):
    """returns dict(defs=[...], uses={key: {...}}, funcs={name: {...}}, names=[all VarDecl names])"""
    defs = []; idkey = {}; allnames = set()
    uses = {}
    funcs = {}
    impure = []
    def use(key):
        return uses.setdefault(key, dict(write=[], escape=[], passes=[], addr=False, reads=0))
    top = ast.get('inner') or []
    # pass 1: file-scope objects
    for n in top:
        if n.get('kind') != 'VarDecl': continue
        name = n.get('name', '?'); allnames.add((name, declloc(n).get('offset', -1)))
        sc = n.get('storageClass', 'none')
        idkey[n['id']] = 'g:' + name
        if sc == 'extern' and 'init' not in n: continue          # declaration only
        if n.get('tls'): kind_extra = ' thread-local'
        else: kind_extra = ''
        ty = qtype(n)
        if top_const(ty): continue
        loc = n.get('loc') or {}
        if 'offset' not in loc: loc = loc.get('expansionLoc') or loc.get('spellingLoc') or {}
        d = dict(key='g:' + name, name=name, kind=('file-static' if sc == 'static' else 'global') + kind_extra,
                 ctype=(n.get('type') or {}).get('qualType', ty), offset=loc.get('offset', -1), tokLen=loc.get('tokLen', 0),
                 static=(sc == 'static'))
        if not any(x['key'] == d['key'] for x in defs): defs.append(d)   # tentative definitions repeat
    # pass 2: function bodies
    def walk_fn(fn):
        fname = fn.get('name', '?')
        params = [p for p in (fn.get('inner') or []) if p.get('kind') == 'ParmVarDecl']
        body = next((x for x in (fn.get('inner') or []) if x.get('kind') == 'CompoundStmt'), None)
        if body is None: return
        pinfo = []
        pid = {}
        for j, p in enumerate(params):
            pt = qtype(p)
            pinfo.append(dict(name=p.get('name', ''), ptr=is_ptr_type(pt), constptr=ptr_to_const(pt) if is_ptr_type(pt) else False,
                              ptype=(p.get('type') or {}).get('qualType', pt), write=False, escape=False, passes=[]))
            pid[p['id']] = j
        funcs[fname] = dict(static=(fn.get('storageClass') == 'static'), params=pinfo)
        stack = [fn]
        def rec(node):
            stack.append(node)
            k = node.get('kind')
            if k == 'VarDecl':
                allnames.add((node.get('name', '?'), declloc(node).get('offset', -1)))
                if node.get('storageClass') == 'static':
                    ty = qtype(node)
                    key = 'l:%s.%s' % (fname, node.get('name', '?'))
                    idkey[node['id']] = key
                    if not top_const(ty):
                        loc = node.get('loc') or {}
                        if 'offset' not in loc: loc = loc.get('expansionLoc') or loc.get('spellingLoc') or {}
                        defs.append(dict(key=key, name='%s.%s' % (fname, node.get('name', '?')), kind='local-static',
                                         ctype=(node.get('type') or {}).get('qualType', ty), offset=loc.get('offset', -1),
                                         tokLen=loc.get('tokLen', 0), static=True))
                elif node.get('storageClass') == 'extern':
                    idkey[node['id']] = 'g:' + node.get('name', '?')     # block-scope extern declaration
            elif k == 'DeclRefExpr' and (node.get('referencedDecl') or {}).get('kind') == 'FunctionDecl' and \
                    (node.get('referencedDecl') or {}).get('name') in IMPURE_LIBC:
                impure.append([(node.get('referencedDecl') or {}).get('name'), fname])
            if k == 'DeclRefExpr':
                rd = node.get('referencedDecl') or {}
                rid = rd.get('id')
                if rd.get('kind') == 'VarDecl':
                    key = idkey.get(rid)
                    if key is not None:
                        r = flow(stack, len(stack) - 1, 'lv')
                        u = use(key)
                        if r == 'read': u['reads'] += 1
                        elif r == 'write': u['write'].append(fname)
                        elif r == 'escape': u['addr'] = True; u['escape'].append(fname)
                        else: u['addr'] = True; u['passes'].append([r[1], r[2], r[3], fname])
                elif rd.get('kind') == 'ParmVarDecl' and rid in pid and pinfo[pid[rid]]['ptr']:
                    pi = pinfo[pid[rid]]
                    # the parameter variable itself as an lvalue
                    up = stack[-2]; uk = up.get('kind')
                    if uk == 'ImplicitCastExpr' and up.get('castKind') == 'LValueToRValue':
                        r = flow(stack, len(stack) - 2, 'pv')
                        if r == 'write': pi['write'] = True
                        elif r == 'escape': pi['escape'] = True
                        elif r != 'read': pi['passes'].append([r[1], r[2], r[3]])
                    elif uk == 'UnaryOperator' and up.get('opcode') in ('++', '--'): pass          # f2c parameter adjustment
                    elif uk == 'CompoundAssignOperator' and up.get('opcode') in ('+=', '-=') and up['inner'][0] is node: pass
                    elif uk == 'UnaryExprOrTypeTraitExpr': pass
                    else: pi['escape'] = True
            for ch in node.get('inner') or []:
                if isinstance(ch, dict) and ch: rec(ch)
            stack.pop()
        rec(body)
    for n in top:
        if n.get('kind') == 'FunctionDecl': walk_fn(n)
    # file-scope initialisers may take addresses of other objects (`int *p = &x;`)
    for n in top:
        if n.get('kind') == 'VarDecl' and n.get('inner'):
            stack = [n]
            def rec2(node):
                stack.append(node)
                if node.get('kind') == 'DeclRefExpr' and (node.get('referencedDecl') or {}).get('kind') == 'VarDecl':
                    key = idkey.get(node['referencedDecl'].get('id'))
                    if key is not None:
                        r = flow(stack, len(stack) - 1, 'lv')
                        if r != 'read':
                            u = use(key); u['addr'] = True; u['escape'].append('<initialiser of %s>' % n.get('name'))
                for ch in node.get('inner') or []:
                    if isinstance(ch, dict) and ch: rec2(ch)
                stack.pop()
            for ch in n['inner']: rec2(ch)
    return dict(defs=defs, uses=uses, funcs=funcs, impure=impure, names=sorted([a, b] for a, b in allnames))

# ----------------------------------------------------------------------------- textual scan
COND_RE = re.compile(r'^\s*#\s*(if|ifdef|ifndef|elif|else|endif)\b(.*)$')
STATIC_DECL_RE = re.compile(r'^\s*static\s+(?!inline\b)([^;(){}=]*?)([A-Za-z_]\w*)\s*(\[[^\]]*\])*\s*(=[^;]*)?;')
COL0_DECL_RE = re.compile(r'^(?!extern\b|typedef\b|return\b|goto\b|break\b|continue\b|else\b|case\b|default\b|static\b|const\b|register\b)(?:(?:unsigned|signed|long|short|volatile|struct\s+\w+)\s+)*[A-Za-z_]\w*\b[\s\*]+([A-Za-z_]\w*)\s*(\[[^\]]*\])*\s*(=[^;]*)?;')

def strip_comments_keep_lines(text):
    out = []; i = 0; n = len(text)
    while i < n:
        if text.startswith('/*', i):
            j = text.find('*/', i + 2); j = n if j < 0 else j + 2
            out.append(re.sub(r'[^\n]', ' ', text[i:j])); i = j
        elif text.startswith('//', i):
            j = text.find('\n', i); j = n if j < 0 else j
            out.append(' ' * (j - i)); i = j
        elif text[i] == '"':
            j = i + 1
            while j < n and text[j] != '"' and text[j] != '\n':
                j += 2 if text[j] == '\\' else 1
            out.append(text[i:j + 1]); i = j + 1
        else:
            out.append(text[i]); i += 1
    return ''.join(out)

def text_scan(text):
    """candidate object declarations with the stack of preprocessor conditions that control them"""
    cands = []
    stack = []     # list of condition strings
    for ln, line in enumerate(strip_comments_keep_lines(text).split('\n'), 1):
        m = COND_RE.match(line)
        if m:
            d, rest = m.group(1), m.group(2).strip()
            if d == 'if': stack.append(rest)
            elif d == 'ifdef': stack.append('defined(%s)' % rest)
            elif d == 'ifndef': stack.append('!defined(%s)' % rest)
            elif d == 'elif' and stack: stack[-1] = '!(%s) && %s' % (stack[-1], rest)
            elif d == 'else' and stack: stack[-1] = '!(%s)' % stack[-1]
            elif d == 'endif' and stack: stack.pop()
            continue
        if not stack: continue
        m = STATIC_DECL_RE.match(line)
        kind = None
        if m and 'const' not in m.group(1).split():
            kind = 'static'; name = m.group(2); ty = m.group(1).strip()
        else:
            m = COL0_DECL_RE.match(line)
            if m: kind = 'col0'; name = m.group(1); ty = line.split(name)[0].strip()
        if kind:
            ifzero = any(re.fullmatch(r'\(?\s*0\s*\)?', c) for c in stack)
            cands.append(dict(name=name, line=ln, cond=' && '.join(stack), ifzero=ifzero, ctype=ty, text=line.strip()))
    return cands

# ----------------------------------------------------------------------------- per-TU job
def run(cmd, **kw):
    return subprocess.run(cmd, stdout=subprocess.PIPE, stderr=subprocess.PIPE, **kw)

def clang_ast(src, incs, defs):
    r = run(['clang-14', '-fsyntax-only', '-w', '-Xclang', '-ast-dump=json'] + incs + defs + [src])
    if r.returncode != 0:
        raise RuntimeError('clang-14 failed on %s: %s' % (src, r.stderr.decode('latin1')[-600:]))
    return json.loads(r.stdout)

def nm_symbols(src, incs, tmpdir):
    obj = os.path.join(tmpdir, hashlib.sha1(src.encode()).hexdigest() + '.o')
    r = run(['gcc', '-O2', '-w', '-fno-pic', '-fno-pie', '-c'] + incs + [src, '-o', obj])   # no PIC: const pointers stay in .rodata
    if r.returncode != 0:
        raise RuntimeError('gcc -O2 failed on %s: %s' % (src, r.stderr.decode('latin1')[-600:]))
    r = run(['nm', obj])
    os.unlink(obj)
    if r.returncode != 0:
        raise RuntimeError('nm failed on %s' % src)
    syms = []
    for line in r.stdout.decode('latin1').split('\n'):
        parts = line.split()
        if len(parts) >= 2 and parts[-2] in WRITABLE_NM:
            syms.append([parts[-1], parts[-2]])
    return syms

def tu_job(args):
    src, rel, incs, key, cachedir, guard_in_headers = args
    cpath = os.path.join(cachedir, key + '.json')
    if os.path.exists(cpath):
        try: return json.load(open(cpath))
        except Exception: pass
    text = open(src, encoding='latin1').read()
    on = analyse_tu(clang_ast(src, incs, ['-DSLU_VERIF']))
    off = None
    if guard_in_headers or 'SLU_VERIF' in text:
        off = analyse_tu(clang_ast(src, incs, []))
    tmpdir = tempfile.mkdtemp(prefix='census')
    try: syms = nm_symbols(src, incs, tmpdir)
    finally: shutil.rmtree(tmpdir, ignore_errors=True)
    def line_of(d):
        o, l = d.get('offset', -1), d.get('tokLen', 0)
        base = d['name'].split('.')[-1]
        if o >= 0 and text[o:o + l] == base: return text.count('\n', 0, o) + 1
        return 0
    res = dict(rel=rel, on=on, off=off, syms=syms, cands=text_scan(text))
    for cfg in (on, off):
        if cfg:
            for d in cfg['defs']: d['line'] = line_of(d)
            # (name, line) of every VarDecl whose name token is found at its offset in this file
            cfg['names'] = sorted(set('%s@%d' % (nm, text.count('\n', 0, o) + 1) for nm, o in cfg['names'] if o >= 0 and text[o:o + len(nm)] == nm))
    tmp = cpath + '.tmp%d' % os.getpid()
    json.dump(res, open(tmp, 'w')); os.replace(tmp, cpath)
    return res

# ----------------------------------------------------------------------------- merge + emit
def lean_str(s):
    return '"' + s.replace('\\', '\\\\').replace('"', '\\"').replace('\n', ' ') + '"'

def build_records(results):
    # function summaries: (rel, name) for static functions, (None, name) for external ones
    fsum = {}
    for r in results:
        for cfg in (r['on'], r['off']):
            if not cfg: continue
            for fname, f in cfg['funcs'].items():
                k = (r['rel'], fname) if f['static'] else (None, fname)
                if k in fsum:     # merge guard-on / guard-off views conservatively
                    for a, b in zip(fsum[k]['params'], f['params']):
                        a['write'] |= b['write']; a['escape'] |= b['escape']; a['passes'] += b['passes']
                else:
                    fsum[k] = json.loads(json.dumps(f)); fsum[k]['rel'] = r['rel']
    memo = {}
    def readonly(rel, callee, idx, fty, visiting):
        """may the idx-th argument of `callee` (called from TU rel) be written through / kept?"""
        if fty:
            ps = split_params(fty)
            if ps is not None and idx < len(ps) and ps[idx] != '...' and ptr_to_const(ps[idx]): return True
        if callee is None: return False
        k = (rel, callee) if (rel, callee) in fsum else (None, callee)
        f = fsum.get(k)
        if f is None or idx >= len(f['params']): return False
        mk = (k, idx)
        if mk in memo: return memo[mk]
        if mk in visiting: return True          # greatest fixed point: a cycle of pure forwarding never writes
        p = f['params'][idx]
        if p['constptr']: memo[mk] = True; return True
        if p['write'] or p['escape']: memo[mk] = False; return False
        ok = all(readonly(k[0] if k[0] else rel, c, i, t, visiting | {mk}) for c, i, t in p['passes'])
        memo[mk] = ok
        return ok
    # uses of external-linkage objects merged over all TUs
    guses = {}
    for r in results:
        for cfg in (r['on'], r['off']):
            if not cfg: continue
            for key, u in cfg['uses'].items():
                if key.startswith('g:'):
                    guses.setdefault(key, []).append((r['rel'], u))
    records = []
    for r in results:
        rel = r['rel']
        on, off = r['on'], r['off']
        offkeys = set(d['key'] for d in off['defs']) if off else None
        seen = {}
        for cfg, is_on in ((on, True), (off, False)):
            if not cfg: continue
            for d in cfg['defs']:
                if d['key'] in seen: continue
                seen[d['key']] = d
                guard_only = bool(is_on and off is not None and d['key'] not in offkeys)
                # collect uses
                ulist = []
                if d['key'].startswith('g:') and not d['static']:
                    ulist = guses.get(d['key'], [])
                else:
                    for c2 in (on, off):
                        if c2 and d['key'] in c2['uses']: ulist.append((rel, c2['uses'][d['key']]))
                writers = sorted(set('%s:%s' % (os.path.basename(urel), w) for urel, u in ulist for w in u['write']))
                escs = sorted(set('%s:%s' % (os.path.basename(urel), w) for urel, u in ulist for w in u['escape']))
                addr = any(u['addr'] for _, u in ulist)
                ropass = []
                for urel, u in ulist:
                    for callee, idx, fty, fn in u['passes']:
                        if readonly(urel, callee, idx, fty, frozenset()):
                            ropass.append('%s#%d' % (callee, idx))
                        else:
                            escs.append('%s:%s->%s#%d' % (os.path.basename(urel), fn, callee, idx))
                escs = sorted(set(escs))
                base = d['name'].split('.')[-1]
                in_obj = any(s[0] == base or s[0].split('.')[0] == base for s in r['syms']) and not guard_only
                note = []
                if writers: note.append('written in ' + ','.join(writers[:6]))
                if escs: note.append('escapes in ' + ','.join(escs[:6]))
                if ropass: note.append('address passed only to read-only parameters ' + ','.join(sorted(set(ropass))[:6]))
                if not ulist: note.append('never referenced')
                elif not writers and not escs and not ropass: note.append('only read')
                records.append(dict(file=rel, name=d['name'], kind=d['kind'], ctype=d['ctype'], line=d.get('line', 0),
                                    written=bool(writers), escapes=bool(escs), addrTaken=addr, insideIfZero=False,
                                    guardOnly=guard_only, inObject=in_obj, note='; '.join(note)))
        # nm cross-check (guard OFF objects)
        explained = set()
        for d in (off or on)['defs']:
            explained.add(d['name'].split('.')[-1])
        for s, t in r['syms']:
            b = s.split('.')[0]
            if s in explained or b in explained: continue
            records.append(dict(file=rel, name=s, kind='nm-only', ctype='?', line=0, written=True, escapes=True, addrTaken=True,
                                insideIfZero=False, guardOnly=False, inObject=True,
                                note='symbol of type %s in the -O2 object without a matching AST declaration' % t))
        # inactive text
        names = set(on['names']) | (set(off['names']) if off else set())
        for c in r['cands']:
            if '%s@%d' % (c['name'], c['line']) in names: continue
            records.append(dict(file=rel, name=c['name'], kind='inactive', ctype=c['ctype'], line=c['line'], written=False, escapes=False,
                                addrTaken=False, insideIfZero=c['ifzero'], guardOnly=False, inObject=False,
                                note='removed by the preprocessor: #if ' + c['cond']))
    # the options structure is an INPUT of every routine (superlu_options_t *options): a routine that stores through it
    # carries state from one call into the next ones that share the caller's structure.  One record per function with
    # such a parameter: written = the function (or a callee it forwards the pointer to) may store through it.
    for k, f in sorted(fsum.items(), key=lambda kv: (kv[1].get('rel', ''), kv[0][1])):
        for idx, p in enumerate(f['params']):
            if not p.get('ptr') or 'superlu_options_t' not in p.get('ptype', ''): continue
            ro = readonly(f.get('rel'), k[1], idx, None, frozenset())
            why = []
            if p['write']: why.append('stores through it')
            if p['escape']: why.append('keeps or converts the pointer')
            if not ro and not why: why.append('forwards it to a routine that may store through it')
            records.append(dict(file=f.get('rel', '?'), name='%s(%s)' % (k[1], p.get('name', '?')), kind='options-param', ctype=p.get('ptype', ''), line=0,
                                written=not ro, escapes=bool(p['escape']), addrTaken=False, insideIfZero=False, guardOnly=False, inObject=False,
                                note='; '.join(why) if why else 'only read'))
    for r in results:
        seen_imp = set()
        for cfg in (r['on'], r['off']):
            if not cfg: continue
            for callee, fn in cfg.get('impure', []):
                if (callee, fn) in seen_imp: continue
                seen_imp.add((callee, fn))
                records.append(dict(file=r['rel'], name='%s->%s' % (fn, callee), kind='impure-call', ctype='', line=0, written=True, escapes=False,
                                    addrTaken=False, insideIfZero=False, guardOnly=False, inObject=False,
                                    note='calls %s(): reads or writes process-wide state' % callee))
    records.sort(key=lambda x: (x['file'], x['name'], x['kind'], x['line']))
    return records

LEAN_HEADER = '''/- GENERATED by tools/census.py from the working tree of the SuperLU repository on every `./check run C09`.
   Do not edit.  One record per object with static storage duration that is not const (see the
   header of tools/census.py for the exact rules).  Input of `Slu.C09.census_clean`. -/
namespace Slu.Gen

structure StaticObj where
  file : String          -- translation unit, relative to the repository
  name : String          -- object name (`function.name` for block-scope statics)
  kind : String          -- file-static | global | local-static | inactive | nm-only | options-param | impure-call
  ctype : String
  line : Nat
  written : Bool         -- some function of the library assigns / increments it (AST)
  escapes : Bool         -- its address is stored, returned or passed to a parameter not proved read-only
  addrTaken : Bool
  insideIfZero : Bool    -- the declaration is inside `#if 0`
  guardOnly : Bool       -- exists only when compiled with -DSLU_VERIF (verification hook)
  inObject : Bool        -- present in a writable data section of the -O2 guard-off object (nm)
  note : String
deriving Repr, DecidableEq

'''

def emit(gen, ok, msg, nfiles, records):
    out = [LEAN_HEADER]
    out.append('/-- false when the translator failed; then the census below is not to be trusted -/\n')
    out.append('def censusOk : Bool := %s\n' % ('true' if ok else 'false'))
    out.append('def censusMessage : String := %s\n' % lean_str(msg))
    out.append('def censusFiles : Nat := %d\n\n' % nfiles)
    out.append('def census : List StaticObj := [\n')
    rows = []
    for r in records:
        b = lambda v: 'true' if v else 'false'
        rows.append('  { file := %s, name := %s, kind := %s, ctype := %s, line := %d,\n    written := %s, escapes := %s, addrTaken := %s, insideIfZero := %s, guardOnly := %s, inObject := %s,\n    note := %s }' % (
            lean_str(r['file']), lean_str(r['name']), lean_str(r['kind']), lean_str(r['ctype']), r['line'], b(r['written']), b(r['escapes']),
            b(r['addrTaken']), b(r['insideIfZero']), b(r['guardOnly']), b(r['inObject']), lean_str(r['note'])))
    out.append(',\n'.join(rows))
    out.append('\n]\n\nend Slu.Gen\n')
    text = ''.join(out)
    os.makedirs(gen, exist_ok=True)
    path = os.path.join(gen, 'Census.lean')
    if os.path.exists(path) and open(path).read() == text: return
    tmp = path + '.tmp%d' % os.getpid()
    open(tmp, 'w').write(text); os.replace(tmp, path)

def sources(repo):
    import glob
    s = sorted(glob.glob(os.path.join(repo, 'SRC', '*.c'))) + sorted(glob.glob(os.path.join(repo, 'CBLAS', '*.c')))
    s += sorted(glob.glob(os.path.join(repo, 'FORTRAN', 'c_fortran_*.c')))
    return s

def census(repo, gen, want_json=False):
    import glob
    root = os.path.dirname(os.path.dirname(os.path.abspath(__file__)))
    cachedir = os.path.join(root, '.work', 'census-cache'); os.makedirs(cachedir, exist_ok=True)
    srcs = sources(repo)
    if not srcs: raise RuntimeError('no sources under ' + repo)
    hdrs = sorted(glob.glob(os.path.join(repo, 'SRC', '*.h'))) + sorted(glob.glob(os.path.join(repo, 'CBLAS', '*.h')))
    hh = hashlib.sha256(); guard_in_headers = False
    for h in hdrs:
        b = open(h, 'rb').read(); hh.update(os.path.basename(h).encode()); hh.update(b)
        if b'SLU_VERIF' in b: guard_in_headers = True
    hh.update(open(os.path.abspath(__file__), 'rb').read()); hh.update(VERSION.encode())
    hbase = hh.hexdigest()
    incs = ['-I' + os.path.join(repo, 'SRC'), '-I' + os.path.join(repo, 'CBLAS')]
    jobs = []; keys = set()
    for s in srcs:
        rel = os.path.relpath(s, repo)
        k = hashlib.sha256((hbase + rel).encode() + open(s, 'rb').read()).hexdigest()[:32]
        keys.add(k + '.json')
        jobs.append((s, rel, incs, k, cachedir, guard_in_headers))
    with ProcessPoolExecutor(os.cpu_count() or 4) as ex:
        results = list(ex.map(tu_job, jobs, chunksize=4))
    # prune the cache (keep the entries of this tree plus a bounded number of others)
    others = [f for f in os.listdir(cachedir) if f.endswith('.json') and f not in keys]
    if len(others) > 600:
        others.sort(key=lambda f: os.path.getmtime(os.path.join(cachedir, f)))
        for f in others[:len(others) - 600]:
            try: os.unlink(os.path.join(cachedir, f))
            except OSError: pass
    records = build_records(results)
    emit(gen, True, 'ok', len(srcs), records)
    if want_json: print(json.dumps(records, indent=1))
    return records

# ----------------------------------------------------------------------------- self test
SELFTEST_C = r'''
typedef const int cint;
static int c1 = 1;
static int arr[4];
static const int k = 3;
static cint kk = 4;
int glob;
extern int ext;
int (*hook)(int) = 0;
static const char *msg = "x";
char *const cmsg = "y";
struct S { int a; int b[2]; } sv;
static int ro = 5, ro2 = 6, wr1 = 0, keep = 0, untouched;
static int *keeper;
static int rd(int *p) { --p; return p[1] + *(p + 1); }
static void wr(int *p) { *p = 1; }
static void fwd(int *p) { rd(p); }
static void fwdw(int *p) { wr(p); }
extern int unknown(int *p);
extern int cknown(const int *p);
int f(int x) {
  static int cnt;
  static const int tab[2] = {1,2};
  cnt++;
  arr[1] = x;
  sv.b[0] = 2;
  rd(&c1); fwd(&ro); cknown(&ro2); fwdw(&wr1);
  keeper = &keep;
  if (hook) hook(1);
  return tab[0] + k + kk + sizeof(arr) + *arr + msg[0] + glob;
}
#if 0
static double *A;
#endif
#ifdef DEBUG
int num_drop;
#endif
'''
def selftest():
    d = tempfile.mkdtemp(prefix='censusst')
    try:
        src = os.path.join(d, 't.c'); open(src, 'w').write(SELFTEST_C)
        on = analyse_tu(clang_ast(src, [], []))
        text = SELFTEST_C
        res = dict(rel='t.c', on=on, off=None, syms=nm_symbols(src, [], d), cands=text_scan(text))
        for x in on['defs']: x['line'] = 0
        on['names'] = sorted(set('%s@%d' % (nm, text.count('\n', 0, o) + 1) for nm, o in on['names'] if o >= 0 and text[o:o + len(nm)] == nm))
        recs = {r['name']: r for r in build_records([res])}
        exp = {  # name: (written, escapes)
            'c1': (False, False), 'arr': (True, False), 'glob': (False, False), 'hook': (False, False), 'msg': (False, False),
            'sv': (True, False), 'ro': (False, False), 'ro2': (False, False), 'wr1': (False, True), 'keep': (False, True),
            'keeper': (True, False), 'f.cnt': (True, False), 'untouched': (False, False) }
        bad = []
        for n, (w, e) in exp.items():
            r = recs.get(n)
            if r is None: bad.append('missing ' + n); continue
            if (r['written'], r['escapes']) != (w, e): bad.append('%s: got written=%s escapes=%s' % (n, r['written'], r['escapes']))
        for n in ('k', 'kk', 'cmsg', 'f.tab', 'ext'):
            if n in recs: bad.append('const/extern object listed: ' + n)
        if not (recs.get('A') and recs['A']['insideIfZero'] and recs['A']['kind'] == 'inactive'): bad.append('#if 0 object A not found')
        if not (recs.get('num_drop') and not recs['num_drop']['insideIfZero']): bad.append('DEBUG object not found')
        if any(r['kind'] == 'nm-only' for r in recs.values()): bad.append('nm-only: ' + str([r['name'] for r in recs.values() if r['kind'] == 'nm-only']))
        for n in ('arr', 'sv', 'f.cnt'):
            if not recs[n]['inObject']: bad.append(n + ' should be in the object file')
        if bad:
            print('census selftest FAILED:\n  ' + '\n  '.join(bad)); return 1
        print('census selftest ok (%d records)' % len(recs)); return 0
    finally:
        shutil.rmtree(d, ignore_errors=True)

def main():
    a = [x for x in sys.argv[1:] if not x.startswith('--')]
    if '--selftest' in sys.argv: return selftest()
    if len(a) < 2:
        print(__doc__); return 2
    repo, gen = a[0], a[1]
    try:
        recs = census(repo, gen, '--json' in sys.argv)
    except Exception as e:
        msg = 'census translator failed: %s' % (str(e)[:500])
        try: emit(gen, False, msg, 0, [])
        except Exception: pass
        print(msg, file=sys.stderr)
        return 1
    if '--json' not in sys.argv:
        print('census: %d records (%d written, %d escaping, %d in objects)' % (len(recs), sum(r['written'] for r in recs),
              sum(r['escapes'] for r in recs), sum(r['inObject'] for r in recs)))
    return 0

if __name__ == '__main__':
    sys.exit(main())
